#!/usr/bin/env python3
"""mutscan.py - systematic mutation scan of the checkers (checker validation, not a registered check).

  mutscan.py gen  <relfile>                 list the mutants of one source file
  mutscan.py run  [-j N] [--limit K] <relfile>...   scan; results in mutscan/<name>.json
  mutscan.py show <relfile> [silent|broken|detected]

For every first-order mutant (operator swaps, off-by-one constants, negated conditions, deleted
statements) of the functions in <relfile>: apply it in a scratch worktree under /tmp, build, run the
complete test suite.  Mutants that do not compile or that the tests kill are of no interest here.  A
mutant that SURVIVES the tests is handed to the checks of the properties anchored in that file (run
against a scratch copy, exactly as seed_tool does): exit 1 = detected, exit 2 = analysis-broken,
exit 0 = silent.  Silent survivors are what a human then triages: equivalent mutant, behaviour outside
every listed property, or a hole in a rule.

Worktrees and scratch copies live under /tmp and are removed at the end."""
import json, os, re, shutil, subprocess, sys, tempfile, hashlib
from concurrent.futures import ThreadPoolExecutor

HERE = os.path.dirname(os.path.abspath(__file__))
sys.path.insert(0, HERE)
OUT = os.path.join(HERE, 'mutscan')

REL_SWAP = {'<': ['<=', '>'], '<=': ['<', '=='], '>': ['>=', '<'], '>=': ['>', '=='], '==': ['!='], '!=': ['=='],
            '+': ['-'], '-': ['+'], '&&': ['||'], '||': ['&&'], '&': ['|'], '|': ['&'], '<<': ['>>'], '>>': ['<<'],
            '+=': ['-='], '-=': ['+='], '|=': ['&='], '&=': ['|='], '*': ['+'], '/': ['*'], '%': ['/']}


def props_for(rel):
    m = {}
    for l in open(os.path.join(HERE, 'properties.jsonl')):
        d = json.loads(l)
        for f in d['anchors']['files']:
            m.setdefault(f, []).append(d['id'])
    extra = {'include/ufw/binary-format.h': ['C15', 'C13', 'C01'], 'src/crc-16-arc.c': ['C16', 'C08', 'C07'],
             'src/endpoints/core.c': ['C17', 'C13'], 'src/byte-buffer.c': ['C18', 'C17', 'C13', 'C14'],
             'src/registers/core.c': ['C01', 'C02', 'C03', 'C04', 'C05'], 'src/register-protocol.c': ['C06', 'C07', 'C08', 'C09'],
             'src/variable-length-integer.c': ['C14', 'C13'], 'src/endpoints/buffer.c': ['C17'],
             'include/ufw/ring-buffer.h': ['C19'], 'src/endpoints/continuable-sink.c': ['C09', 'C07'], 'src/allocator.c': ['C09'],
             'src/endpoints/trivial.c': ['C17'], 'src/registers/internal.h': ['C04'],
             'include/ufw/bit-operations.h': ['C15', 'C01', 'C04', 'C06', 'C07', 'C08', 'C12'],
             'include/ufw/length-prefix.h': ['C13'], 'include/ufw/register-protocol.h': ['C06', 'C07', 'C08', 'C09'],
             'include/ufw/register-table.h': ['C01', 'C02', 'C03', 'C04', 'C05'], 'include/ufw/sx.h': ['C20'],
             'include/ufw/ring-buffer-iter.h': ['C19'], 'include/ufw/endpoints.h': ['C17', 'C13', 'C09'],
             'include/ufw/persistent-storage.h': ['C10', 'C11'], 'include/ufw/byte-buffer.h': ['C18', 'C17', 'C13'],
             'include/ufw/endpoints/continuable-sink.h': ['C09', 'C07'], 'include/ufw/rfc1055.h': ['C12', 'C08'],
             'include/ufw/variable-length-integer.h': ['C14', 'C13'], 'include/ufw/allocator.h': ['C09'],
             'include/ufw/octet-ring.h': ['C19'], 'include/ufw/crc/crc16-arc.h': ['C16', 'C07', 'C08']}
    out = list(m.get(rel, []))
    for p in extra.get(rel, []):
        if p not in out:
            out.append(p)
    return sorted(out)


def gen(rel):
    from ufwsa import cast
    unit = {'include/ufw/binary-format.h': 'src/registers/core.c', 'include/ufw/ring-buffer.h': 'src/ring-buffer-iter.c'}.get(rel, rel)
    u = cast.load(unit)
    path = os.path.join('/repo', rel)
    data = open(path, 'rb').read()
    muts = []
    seen = set()

    def plain(loc):
        return isinstance(loc, dict) and 'offset' in loc and 'expansionLoc' not in loc and 'spellingLoc' not in loc and \
            (loc.get('file') or '').endswith(rel)

    def rng(n):
        r = n.get('range') or {}
        b, e = r.get('begin'), r.get('end')
        if plain(b) and plain(e):
            return b['offset'], e['offset'] + e.get('tokLen', 1)
        return None

    def add(fn, a, b, new, desc, line):
        key = (a, b, new)
        if key in seen or data[a:b].decode('utf8', 'replace') == new:
            return
        seen.add(key)
        muts.append({'fn': fn, 'start': a, 'end': b, 'new': new, 'desc': desc, 'line': line})

    for name, f in sorted(u.functions.items()):
        body = u.body(name)
        if body is None:
            continue
        fl = cast.node_file(f) or ''
        if not fl.endswith(rel):
            continue
        for n in cast.walk(body):
            k = cast.kind(n)
            r = rng(n)
            if r is None:
                continue
            line = cast.node_line(n)
            if k in ('BinaryOperator', 'CompoundAssignOperator'):
                op = n.get('opcode')
                if op in REL_SWAP and len(n.get('inner', [])) == 2:
                    ra, rb = rng(n['inner'][0]), rng(n['inner'][1])
                    if ra and rb and ra[1] <= rb[0]:
                        gap = data[ra[1]:rb[0]].decode('utf8', 'replace')
                        idx = gap.find(op)
                        if idx >= 0 and gap.count(op) == 1 and gap.replace(op, '').strip(' \t\n()') == '':
                            for new in REL_SWAP[op]:
                                add(name, ra[1] + idx, ra[1] + idx + len(op), new, '%s -> %s' % (op, new), line)
            elif k == 'IntegerLiteral':
                txt = data[r[0]:r[1]].decode('utf8', 'replace')
                m = re.match(r'^(\d+)([uUlL]*)$', txt)
                if m and int(m.group(1)) < 1000:
                    v = int(m.group(1))
                    add(name, r[0], r[1], '%d%s' % (v + 1, m.group(2)), '%s -> %d' % (txt, v + 1), line)
                    if v > 0:
                        add(name, r[0], r[1], '%d%s' % (v - 1, m.group(2)), '%s -> %d' % (txt, v - 1), line)
            elif k == 'IfStmt':
                c = n['inner'][0]
                rc = rng(c)
                if rc:
                    add(name, rc[0], rc[1], '!(%s)' % data[rc[0]:rc[1]].decode('utf8', 'replace'), 'negate if-condition', line)
            elif k == 'UnaryOperator' and n.get('opcode') in ('++', '--') and r:
                txt = data[r[0]:r[1]].decode('utf8', 'replace')
                new = txt.replace('++', '\0').replace('--', '++').replace('\0', '--')
                add(name, r[0], r[1], new, '%s -> %s' % (txt, new), line)
        # statement deletion: expression statements directly inside compound statements
        for n in cast.walk(body):
            if cast.kind(n) != 'CompoundStmt':
                continue
            for s in cast.inner(n):
                ks = cast.kind(s)
                if ks in ('CallExpr', 'BinaryOperator', 'CompoundAssignOperator', 'UnaryOperator'):
                    if ks == 'BinaryOperator' and s.get('opcode') not in ('=',):
                        continue
                    r = rng(s)
                    if r:
                        add(name, r[0], r[1], '(void)0', 'delete statement `%s`' % ' '.join(data[r[0]:r[1]].decode('utf8', 'replace').split())[:60],
                            cast.node_line(s))
                elif ks in ('BreakStmt', 'ContinueStmt'):
                    pass
    muts.sort(key=lambda m: (m['start'], m['new']))
    for i, m in enumerate(muts):
        m['id'] = '%s:%d' % (os.path.basename(rel), i)
    return muts, data


def gen_text(rel, lo, hi):
    """token-level mutants for code that only exists inside macro bodies (lines lo..hi): the AST has no own
    source ranges for it"""
    data = open(os.path.join('/repo', rel), 'rb').read()
    text = data.decode('utf8', 'replace')
    lines = text.split('\n')
    off = [0]
    for l in lines:
        off.append(off[-1] + len(l.encode()) + 1)
    tok = re.compile(r'->|<<=|>>=|<<|>>|<=|>=|==|!=|\+\+|--|\+=|-=|&&|\|\||[<>+\-]|\b\d+[uUlL]*\b')
    muts = []
    for ln in range(lo - 1, min(hi, len(lines))):
        l = lines[ln]
        if l.strip().startswith(('*', '/*', '//', '#include')):
            continue
        for m in tok.finditer(l):
            t = m.group(0)
            if t in ('->',):
                continue
            alts = []
            if t in REL_SWAP:
                alts = REL_SWAP[t]
            elif t == '++':
                alts = ['--']
            elif t == '--':
                alts = ['++']
            elif re.match(r'\d', t):
                mm = re.match(r'(\d+)([uUlL]*)', t)
                v = int(mm.group(1))
                if v < 1000:
                    alts = ['%d%s' % (v + 1, mm.group(2))] + (['%d%s' % (v - 1, mm.group(2))] if v > 0 else [])
            for a in alts:
                # byte offsets (the file is ASCII in these regions)
                st = off[ln] + len(l[:m.start()].encode())
                muts.append({'fn': 'macro@%d' % (ln + 1), 'start': st, 'end': st + len(t.encode()), 'new': a,
                             'desc': '%s -> %s' % (t, a), 'line': ln + 1})
    # statement deletion: a line that is one simple statement `...;` (optionally followed by a continuation backslash)
    for ln in range(lo - 1, min(hi, len(lines))):
        l = lines[ln]
        m = re.match(r'^(\s*)([A-Za-z_#][^;{}]*;)(\s*\\?)\s*$', l)
        if not m or m.group(2).startswith(('return', 'static', 'void', 'bool', 'size_t', 'TYPE', 'else')) or '(' in m.group(2) and m.group(2).rstrip().endswith(');') and ' ' in m.group(2).split('(')[0].strip() :
            continue
        st = off[ln] + len(m.group(1).encode())
        muts.append({'fn': 'macro@%d' % (ln + 1), 'start': st, 'end': st + len(m.group(2).encode()), 'new': '(void)0;',
                     'desc': 'delete statement `%s`' % m.group(2)[:50], 'line': ln + 1})
    for i, m in enumerate(muts):
        m['id'] = '%s:t%d' % (os.path.basename(rel), i)
    return muts, data


def sh(cmd, cwd=None, env=None, timeout=600):
    p = subprocess.run(cmd, shell=True, cwd=cwd, env=env, capture_output=True, text=True, timeout=timeout)
    return p.returncode, p.stdout + p.stderr


class Worker:
    def __init__(self, k):
        self.wt = '/tmp/mutscan-wt%d' % k
        self.chk = '/tmp/mutscan-chk%d' % k
        sh('git -C /repo worktree remove --force %s' % self.wt)
        shutil.rmtree(self.wt, ignore_errors=True)
        shutil.rmtree(self.chk, ignore_errors=True)
        rc, o = sh('git -C /repo worktree add --detach %s HEAD' % self.wt)
        assert rc == 0, o
        rc, o = sh('cmake -G Ninja -S %s -B %s/_build >/dev/null && cmake --build %s/_build' % (self.wt, self.wt, self.wt))
        assert rc == 0, o[-500:]
        os.makedirs(self.chk)
        for d in ('src', 'include', 'doc'):
            shutil.copytree(os.path.join('/repo', d), os.path.join(self.chk, d), symlinks=True)
        shutil.copytree('/repo/_build/include', os.path.join(self.chk, '_build_include'))

    def close(self):
        sh('git -C /repo worktree remove --force %s' % self.wt)
        shutil.rmtree(self.wt, ignore_errors=True)
        shutil.rmtree(self.chk, ignore_errors=True)

    def one(self, rel, data, m, props):
        new = data[:m['start']] + m['new'].encode() + data[m['end']:]
        res = dict(m)
        p1 = os.path.join(self.wt, rel)
        try:
            open(p1, 'wb').write(new)
            rc, o = sh('cmake --build %s/_build' % self.wt)
            if rc != 0:
                res['outcome'] = 'nocompile'
                return res
            if re.search(r'warning:', o):
                res['warning'] = True
            try:
                rc, o = sh('ctest --test-dir %s/_build -j4 --timeout 20' % self.wt, timeout=120)
            except subprocess.TimeoutExpired:
                rc = 1
            if rc != 0:
                res['outcome'] = 'killed-by-tests'
                return res
            p2 = os.path.join(self.chk, rel)
            open(p2, 'wb').write(new)
            env = dict(os.environ, UFW_REPO=self.chk, UFWSA_EVID=os.path.join(self.chk, 'evid'), UFWSA_NO_CORPUS='1')
            det, brk, reports = [], [], []
            for pid in props:
                try:
                    p = subprocess.run([sys.executable, '-B', '-m', 'ufwsa.main', pid, '--tier', 'quick'], cwd=HERE, env=env,
                                       capture_output=True, text=True, timeout=600)
                    prc, out = p.returncode, p.stdout
                except subprocess.TimeoutExpired:
                    prc, out = 2, 'ANALYSIS-BROKEN timeout'
                if prc == 1:
                    det.append(pid)
                    reports += [l.strip()[:240] for l in out.splitlines() if l.startswith('   rule=')][:2]
                elif prc != 0:
                    brk.append(pid)
                    reports += [l.strip()[:240] for l in out.splitlines() if l.startswith('ANALYSIS-BROKEN')][:2]
            res['outcome'] = 'detected' if det else ('broken' if brk else 'silent')
            res['detected_by'] = det
            res['broken_in'] = brk
            res['reports'] = reports[:4]
            return res
        finally:
            open(p1, 'wb').write(data)
            open(os.path.join(self.chk, rel), 'wb').write(data)


def context(data, m, n=2):
    lines = data.decode('utf8', 'replace').split('\n')
    ln = data[:m['start']].count(b'\n')
    return '\n'.join(lines[max(0, ln - n):ln + n + 1])


def main():
    a = sys.argv[1:]
    if not a:
        sys.exit(__doc__)
    if a[0] == 'gen':
        muts, data = gen(a[1])
        for m in muts:
            print(m['id'], m['fn'], 'line', m['line'], m['desc'])
        print(len(muts), 'mutants')
        return
    if a[0] == 'show':
        rel = a[1]
        want = a[2] if len(a) > 2 else 'silent'
        d = json.load(open(os.path.join(OUT, rel.replace('/', '_') + '.json')))
        data = open(os.path.join('/repo', rel), 'rb').read()
        for m in d['mutants']:
            if m.get('outcome') == want and m.get('triage') is None:
                print('=== %s  %s line %s: %s' % (m['id'], m['fn'], m['line'], m['desc']))
                print(context(data, m))
                for r in m.get('reports', []):
                    print('    ', r)
        return
    if a[0] == 'recheck':
        # after a change of the machinery: the survivors that were reported must still be reported (checks only, no build)
        j = 12
        rels = [x for x in a[1:] if not x.startswith('-')]
        if not rels:
            rels = [json.load(open(os.path.join(OUT, f)))['file'] for f in sorted(os.listdir(OUT)) if f.endswith('.json')]
        lost_all = 0
        for rel in rels:
            fp = os.path.join(OUT, rel.replace('/', '_') + '.json')
            if not os.path.exists(fp):
                continue
            d = json.load(open(fp))
            rc_, o_ = sh('git -C /repo diff --quiet %s HEAD -- %s' % (d.get('repo_head', 'HEAD'), rel))
            if rc_ != 0:
                print('%-40s scanned at %s, changed since: offsets stale, skipped' % (rel, d.get('repo_head')), flush=True)
                continue
            data = open(os.path.join('/repo', rel), 'rb').read()
            muts = [m for m in d['mutants'] if m.get('outcome') == 'detected']
            # the recorded offsets must still describe the recorded text
            muts = [m for m in muts if m.get('old') is None or data[m['start']:m['end']].decode(errors='replace') == m['old']]
            props = d.get('properties') or props_for(rel)

            def job(m):
                chk = tempfile.mkdtemp(prefix='mutscan-re-')
                try:
                    for dd in ('src', 'include', 'doc'):
                        shutil.copytree(os.path.join('/repo', dd), os.path.join(chk, dd), symlinks=True)
                    shutil.copytree('/repo/_build/include', os.path.join(chk, '_build_include'))
                    open(os.path.join(chk, rel), 'wb').write(data[:m['start']] + m['new'].encode() + data[m['end']:])
                    env = dict(os.environ, UFW_REPO=chk, UFWSA_EVID=os.path.join(chk, 'evid'), UFWSA_NO_CORPUS='1')
                    rcs = {}
                    for pid in (m.get('detected_by') or props):
                        pr = subprocess.run([sys.executable, '-B', '-m', 'ufwsa.main', pid, '--tier', 'quick'], cwd=HERE, env=env,
                                            capture_output=True, text=True, timeout=600)
                        rcs[pid] = pr.returncode
                    return m, rcs
                finally:
                    shutil.rmtree(chk, ignore_errors=True)
            lost = []
            with ThreadPoolExecutor(max_workers=j) as ex:
                for m, rcs in ex.map(job, muts):
                    if 1 not in rcs.values():
                        lost.append((m, rcs))
            print('%-40s previously reported %4d, still reported %4d' % (rel, len(muts), len(muts) - len(lost)), flush=True)
            for m, rcs in lost:
                print('   LOST %s %s line %s: %s  %s' % (m['id'], m['fn'], m['line'], m['desc'][:90], rcs))
            lost_all += len(lost)
        print('mutscan recheck: %d previously reported survivors are no longer reported' % lost_all)
        return
    if a[0] == 'run':
        j, limit = 8, None
        rels = []
        i = 1
        while i < len(a):
            if a[i] == '-j':
                j = int(a[i + 1]); i += 2
            elif a[i] == '--limit':
                limit = int(a[i + 1]); i += 2
            else:
                rels.append(a[i]); i += 1
        os.makedirs(OUT, exist_ok=True)
        workers = [Worker(k) for k in range(j)]
        try:
            for rel in rels:
                if ':' in rel:
                    rel, rng_ = rel.split(':')
                    lo_, hi_ = rng_.split('-')
                    muts, data = gen_text(rel, int(lo_), int(hi_))
                else:
                    muts, data = gen(rel)
                if limit:
                    muts = muts[:limit]
                props = props_for(rel)
                import queue
                q = queue.Queue()
                for w in workers:
                    q.put(w)

                def job(m):
                    w = q.get()
                    try:
                        return w.one(rel, data, m, props)
                    except Exception as e:
                        r = dict(m); r['outcome'] = 'error'; r['error'] = str(e)[:200]
                        return r
                    finally:
                        q.put(w)
                with ThreadPoolExecutor(max_workers=j) as ex:
                    res = list(ex.map(job, muts))
                from collections import Counter
                c = Counter(r['outcome'] for r in res)
                head = subprocess.run('git -C /repo rev-parse --short HEAD', shell=True, capture_output=True, text=True).stdout.strip()
                json.dump({'file': rel, 'repo_head': head, 'properties': props, 'summary': dict(c), 'mutants': res},
                          open(os.path.join(OUT, rel.replace('/', '_') + '.json'), 'w'), indent=1)
                print(rel, dict(c), flush=True)
        finally:
            for w in workers:
                w.close()
            sh('git -C /repo worktree prune')


if __name__ == '__main__':
    main()
