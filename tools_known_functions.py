#!/usr/bin/env python3
"""Freeze the names of the functions that have a body in the repository's sources and headers on the tree the rules
were confirmed on (ufwsa/known_functions.json).  A function with a body whose name is NOT in this table is a helper
introduced later: the path engine inlines it at its call sites instead of treating the call as an opaque event, and the
syntax-level rules look through it.  Also frozen: the names of each function's parameters (by position) and locals (by
order of declaration and type) - cast.Unit gives a parameter / local that was merely renamed its confirmed name back, so
that no rule depends on how a variable is spelled.  Run by hand after the rules were re-confirmed on a tree
with new functions; never at check time."""
import glob, json, os, sys
sys.path.insert(0, os.path.dirname(os.path.abspath(__file__)))
from ufwsa import cast, front

names = set()
params = {}
locs = {}
units = []
for p in sorted(glob.glob(front.REPO + '/src/**/*.c', recursive=True)):
    rel = os.path.relpath(p, front.REPO)
    try:
        u = cast.load(rel)
    except Exception as e:      # noqa: BLE001 - units outside the compilation database
        print('skip', rel, str(e)[:80])
        continue
    units.append(rel)
    for name, f in u.functions.items():
        fl = cast.node_file(f)
        if fl and fl.startswith(front.REPO) and u.body(name) is not None:
            names.add(name)
            alt = {'params': [[q.get('name'), cast.qual_type(q)] for q in u.params(name)],
                   'locals': [[x.get('name'), cast.qual_type(x)] for x in cast.walk(u.body(name)) if cast.kind(x) == 'VarDecl']}
            if alt not in params.setdefault(name, []):
                params[name].append(alt)
json.dump({'units': units, 'functions': sorted(names), 'names': params}, open(os.path.join(os.path.dirname(os.path.abspath(__file__)), 'ufwsa', 'known_functions.json'), 'w'), indent=0)
print(len(units), 'units', len(names), 'functions')
