#!/usr/bin/env python3
"""mkmut.py ID FILE PROPS RULES KIND NOTE <<< "old\n====\nnew"  : add a corpus entry made by one textual replacement
(applied to /repo's current file; stored as a unified diff)."""
import sys, os, json, difflib
cid, rel, props, rules, kind, note = sys.argv[1:7]
old, new = sys.stdin.read().split('\n====\n')
new = new.rstrip('\n') if not new.endswith('\n\n') else new
old = old.strip('\n'); new = new.strip('\n')
src = open(os.path.join('/repo', rel)).read()
if src.count(old) != 1:
    sys.exit('pattern occurs %d times in %s' % (src.count(old), rel))
dst = src.replace(old, new)
d = ''.join(difflib.unified_diff(src.splitlines(True), dst.splitlines(True), 'a/' + rel, 'b/' + rel))
here = os.path.dirname(os.path.abspath(__file__))
open(os.path.join(here, 'corpus', cid + '.diff'), 'w').write(d)
ip = os.path.join(here, 'corpus', 'index.json')
idx = json.load(open(ip)) if os.path.exists(ip) else []
idx = [e for e in idx if e['id'] != cid]
idx.append({'id': cid, 'patch': cid + '.diff', 'properties': props.split(','),
            'expect_rules': [r for r in rules.split(',') if r], 'kind': kind, 'note': note})
idx.sort(key=lambda e: e['id'])
json.dump(idx, open(ip, 'w'), indent=1)
print('added', cid)
