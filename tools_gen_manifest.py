#!/usr/bin/env python3
"""Regenerates MANIFEST.json from the table below (keeps it valid at all times)."""
import json, os
HERE = os.path.dirname(os.path.abspath(__file__))
CLAIMED = json.load(open(os.path.join(HERE, 'manifest_claims.json')))
props = [json.loads(l) for l in open(os.path.join(HERE, 'properties.jsonl'))]
checks, na = [], []
for p in props:
    pid = p['id']
    c = CLAIMED.get(pid)
    if c and c.get('claimed'):
        checks.append({
            'property_id': pid,
            'quick_cmd': './check %s --tier quick' % pid,
            'thorough_cmd': './check %s --tier thorough' % pid,
            'evidence_file': 'evidence/%s.json' % pid,
            'replay_cmd_template': './check --explain {path}',
            'engine': 'ufwsa',
            'level_claimed': {'category': c['category'], 'text': c['text'], 'design_ref': c.get('design_ref', 'DESIGN.md section 4 / ' + pid)},
            'level_note': c['note'],
            'technique': c['technique'],
        })
    else:
        na.append({'property_id': pid, 'reason': (c or {}).get('reason', 'no sound static rule implemented yet for this property; see DESIGN.md section 4')})
m = {
    'version': 1,
    'setup_cmd': 'python3 -B -m ufwsa.selftest',
    'hooks': {'guard': 'FT_UFW_VERIF', 'enable': 'none needed: the checks parse /repo\'s unmodified sources (clang -fsyntax-only); no hook commits exist',
              'baseline_off_cmd': 'cmake -G Ninja -S /repo -B /repo/_build >/dev/null && cmake --build /repo/_build >/dev/null && ctest --test-dir /repo/_build -j8 --timeout 900',
              'source_commits': [], 'add_only': True},
    'engines': [{'name': 'ufwsa', 'path': 'ufwsa/', 'serves_properties': [c['property_id'] for c in checks],
                 'kind_free_text': 'repository-specific static analysis in Python over clang-14 JSON ASTs of the real compilation units: structured CFG path enumeration with linear-relation entailment, effect/ordering rules, table/sibling agreement rules, GF(2)-affine bit-provenance abstract interpretation'}],
    'checks': checks,
    'not_applicable': na,
    'notes': 'Exit codes of ./check: 0 property held on everything analysed (KNOWN-FINDING lines possible), 1 VIOLATION, 2 ANALYSIS-BROKEN (anchor vanished / construct outside the analysis; never reported as pass or violation). Known findings: known_findings.json. Rules identify their instances by role, not by spelling: ufwsa/known_functions.json freezes the functions (with parameter / local names) of the tree the rules were confirmed on; helpers newer than that table are looked through, renamed parameters and locals get their confirmed names back in the loaded tree, loop accounts (index up / remaining count down / walking pointer) are found by what every iteration does to them. Validation sets, re-run after every change of the machinery: corpus/ (./corpus_tool: mutants reported, equivalent rewrites silent), seeded/ (./seed_tool.py recheck: 160+ independent mutants reported), refactors/ (./refactor_tool.py recheck: 161 independent behaviour-preserving rewrites; none may raise a VIOLATION).',
}
json.dump(m, open(os.path.join(HERE, 'MANIFEST.json'), 'w'), indent=1)
print('claimed', len(checks), 'n/a', len(na))
