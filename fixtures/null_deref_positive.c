/* Positive example for the C20.b analyzer channel: must always be reported by
 * clang-analyzer-core.NullDereference (keeps the channel from passing vacuously). */
struct node { int type; };
struct res { int status; struct node *node; };
static int is_empty(const struct res *r) { return r->status == 0 && r->node->type == 1; }
int f(int x)
{
    struct res r = { 0, 0 };
    if (x) {
        return is_empty(&r);
    }
    return 0;
}
