#!/usr/bin/env python3
"""kf.py PROPERTY RULE KEY STATUS COMMIT WHAT  - append an entry to known_findings.json"""
import json, sys, os
p = os.path.join(os.path.dirname(os.path.abspath(__file__)), 'known_findings.json')
d = json.load(open(p))
prop, rule, key, status, commit, what = sys.argv[1:7]
e = {'property': prop, 'rule': rule, 'key': key, 'status': status, 'commit': commit, 'what': what}
if status == 'fixed':
    e['line'] = 'fixed: property=%s %s %s' % (prop, commit, what)
d['findings'] = [x for x in d['findings'] if not (x['property'] == prop and x['key'] == key and x['rule'] == rule)] + [e]
json.dump(d, open(p, 'w'), indent=1)
