"""K4 LIN: linear forms over atoms and entailment by Fourier-Motzkin elimination.

A Lin is  sum(coef * atom) + const  with Fraction coefficients; a constraint is
a Lin interpreted as  lin <= 0.  All atoms denote integers.
"""
from fractions import Fraction


class Lin:
    __slots__ = ('t', 'c')

    def __init__(self, terms=None, const=0):
        self.t = {k: Fraction(v) for k, v in (terms or {}).items() if v != 0}
        self.c = Fraction(const)

    @staticmethod
    def atom(a):
        return Lin({a: 1}, 0)

    @staticmethod
    def const(c):
        return Lin({}, c)

    def __add__(self, o):
        o = _lin(o)
        t = dict(self.t)
        for k, v in o.t.items():
            nv = t.get(k, 0) + v
            if nv == 0:
                t.pop(k, None)
            else:
                t[k] = nv
        return Lin(t, self.c + o.c)

    def __neg__(self):
        return Lin({k: -v for k, v in self.t.items()}, -self.c)

    def __sub__(self, o):
        return self + (-_lin(o))

    def scale(self, f):
        f = Fraction(f)
        return Lin({k: v * f for k, v in self.t.items()}, self.c * f)

    def __mul__(self, f):
        return self.scale(f)

    def is_const(self):
        return not self.t

    def atoms(self):
        return set(self.t)

    def key(self):
        return (tuple(sorted(((repr(k), v) for k, v in self.t.items()))), self.c)

    def __eq__(self, o):
        o = _lin(o)
        return self.t == o.t and self.c == o.c

    def __hash__(self):
        return hash(self.key())

    def __repr__(self):
        parts = []
        for k, v in sorted(self.t.items(), key=lambda kv: repr(kv[0])):
            name = k if isinstance(k, str) else fmt_atom(k)
            if v == 1:
                parts.append('+ %s' % name)
            elif v == -1:
                parts.append('- %s' % name)
            else:
                parts.append('%s %s*%s' % ('+' if v > 0 else '-', abs(v), name))
        if self.c != 0 or not parts:
            parts.append('%s %s' % ('+' if self.c >= 0 else '-', abs(self.c)))
        s = ' '.join(parts)
        return s[2:] if s.startswith('+ ') else s


def fmt_atom(a):
    try:
        from .sym import fmt
        if isinstance(a, tuple) and a and a[0] == 'poff':
            return 'offset(%s)' % fmt(a[1])
        return fmt(a)
    except Exception:
        return repr(a)


def _lin(x):
    if isinstance(x, Lin):
        return x
    return Lin({}, x)


def le(a, b):
    """constraint a <= b  as Lin (a - b <= 0)"""
    return _lin(a) - _lin(b)


def lt(a, b):
    """a < b over integers: a - b + 1 <= 0"""
    return _lin(a) - _lin(b) + 1


def eq(a, b):
    d = _lin(a) - _lin(b)
    return [d, -d]


def infeasible(cons, max_cons=4000):
    """True if the conjunction of (lin <= 0) constraints has no rational
    solution (Fourier-Motzkin).  None if the elimination blew up."""
    cons = list({c.key(): c for c in cons}.values())
    while True:
        for c in cons:
            if c.is_const() and c.c > 0:
                return True
        cons = [c for c in cons if not c.is_const()]
        if not cons:
            return False
        # pick variable with fewest pos*neg products
        occ = {}
        for c in cons:
            for a, v in c.t.items():
                p, n = occ.get(a, (0, 0))
                occ[a] = (p + (v > 0), n + (v < 0))
        var = min(occ, key=lambda a: occ[a][0] * occ[a][1])
        pos = [c for c in cons if c.t.get(var, 0) > 0]
        neg = [c for c in cons if c.t.get(var, 0) < 0]
        rest = [c for c in cons if var not in c.t]
        new = []
        for p in pos:
            for n in neg:
                # p: a*x + P <= 0 (a>0);  n: -b*x + N <= 0 (b>0)  =>  b*P + a*N <= 0
                a = p.t[var]
                b = -n.t[var]
                r = p.scale(b) + n.scale(a)
                r.t.pop(var, None)
                new.append(r)
        cons = list({c.key(): c for c in rest + new}.values())
        if len(cons) > max_cons:
            return None


def entails(facts, goal):
    """facts (list of Lin, each <= 0) |- goal <= 0 over the integers
    (sound: True only if provable over Q after integer tightening)."""
    neg = (-goal) + 1          # goal >= 1
    r = infeasible(list(facts) + [neg])
    return bool(r)


def entails_eq(facts, a, b):
    d = _lin(a) - _lin(b)
    return entails(facts, d) and entails(facts, -d)


def selftest():
    x, y, z = Lin.atom('x'), Lin.atom('y'), Lin.atom('z')
    # x <= y, y <= z |- x <= z
    assert entails([le(x, y), le(y, z)], le(x, z))
    assert not entails([le(x, y)], le(y, x))
    # offset <= used, used <= size, n <= used - offset |- offset + n <= size
    o, u, s, n = (Lin.atom(a) for a in ('o', 'u', 's', 'n'))
    assert entails([le(o, u), le(u, s), le(n, u - o)], le(o + n, s))
    assert not entails([le(o, u), le(u, s), le(n, s - o)], le(o + n, u))
    # idx <= entries does not give idx + 1 <= entries
    i, e = Lin.atom('i'), Lin.atom('e')
    assert not entails([le(i, e)], le(i + 1, e))
    assert entails([lt(i, e)], le(i + 1, e))
