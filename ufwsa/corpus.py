"""Checker validation (DESIGN section 7): apply each corpus patch to a scratch
copy of /repo's sources, run the property's check on the copy and require the
expected outcome (mutant: VIOLATION naming the expected rule; refactor: silent).
Never touches /repo or /verif/evidence."""
import json, os, shutil, subprocess, sys, tempfile
from concurrent.futures import ThreadPoolExecutor
from . import front, report

CORPUS = os.path.join(report.VERIF, 'corpus')


def load_index():
    p = os.path.join(CORPUS, 'index.json')
    return json.load(open(p)) if os.path.exists(p) else []


def make_copy(dst):
    for d in ('src', 'include', 'doc'):
        shutil.copytree(os.path.join(front.REPO, d), os.path.join(dst, d), symlinks=True)
    bi = os.path.join(front.REPO, '_build/include')
    if os.path.isdir(bi):
        shutil.copytree(bi, os.path.join(dst, '_build_include'))


def run_entry(entry, tier='quick'):
    tmp = tempfile.mkdtemp(prefix='ufwsa-mut-')
    try:
        make_copy(tmp)
        patch = os.path.join(CORPUS, entry['patch'])
        p = subprocess.run(['patch', '-p1', '-s', '-d', tmp, '-i', patch], capture_output=True, text=True)
        if p.returncode != 0:
            return dict(entry, outcome='patch-does-not-apply', detail=(p.stdout + p.stderr)[-300:])
        env = dict(os.environ, UFW_REPO=tmp, UFWSA_EVID=os.path.join(tmp, 'evid'), UFWSA_NO_CORPUS='1')
        outs = []
        ok = True
        for pid in entry['properties']:
            r = subprocess.run([sys.executable, '-B', '-m', 'ufwsa.main', pid, '--tier', 'quick'],
                               cwd=report.VERIF, env=env, capture_output=True, text=True)
            outs.append((pid, r.returncode, r.stdout))
        detail = []
        if entry.get('kind', 'mutant') == 'mutant':
            want = entry.get('expect_rules', [])
            hit = False
            for pid, rc, out in outs:
                if rc == 1 and 'VIOLATION property=%s' % pid in out:
                    if not want or any(('rule=%s ' % w) in out for w in want):
                        hit = True
                detail.append('%s rc=%d' % (pid, rc))
            outcome = 'caught' if hit else 'MISSED'
        elif entry.get('kind') == 'rewrite':
            unread = set(entry.get('unreadable_for', []))
            worst = 'silent'
            for pid, rc, out in outs:
                detail.append('%s rc=%d' % (pid, rc))
                if rc == 0:
                    continue
                if rc == 2 and pid in unread and 'VIOLATION property=' not in out:
                    worst = 'unreadable' if worst == 'silent' else worst
                else:
                    worst = 'FALSE-ALARM'
                    detail += [l for l in out.splitlines() if l.startswith(('   rule=', 'ANALYSIS-BROKEN'))][:3]
            outcome = worst
        else:
            silent = all(rc == 0 for _, rc, _ in outs)
            outcome = 'silent' if silent else 'FALSE-ALARM'
            for pid, rc, out in outs:
                detail.append('%s rc=%d' % (pid, rc))
                if rc != 0:
                    detail += [l for l in out.splitlines() if l.startswith(('   rule=', 'ANALYSIS-BROKEN'))][:3]
        return dict(entry, outcome=outcome, detail='; '.join(detail))
    finally:
        shutil.rmtree(tmp, ignore_errors=True)


def load_rewrites():
    """refactors/<id>/: behaviour-preserving rewrites by independent agents (DESIGN 11.6, tenth and eleventh round).  Expected:
    the property's check stays silent; the few whose form a rule cannot read (recorded in meta.json by the last
    `refactor_tool.py recheck`) end analysis-broken - never a VIOLATION."""
    out = []
    d = os.path.join(report.VERIF, 'refactors')
    if not os.path.isdir(d):
        return out
    for rid in sorted(os.listdir(d)):
        mp = os.path.join(d, rid, 'meta.json')
        if not os.path.exists(mp):
            continue
        m = json.load(open(mp))
        patch = os.path.join(d, rid, 'patch-rebased.diff')
        if not os.path.exists(patch):
            patch = os.path.join(d, rid, 'patch.diff')
        allp = not (len(m.get('property', '*')) == 3 and m['property'][0] == 'C' and m['property'][1:].isdigit())      # '*' and 'FX' (corrected variants): every check
        props = [m['property']] if not allp else ['C%02d' % i for i in range(1, 21)]
        unread = sorted(k for k, r in (m.get('checks_not_silent') or {}).items() if isinstance(r, dict) and r.get('exit') == 2)
        out.append({'id': 'rewrite:' + rid, 'patch': patch, 'properties': props, 'kind': 'rewrite', 'unreadable_for': unread,
                    'note': 'independent behaviour-preserving rewrite', 'all_props': allp})
    return out


def run_all(select=None, jobs=8):
    idx = [e for e in load_index() if not select or e['id'] in select or set(e['properties']) & set(select)]
    for e in load_rewrites():
        if not select or e['id'] in select or set(e['properties']) & set(select):
            sel_props = [x for x in (select or []) if len(x) == 3 and x[0] == 'C' and x[1:].isdigit()]
            if sel_props and e.get('all_props') and e['id'] not in (select or []):
                e = dict(e, properties=[x for x in e['properties'] if x in sel_props])
            idx.append(e)
    with ThreadPoolExecutor(max_workers=jobs) as ex:
        return list(ex.map(run_entry, idx))


def main(argv):
    res = run_all(argv or None)
    bad = 0
    for r in res:
        flag = r['outcome'] in ('caught', 'silent', 'unreadable')
        if not flag and r['outcome'] != 'patch-does-not-apply':
            bad += 1
        print('%-28s %-22s %s  %s' % (r['id'], r['outcome'], ','.join(r['properties']), r.get('detail', '')[:200]))
    print('corpus: %d entries, %d regressions' % (len(res), bad))
    return 2 if bad else 0


if __name__ == '__main__':
    sys.exit(main(sys.argv[1:]))
