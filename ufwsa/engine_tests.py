"""Unit checks of the path engine on small C snippets (run by the self-test): the parts of the trusted base that a
property verdict leans on and that went wrong once.  Each case states what the engine must and must not conclude."""
from . import cast, sym, fclass

SRC = r'''
#include <stddef.h>
#include <stdbool.h>
#include <math.h>
struct S { int code; int x; };
typedef struct { unsigned char *data; size_t head; size_t tail; size_t datasize; bool ovr; } ring;

int nested(struct S *s, int n, int m) {
    int status = 0;
    for (int i = 0; i < n; ++i) {
        for (int j = 0; j < m; ++j) { s->x += j; }
        if (s->x > 100) status = 7;
    }
    return status;
}
int nested_exit_only(struct S *s, int n, int m) {
    int status = 0;
    for (int i = 0; i < n; ++i) {
        for (int j = 0; j < m; ++j) { if (s->x > j) { status = 3; goto out; } }
    }
out:
    return status;
}
int walk(int *base, int n) {
    int sum = 0;
    for (int *p = base; p < base + n; ++p) sum += *p;
    return sum;
}
int walk_from(int *base, int start, int n) {
    int *p = base + start;
    for (; p < base + n; ++p) { if (*p == 0) return (int)(p - base); }
    return n;
}
void reset(ring *c, unsigned char *buf, size_t size) {
    *c = (ring) { .data = buf, .datasize = size, .head = 0u, .tail = size };
}
struct tapctx { int *src; size_t count; };
struct chan { int (*run)(void *, void *, size_t); void *driver; };
int pump(struct chan *c, int *out);
int tapped(int *src, int *out) {
    struct tapctx t = { .src = src, .count = 0u };
    struct chan c = { .run = 0, .driver = &t };
    int rc = pump(&c, out);
    if (rc < 0 && t.count > 0u) return 1;
    return 0;
}
int tapped_loop(int *src, int *out, int n) {
    struct tapctx t = { .src = src, .count = 0u };
    struct chan c = { .run = 0, .driver = &t };
    int rc = 0;
    for (int i = 0; i < n && rc >= 0; ++i) rc = pump(&c, out);
    if (t.count > 0u) return 1;
    return 0;
}
int tapped_twice(int *src, int *out) {
    struct tapctx t = { .src = src, .count = 0u };
    struct chan c = { .run = 0, .driver = &t };
    (void)pump(&c, out);
    size_t before = t.count;
    (void)pump(&c, out);
    return t.count == before;
}
int counted(int x) {
    static int calls = 0;
    static const int limit = 3;
    if (calls > 0) return limit;
    calls = x;
    return 0;
}
bool storable(double x) { return (x == 0.) || (isnormal(x) != 0); }
bool f32_ok(float v) { return storable(v); }
bool f64_ok(double v) { return storable(v); }
'''


def run():
    u = cast.load('src/byte-buffer.c', source_text=SRC)
    eng = sym.Engine(u, sizeof={}, inline={'storable'})
    fmt = sym.fmt
    # 1. a status assigned on a path that runs back to the OUTER head behind an inner loop is not a loop invariant
    rets = [p.ret for p in eng.paths('nested') if p.end == 'return']
    assert rets and all(r[0] == 'h' for r in rets), 'nested: status must be unknown after the loops, got %s' % [fmt(r) for r in rets]
    assert not any('0 < n' in [fmt(c) for c in p.cond_terms()] for p in eng.paths('nested')), 'nested: the outer counter is not constant'
    # 2. ... while a value only assigned right before leaving both loops keeps its pre-loop value at the normal exit
    rets = sorted(fmt(p.ret) for p in eng.paths('nested_exit_only') if p.end == 'return')
    assert rets == ['0', '3'], 'nested_exit_only: %s' % rets
    # 3. a walk by pointer reads as a walk by index: bound and position in terms of the index
    ps = eng.paths('walk')
    lb = [p for p in ps if p.end == 'loopback'][0]
    cs = [c for c in lb.cond_terms()]
    assert len(cs) == 1 and cs[0][0] == 'cmp' and cs[0][1] == '<' and cs[0][3] == ('v', 'n') and cs[0][2][0] == 'h', [fmt(c) for c in cs]
    lm = lb.loops[-1][1]
    idx = [k for k in lm if fmt(k).startswith('#index(')]
    assert idx and lm[idx[0]][1] == sym.C(0) and lb.mem[idx[0]] == sym.add(lm[idx[0]][0], sym.C(1))
    # 4. ... also from a start position, and a pointer difference is the index
    ps = eng.paths('walk_from')
    inside = [p for p in ps if p.end == 'return' and p.loops and any('== 0' in fmt(c) for c in p.cond_terms())]
    assert inside, [fmt(p.ret) for p in ps]
    r = inside[0].ret
    while r[0] == 'cast':
        r = r[2]
    lm = inside[0].loops[-1][1]
    idx = [k for k in lm if fmt(k).startswith('#index(')]
    assert idx and r == lm[idx[0]][0] and lm[idx[0]][1] == ('v', 'start'), (fmt(r), {fmt(k): (fmt(v[0]), fmt(v[1]) if v[1] else None) for k, v in lm.items()})
    # 5. *p = (T){...} is the assignment of every field, omitted ones to zero
    p = eng.paths('reset')[0]
    got = {f: fmt(sym.mem_read(p.mem, ('f', ('v', 'c'), f))) for f in ('data', 'head', 'tail', 'datasize', 'ovr')}
    assert got == {'data': 'buf', 'head': '0', 'tail': 'size', 'datasize': 'size', 'ovr': '0'}, got
    assert not [e for e in p.stores() if e.name[0] == 'i'], 'no element store'
    # 6. float classes: a float handed to a double parameter is converted - a subnormal float is a normal double
    for fn, bits, want in (('f32_ok', 32, {'zero', 'normal', 'subnormal'}), ('f64_ok', 64, {'zero', 'normal'})):
        acc = set()
        for p in eng.paths(fn):
            if p.ret is not None and p.ret != sym.C(0):
                acc |= fclass.classes_of_path(p.cond_terms(), ('v', 'v'), bits)
        assert acc == want, (fn, acc)
    # 7. a local whose address the caller stored inside an object it hands to a callee may be written by that callee
    rets = sorted(fmt(p.ret) for p in eng.paths('tapped') if p.end == 'return')
    assert rets == ['0', '0', '1'], 'tapped: the branch on t.count after pump(&c) must stay open, got %s' % rets
    ev = [e for p in eng.paths('tapped') for e in p.calls('pump')][0]
    assert dict(ev.pointees[('v', 't')][2])['count'] == sym.C(0), ev.pointees
    # 8. ... also when the call sits in a loop (the pre-scan havocs the holder first), and again at a second call although
    #    the first one havocked the holder
    rets = sorted(set(fmt(p.ret) for p in eng.paths('tapped_loop') if p.end == 'return'))
    assert rets == ['0', '1'], 'tapped_loop: %s' % rets
    rets = [p.ret for p in eng.paths('tapped_twice') if p.end == 'return']
    assert rets and all(r != sym.C(1) for r in rets), 'tapped_twice: the second call may change t.count, got %s' % [fmt(r) for r in rets]
    # 9. the initialiser of a mutable static local is not executed at every call (a const one is a constant)
    rets = sorted(set(fmt(p.ret) for p in eng.paths('counted') if p.end == 'return'))
    assert rets == ['0', '3'], 'counted: both branches on the static counter must stay open, got %s' % rets
    return 9


if __name__ == '__main__':
    print(run(), 'engine cases ok')
