"""K4o: overflowable range checks.

A comparison whose one side is a sum  a + p  of unsigned operands where p is a
caller-supplied parameter (a length/offset not yet bounded by any dominating
guard in the function) can wrap around and so accept what it should refuse.
Detected syntactically on the type-checked AST: relational operator, operand is
a '+' of unsigned type whose summands include a plain parameter reference."""
from . import cast


def _refs_param(n, params):
    n = cast.strip_all_casts(n)
    return cast.kind(n) == 'DeclRefExpr' and n['referencedDecl'].get('kind') == 'ParmVarDecl' \
        and n['referencedDecl']['name'] in params


def overflowable_guards(u, fname, params, only_if_compared_with=None):
    """-> list of (where, source text, parameter name)"""
    out = []
    body = u.body(fname)
    for x in cast.walk(body):
        if cast.kind(x) != 'BinaryOperator' or x.get('opcode') not in ('<', '>', '<=', '>='):
            continue
        for side in x['inner']:
            s = cast.strip_all_casts(side)
            if cast.kind(s) != 'BinaryOperator' or s.get('opcode') != '+':
                continue
            qt = cast.qual_type(s)
            if not qt.startswith('unsigned'):
                continue
            # all summands
            terms = []
            stk = [s]
            while stk:
                y = cast.strip_all_casts(stk.pop())
                if cast.kind(y) == 'BinaryOperator' and y.get('opcode') == '+':
                    stk += y['inner']
                else:
                    terms.append(y)
            pn = [t for t in terms if _refs_param(t, params)]
            nonconst = [t for t in terms if u.const_value(t) is None]
            if pn and len(nonconst) >= 2:
                out.append((cast.where(x), cast.src_text(x), cast.strip_all_casts(pn[0])['referencedDecl']['name']))
    return out
