"""K1 FRONT: compilation database, clang JSON AST dumps, probe enums.

Nothing here executes repository code.  clang is used as a parser / constant
folder only (-fsyntax-only).
"""
import json, os, re, shlex, subprocess, sys, tempfile, shutil, atexit, hashlib
from concurrent.futures import ThreadPoolExecutor

REPO = os.environ.get('UFW_REPO', '/repo')
CLANG = 'clang'

_scratch = None


def scratch():
    global _scratch
    if _scratch is None:
        base = os.environ.get('TMPDIR', '/tmp')
        _scratch = tempfile.mkdtemp(prefix='ufwsa-', dir=base)
        atexit.register(lambda: shutil.rmtree(_scratch, ignore_errors=True))
    return _scratch


class FrontError(Exception):
    pass


_KEEP = re.compile(r'^-(D|U|I|std=|isystem|include)')


def _fallback_flags():
    """No usable build dir: synthesise ufw/toolchain.h (all features on) and
    use the flags the pinned build uses (recorded in DESIGN.md section 2)."""
    if _gen_inc:
        return ['-DSYSTEM_ENDIANNESS_LITTLE', '-DUFW_USE_BUILTIN_SWAP',
                '-D_DEFAULT_SOURCE', '-I' + os.path.join(REPO, 'include'),
                '-I' + _gen_inc, '-DNDEBUG', '-std=gnu99']
    inc = os.path.join(scratch(), 'geninc')
    os.makedirs(os.path.join(inc, 'ufw'), exist_ok=True)
    src = os.path.join(REPO, 'include/ufw/toolchain.h.in')
    out = []
    for l in open(src):
        m = re.match(r'#cmakedefine01\s+(\w+)', l)
        if m:
            out.append('#define %s 1\n' % m.group(1))
        elif l.startswith('#cmakedefine'):
            m = re.match(r'#cmakedefine\s+(\w+)(.*)', l)
            out.append('#define %s%s\n' % (m.group(1), m.group(2)))
        else:
            out.append(l)
    open(os.path.join(inc, 'ufw/toolchain.h'), 'w').write(''.join(out))
    return ['-DSYSTEM_ENDIANNESS_LITTLE', '-DUFW_USE_BUILTIN_SWAP',
            '-D_DEFAULT_SOURCE', '-I' + os.path.join(REPO, 'include'),
            '-I' + inc, '-DNDEBUG', '-std=gnu99']


_compdb = None
_gen_inc = None


def compdb():
    """{abs source file: [flags]} for the library targets (first entry wins:
    the 'ufw'/'ufw-sx' targets precede the -nosan duplicates)."""
    global _compdb
    if _compdb is not None:
        return _compdb
    db = {}
    bdir = os.path.join(REPO, '_build')
    entries = []
    global _gen_inc
    if os.path.isdir(os.path.join(REPO, '_build_include')):
        _gen_inc = os.path.join(REPO, '_build_include')      # scratch copy made by corpus.py
    if os.path.exists(os.path.join(bdir, 'build.ninja')):
        try:
            out = subprocess.run(['ninja', '-C', bdir, '-t', 'compdb'],
                                 capture_output=True, text=True, timeout=60)
            if out.returncode == 0:
                entries = json.loads(out.stdout)
        except Exception:
            entries = []
    for e in entries:
        f = e['file']
        if not f.endswith('.c') or f in db:
            continue
        args = shlex.split(e['command'])
        flags = [a for a in args if _KEEP.match(a)]
        # the generated include dir must exist, else fall back
        ok = all(os.path.isdir(a[2:]) for a in flags if a.startswith('-I'))
        if ok and os.path.exists(os.path.join(bdir, 'include/ufw/toolchain.h')):
            db[f] = flags
    fb = None
    # library units that must be covered even when the build dir is missing
    for rel in LIB_UNITS:
        f = os.path.join(REPO, rel)
        if f not in db and os.path.exists(f):
            if fb is None:
                fb = _fallback_flags()
            db[f] = list(fb)
    _compdb = db
    return db


LIB_UNITS = [
    'src/allocator.c', 'src/byte-buffer.c', 'src/crc-16-arc.c', 'src/hexdump.c',
    'src/length-prefix.c', 'src/octet-ring.c', 'src/persistent-storage.c',
    'src/register-protocol.c', 'src/rfc1055.c', 'src/ring-buffer-iter.c',
    'src/variable-length-integer.c', 'src/sx.c',
    'src/endpoints/buffer.c', 'src/endpoints/continuable-sink.c',
    'src/endpoints/core.c', 'src/endpoints/instrumentable.c',
    'src/endpoints/posix.c', 'src/endpoints/trivial.c',
    'src/registers/core.c', 'src/registers/utilities.c',
    'src/compat/strlcat.c', 'src/compat/strlcpy.c',
]


def unit_path(rel):
    return os.path.join(REPO, rel)


def flags_for(rel, variant=None):
    f = unit_path(rel)
    db = compdb()
    if f not in db:
        raise FrontError('unit %s not in compilation database' % rel)
    flags = list(db[f])
    if variant:
        flags = apply_variant(flags, variant)
    return flags


def apply_variant(flags, variant):
    """variant: dict(big_endian=bool, no_builtin_swap=bool, extra=[...])"""
    fl = list(flags)
    if variant.get('big_endian'):
        fl = [x for x in fl if x != '-DSYSTEM_ENDIANNESS_LITTLE']
        fl.append('-DSYSTEM_ENDIANNESS_BIG')
    if variant.get('no_builtin_swap'):
        fl = [x for x in fl if x != '-DUFW_USE_BUILTIN_SWAP']
    fl += variant.get('extra', [])
    return fl


def _key(*parts):
    return hashlib.sha1('\0'.join(parts).encode()).hexdigest()[:16]


def dump_ast(rel, variant=None, source_text=None):
    """Return path of the JSON AST of unit `rel` (or of `source_text`, a wrapper
    TU that #includes it), dumping it if needed."""
    flags = flags_for(rel, variant)
    src = unit_path(rel)
    k = _key(rel, ' '.join(flags), source_text or '')
    out = os.path.join(scratch(), 'ast-%s.json' % k)
    if os.path.exists(out):
        return out
    if source_text is not None:
        src = os.path.join(scratch(), 'probe-%s.c' % k)
        open(src, 'w').write(source_text)
        flags = flags + ['-I' + os.path.dirname(unit_path(rel))]
    cmd = [CLANG, '-fsyntax-only', '-w', '-Xclang', '-ast-dump=json'] + flags + [src]
    with open(out + '.tmp', 'w') as fh:
        p = subprocess.run(cmd, stdout=fh, stderr=subprocess.PIPE, text=True)
    if p.returncode != 0:
        raise FrontError('clang failed on %s: %s' % (rel, p.stderr[-2000:]))
    os.rename(out + '.tmp', out)
    return out


def dump_many(rels, variant=None, jobs=16):
    with ThreadPoolExecutor(max_workers=jobs) as ex:
        return dict(zip(rels, ex.map(lambda r: dump_ast(r, variant), rels)))


def probe_values(rel, exprs, variant=None, prelude=''):
    """Let the compiler evaluate integer constant expressions in the context of
    unit `rel`.  Returns list of ints.  (Probe enums, DESIGN section 2.)"""
    if not exprs:
        return []
    text = ['#include "%s"' % unit_path(rel), prelude]
    for i, e in enumerate(exprs):
        text.append('enum vp_probe_%d { vp_k%d = (%s) };' % (i, i, e))
    src = '\n'.join(text) + '\n'
    flags = flags_for(rel, variant) + ['-I' + os.path.dirname(unit_path(rel))]
    k = _key(rel, 'probe', src, ' '.join(flags))
    sp = os.path.join(scratch(), 'pv-%s.c' % k)
    open(sp, 'w').write(src)
    cmd = [CLANG, '-fsyntax-only', '-w', '-Xclang', '-ast-dump=json',
           '-Xclang', '-ast-dump-filter=vp_probe_'] + flags + [sp]
    p = subprocess.run(cmd, capture_output=True, text=True)
    if p.returncode != 0:
        raise FrontError('probe failed in %s: %s' % (rel, p.stderr[-2000:]))
    vals = {}
    dec = json.JSONDecoder()
    s = p.stdout
    i = 0
    while True:
        j = s.find('{', i)
        if j < 0:
            break
        obj, end = dec.raw_decode(s, j)
        i = end

        def walk(n):
            if isinstance(n, dict):
                if n.get('kind') == 'EnumConstantDecl' and n.get('name', '').startswith('vp_k'):
                    stk = list(n.get('inner', []))
                    while stk:
                        c = stk.pop(0)
                        if c.get('kind') == 'ConstantExpr' and 'value' in c:
                            vals[int(n['name'][4:])] = int(c['value'])
                            break
                        stk = list(c.get('inner', [])) + stk
                for c in n.get('inner', []):
                    walk(c)
        walk(obj)
    if len(vals) != len(exprs):
        raise FrontError('probe: %d of %d expressions evaluated' % (len(vals), len(exprs)))
    return [vals[i] for i in range(len(exprs))]
