"""K9 FCLASS: evaluate guards over a floating value under the five IEEE classes."""
from . import sym

CLASSES = ('zero', 'normal', 'subnormal', 'inf', 'nan')
PRED = {
    'isnormal': {'normal'}, '__builtin_isnormal': {'normal'},
    'isfinite': {'zero', 'normal', 'subnormal'}, '__builtin_isfinite': {'zero', 'normal', 'subnormal'},
    'isnan': {'nan'}, '__builtin_isnan': {'nan'}, '__builtin_isnanf': {'nan'},
    'isinf': {'inf'}, '__builtin_isinf': {'inf'}, '__builtin_isinf_sign': {'inf'},
}


def _strip(t):
    while t[0] == 'cast':
        t = t[2]
    return t


def _is_zero_lit(t):
    t = _strip(t)
    if t[0] == 'flt':
        try:
            return float(t[1]) == 0.0
        except ValueError:
            return False
    return t == ('c', 0)


def cond_under(c, X, cls):
    """truth of condition term c (assumed form from sym) when the float term X
    belongs to IEEE class cls; None if c does not speak about X."""
    if c[0] != 'cmp':
        return None
    op, a, b = c[1], _strip(c[2]), _strip(c[3])
    # direct comparison with zero
    for x, z in ((a, b), (b, a)):
        if x == X and _is_zero_lit(z):
            if op == '==':
                return cls == 'zero'
            if op == '!=':
                return cls != 'zero'
            return None
    # classification predicate compared with an integer constant
    for x, k in ((a, b), (b, a)):
        if x[0] == 'call' and x[1] in PRED and len(x[2]) >= 1 and _strip(x[2][-1]) == X and k[0] == 'c':
            val = 1 if cls in PRED[x[1]] else 0
            if op == '==':
                return val == k[1] if k[1] in (0, 1) else None
            if op == '!=':
                return val != k[1] if k[1] in (0, 1) else None
            return None
        if x[0] == 'call' and x[1] == '__builtin_fpclassify' and len(x[2]) == 6 and _strip(x[2][5]) == X and k[0] == 'c':
            order = ('nan', 'inf', 'normal', 'subnormal', 'zero')
            vals = {o: x[2][i][1] for i, o in enumerate(order) if x[2][i][0] == 'c'}
            if cls not in vals:
                return None
            if op == '==':
                return vals[cls] == k[1]
            if op == '!=':
                return vals[cls] != k[1]
    return None


def classes_of_path(conds, X):
    """set of classes under which all conditions about X hold"""
    out = set()
    for cls in CLASSES:
        ok = True
        for c in conds:
            r = cond_under(c, X, cls)
            if r is False:
                ok = False
                break
        if ok:
            out.add(cls)
    return out
