"""K9 FCLASS: evaluate guards over a floating value under the five IEEE classes."""
from . import sym

CLASSES = ('zero', 'normal', 'subnormal', 'inf', 'nan')
PRED = {
    'isnormal': {'normal'}, '__builtin_isnormal': {'normal'},
    'isfinite': {'zero', 'normal', 'subnormal'}, '__builtin_isfinite': {'zero', 'normal', 'subnormal'},
    'isnan': {'nan'}, '__builtin_isnan': {'nan'}, '__builtin_isnanf': {'nan'},
    'isinf': {'inf'}, '__builtin_isinf': {'inf'}, '__builtin_isinf_sign': {'inf'},
}


def _strip(t):
    while t[0] == 'cast':
        t = t[2]
    return t


FBITS = {'float': 32, 'double': 64, 'long double': 80, '_Float16': 16, '__fp16': 16}


def _conv(t, X, xbits):
    """t is X under a chain of conversions: the class map of the chain.
    'same'    - every conversion keeps the IEEE class (same format, or none at all)
    'widened' - X was converted to a wider floating format before the test: zero, inf and nan stay
                what they are, a subnormal of the narrow format is a NORMAL number of the wide one
    None      - t is not X, or a conversion in the chain does not preserve the class in a way known
                here (narrowing floating conversion, conversion through an integer)."""
    chain = []
    while t[0] == 'cast':
        chain.append(t[1])
        t = t[2]
    if t != X:
        return None
    w, how = xbits, 'same'
    for ty in reversed(chain):
        tw = FBITS.get(ty.replace('const ', '').replace('volatile ', '').strip())
        if tw is None or w is None:
            return None
        if tw < w:
            return None
        if tw > w:
            how = 'widened'
        w = tw
    return how


def _seen_as(cls, how):
    return 'normal' if (how == 'widened' and cls == 'subnormal') else cls


def _is_zero_lit(t):
    t = _strip(t)
    if t[0] == 'flt':
        try:
            return float(t[1]) == 0.0
        except ValueError:
            return False
    return t == ('c', 0)


def cond_under(c, X, cls, xbits=None):
    """truth of condition term c (assumed form from sym) when the float term X
    (of a format xbits wide) belongs to IEEE class cls; None if c does not speak
    about X or nothing is known.  Conversions between floating formats on the way
    from X to the test are value conversions and are followed (_conv)."""
    if c[0] != 'cmp':
        return None
    op, a, b = c[1], c[2], c[3]
    # direct comparison with zero (a widening conversion keeps zero / non-zero)
    for x, z in ((a, b), (b, a)):
        if _conv(x, X, xbits) is not None and _is_zero_lit(z):
            if op == '==':
                return cls == 'zero'
            if op == '!=':
                return cls != 'zero'
            return None
    # classification predicate compared with an integer constant
    a, b = _strip(a), _strip(b)
    for x, k in ((a, b), (b, a)):
        if x[0] == 'call' and x[1] in PRED and len(x[2]) >= 1 and k[0] == 'c':
            how = _conv(x[2][-1], X, xbits)
            if how is None:
                continue
            val = 1 if _seen_as(cls, how) in PRED[x[1]] else 0
            if op == '==':
                return val == k[1] if k[1] in (0, 1) else None
            if op == '!=':
                return val != k[1] if k[1] in (0, 1) else None
            return None
        if x[0] == 'call' and x[1] == '__builtin_fpclassify' and len(x[2]) == 6 and k[0] == 'c':
            how = _conv(x[2][5], X, xbits)
            if how is None:
                continue
            order = ('nan', 'inf', 'normal', 'subnormal', 'zero')
            vals = {o: x[2][i][1] for i, o in enumerate(order) if x[2][i][0] == 'c'}
            seen = _seen_as(cls, how)
            if seen not in vals:
                return None
            if op == '==':
                return vals[seen] == k[1]
            if op == '!=':
                return vals[seen] != k[1]
    return None


def classes_of_path(conds, X, xbits=None):
    """set of classes under which all conditions about X hold"""
    out = set()
    for cls in CLASSES:
        ok = True
        for c in conds:
            r = cond_under(c, X, cls, xbits)
            if r is False:
                ok = False
                break
        if ok:
            out.add(cls)
    return out
