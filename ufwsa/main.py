import argparse, importlib, json, os, sys, traceback
from . import report, front


def main(argv=None):
    ap = argparse.ArgumentParser(prog='check')
    ap.add_argument('property', nargs='?')
    ap.add_argument('--tier', default=os.environ.get('VERIF_TIER', 'quick'), choices=['quick', 'thorough'])
    ap.add_argument('--explain')
    ap.add_argument('--repo')
    a = ap.parse_args(argv)
    if a.repo:
        front.REPO = a.repo
    if a.explain:
        r = json.load(open(a.explain))
        print(json.dumps(r, indent=1))
        a.property = r['property']
    if not a.property:
        ap.error('property id required')
    pid = a.property.upper()
    ck = report.Check(pid, a.tier)
    try:
        mod = importlib.import_module('ufwsa.rules.' + pid.lower())
        try:
            mod.run(ck)
        finally:
            # decided on the declarations and uses of static objects alone: also when a rule above met a form it cannot read
            try:
                from .rules import hidden
                hidden.run(ck, pid)
            except front.FrontError:
                raise
            except Exception as e:      # noqa: BLE001
                traceback.print_exc()
                ck.broken(pid + '.s', 'hidden-state', '', '%s: %s' % (type(e).__name__, e))
    except front.FrontError as e:
        ck.broken(pid + '.front', 'front-end', '', str(e))
    except Exception as e:
        traceback.print_exc()
        ck.broken(pid + '.internal', 'internal-error', '', '%s: %s' % (type(e).__name__, e))
    try:
        from . import sym as _sym, cast as _cast
        if _sym.LOOKED_THROUGH:
            ck.notes.append('helpers newer than ufwsa/known_functions.json, looked through at their call sites: %s' % ', '.join(sorted(_sym.LOOKED_THROUGH)))
        ren = sorted(set(fn for u_ in _cast._cache.values() for fn in u_.renamed))
        if ren:
            ck.notes.append('parameters / locals given their confirmed names back in: %s' % ', '.join(ren))
    except Exception:      # noqa: BLE001 - informational only
        pass
    if a.tier == 'thorough' and not os.environ.get('UFWSA_NO_CORPUS'):
        from . import corpus
        res = corpus.run_all([pid])
        ck.rule(pid + '.corpus', 'checker validation: every corpus mutant of this property is reported, every behaviour-preserving rewrite stays silent (scratch copies)')
        for r in res:
            if r['outcome'] in ('caught', 'silent'):
                ck.holds(pid + '.corpus', 'corpus:' + r['id'], r['patch'], '%s (%s)' % (r['outcome'], r.get('note', '')))
            elif r['outcome'] == 'unreadable':
                ck.notes.append('rewrite %s: a form the rules do not read - analysis-broken on the rewritten tree, as recorded (no VIOLATION)' % r['id'])
            elif r['outcome'] == 'patch-does-not-apply':
                ck.notes.append('corpus entry %s no longer applies' % r['id'])
            else:
                ck.broken(pid + '.corpus', 'corpus:' + r['id'], r['patch'], 'CHECKER-REGRESSION %s: %s' % (r['outcome'], r.get('detail', '')))
    return ck.finish()


if __name__ == '__main__':
    sys.exit(main())
