"""C10 Persistent store/validate/fetch round-trips and stays inside its region
   C11 Interrupted or failing stores never validate a mixed image silently

Shared rule implementation (run_c10 / run_c11).  Decided: overflow-safe part
bounds and refusal before access (a), every medium access inside the instance's
regions incl. the chunk walkers' conserved quantity (b), the chunked checksum is
a fold of the configured function seeded with the initial value, making progress
(c), width dispatch coherent (d), validate order (e), reset covers both regions
(f); I/O results always compared with the requested length (C11.a), write order
of a store (C11.b).  Not decided: user checksum callbacks, detection strength of
the checksum, torn-write collision probabilities."""
from .. import cast, sym, bitdom, lin, k4o, front
from .common import distinct_enums
from ..sym import C, fmt, linearize as L
from ..lin import Lin

UNIT = 'src/persistent-storage.c'
S = ('v', 'store')


def fld(*names):
    """store->a.b.c location term"""
    t = ('f', S, names[0])
    for n in names[1:]:
        t = ('f', ('&', t), n)
    return t


DATA_ADDR, DATA_SIZE = fld('data', 'address'), fld('data', 'size')
CS_ADDR, CS_SIZE, CS_TYPE = fld('checksum', 'address'), fld('checksum', 'size'), fld('checksum', 'type')
BUF_DATA, BUF_SIZE = fld('buffer', 'data'), fld('buffer', 'size')


def strip_cast(t):
    while t is not None and t[0] == 'cast':
        t = t[2]
    return t


def medium_calls(p):
    return [e for e in p.effects if e.kind == 'icall' and e.name in ('block.read', 'block.write')]


def addr_len(e):
    """(address term, length term, memory pointer) of a medium call"""
    if e.name == 'block.read':
        return strip_cast(e.args[1]), e.args[2], e.args[0]
    return strip_cast(e.args[0]), e.args[2], e.args[1]


KNOWN_FUNCTIONS = {'checksum_size', 'persistent_buffer', 'persistent_calculate_checksum', 'persistent_checksum', 'persistent_fetch',
                   'persistent_fetch_checksum', 'persistent_fetch_part', 'persistent_init', 'persistent_match', 'persistent_place',
                   'persistent_reset', 'persistent_store', 'persistent_store_checksum', 'persistent_store_part', 'persistent_sum16',
                   'persistent_sum32', 'persistent_validate', 'persistent_writen', 'set_data_address', 'trivialsum'}


class Ctx:
    def __init__(self, ck):
        self.ck = ck
        self.u = cast.load(UNIT)
        ck.unit(UNIT)
        so = sym.unit_sizeofs(UNIT, self.u)
        # functions of the unit known to the rules (confirmed on the pinned tree); any other function defined in the unit
        # is a helper a later change introduced: it is inlined, so that the rules keep seeing the medium accesses and
        # checksum steps at the place where they happen
        fns = sorted(n for n, f in self.u.functions.items()
                     if (cast.node_file(f) or '').endswith('persistent-storage.c') and self.u.body(n) is not None)
        self.new_helpers = set(fns) - KNOWN_FUNCTIONS
        self.eng = sym.Engine(self.u, sizeof=so, inline={'checksum_size', 'set_data_address'} | self.new_helpers)
        self.P = {}
        self.enums = self.u.enums

    def paths(self, fn, rule):
        if fn in self.P:
            return self.P[fn]
        self.ck.function(fn)
        if self.u.fn(fn) is None:
            self.ck.broken(rule, fn, '', 'function missing')
            self.P[fn] = None
            return None
        try:
            ps = self.eng.paths(fn)
            self.ck.analysed['paths'] += len(ps)
        except (sym.Unsupported, sym.PathLimit) as e:
            self.ck.broken(rule, fn, cast.where(self.u.fn(fn)), 'path enumeration: %s' % e)
            ps = None
        self.P[fn] = ps
        return ps

    def where(self, fn):
        f = self.u.fn(fn)
        return cast.where(f) if f else ''

    def helpers_reached(self, fn):
        """helpers unknown to the rules that `fn` reaches through direct calls (transitively)"""
        seen, todo, out = set(), [fn], set()
        while todo:
            g = todo.pop()
            if g in seen:
                continue
            seen.add(g)
            b = self.u.body(g)
            if b is None:
                continue
            for c in cast.calls_in(b):
                n = cast.callee_name(c)
                if n in self.new_helpers:
                    out.add(n)
                if n and n not in seen:
                    todo.append(n)
        return out


# ---------------------------------------------------------------------------
def rule_part_bounds(cx):
    """C10.a"""
    ck, u, eng = cx.ck, cx.u, cx.eng
    OOR = cx.enums.get('PERSISTENT_ACCESS_ADDRESS_OUT_OF_RANGE')
    for fn in ('persistent_fetch_part', 'persistent_store_part'):
        ps = cx.paths(fn, 'C10.a')
        if ps is None:
            continue
        hits = k4o.overflowable_guards(u, fn, {'offset', 'n'})
        ck.verdict(not hits, 'C10.a', fn + ':overflow', cx.where(fn),
                   'range check cannot wrap: no sum of caller-controlled offset and length is compared' if not hits else
                   'range check `%s` at %s adds the caller-controlled `offset` and `n` before comparing: for offset near SIZE_MAX the sum wraps and an out-of-range part is accepted'
                   % (hits[0][1], hits[0][0]))
        bad = None
        nref = 0
        off, n = ('v', 'offset'), ('v', 'n')
        for p in ps:
            mc = medium_calls(p)
            other = [e for e in p.calls() if e.name.startswith('persistent_')]
            if p.ret == C(OOR):
                nref += 1
                if mc or other:
                    bad = 'medium touched before the out-of-range refusal'
                continue
            if mc or other:
                # conversions of the caller's offset / n to a narrower type preserve the value only where that is proved
                facts = eng.strict_facts(p, about=(off, n))
                if not eng.entails(facts, L(off) + L(n) - L(DATA_SIZE)):
                    bad = 'medium access without offset + n <= data.size established: %s' % p.describe()
        if nref == 0 and bad is None:
            bad = 'no refusing path for parts beyond the data size'
        ck.verdict(bad is None, 'C10.a', fn + ':refuse', cx.where(fn),
                   'parts beyond data.size are refused before any medium access; accepted parts satisfy offset + n <= data.size' if bad is None else bad)


def walker_rule(cx, fn, rule, base_addr, base_count, kind):
    """chunk walkers (persistent_calculate_checksum / persistent_writen), whatever their loop is written like.

    Progress variables are found by what they do, not by name or direction: a loop variable that every iteration moves
    by exactly the chunk length, up (an address, a count of octets done) or down (a remaining count).  For each,
    P = +-(value - value before the loop) is the number of octets walked so far; all of them agree by induction (0 at
    entry, + chunk per iteration), which is added as a fact.  Then: the medium is accessed at base + P, with a chunk
    that is at least 1, at most what is left (count - P) and at most the scratch memory; SUCCESS is reported only with
    P == count."""
    ck, eng = cx.ck, cx.eng
    ps = cx.paths(fn, rule)
    if ps is None:
        return
    where = cx.where(fn)
    nit = 0
    # progress variables per loop
    track = {}
    for p in ps:
        mc = [e for e in medium_calls(p) if e.inloop]
        if p.end != 'loopback' or len(mc) != 1 or not p.loops:
            continue
        node, lmap = p.loops[-1]
        a, ln, mem = addr_len(mc[0])
        cur = {}
        for k, (h, pre) in lmap.items():
            if pre is None:
                continue
            d = L(strip_cast(p.mem.get(k, h))) - L(h)
            if (d - L(ln)).is_const() and (d - L(ln)).c == 0:
                cur[k] = 1
            elif (d + L(ln)).is_const() and (d + L(ln)).c == 0:
                cur[k] = -1
        t = track.get(id(node))
        track[id(node)] = cur if t is None else {k: sg for k, sg in t.items() if cur.get(k) == sg}

    def progress(p):
        """(P, invariant facts) for the innermost loop of p"""
        node, lmap = p.loops[-1]
        tr = track.get(id(node)) or {}
        Ps = [(L(lmap[k][0]) - L(strip_cast(lmap[k][1]))).scale(sg) for k, sg in sorted(tr.items(), key=lambda kv: fmt(kv[0])) if k in lmap]
        if not Ps:
            return None, []
        inv = []
        for q in Ps[1:]:
            inv += [Ps[0] - q, q - Ps[0]]
        inv += [Lin.const(0) - Ps[0], Ps[0] - L(base_count)]
        return Ps[0], inv

    for p in ps:
        mc = [e for e in medium_calls(p) if e.inloop]
        if not mc:
            continue
        if len(mc) != 1 or not p.loops:
            ck.violation(rule, fn + ':walk', where, 'more than one medium access per iteration')
            continue
        e = mc[0]
        nit += 1
        a, ln, mem = addr_len(e)
        lmap = p.loops[-1][1]
        P, inv = progress(p)
        if P is None:
            ck.violation(rule, fn + ':walk:start', e.where(),
                         'no loop variable moves by the chunk length %s per iteration: the walk over (%s, %s) keeps no account of what it has covered (loop variables start at %s)' % (
                             fmt(ln), fmt(base_addr), fmt(base_count),
                             {fmt(k): fmt(pre) for k, (h, pre) in lmap.items() if pre is not None}))
            continue
        facts = eng.strict_facts(p) + inv
        tail = eng.entails(facts, L(base_count) - P - L(ln))        # chunk == everything that is left
        key = '%s:%s:%s:%s' % (fn, 'aux' if mem == BUF_DATA else 'octet', 'tail' if tail else 'full', p.end)
        if key in cx.__dict__.setdefault('_seen', set()):
            key += ':' + '&'.join(fmt(c) for c in p.cond_terms()[-2:])
        cx._seen.add(key)
        da = L(strip_cast(a)) - L(base_addr) - P
        if not (eng.entails(facts, da) and eng.entails(facts, -da)):
            ck.violation(rule, key + ':addr', e.where(), 'medium address is %s, not %s + the octets walked so far' % (fmt(a), fmt(base_addr)))
            continue
        ok_le = eng.entails(facts, L(ln) - (L(base_count) - P))
        ok_ge = eng.entails(facts, Lin.const(1) - L(ln))
        # scratch capacity
        if mem == BUF_DATA:
            cap = L(BUF_SIZE)
        elif mem[0] == '&':
            cap = Lin.const(1)
        else:
            cap = None
        ok_cap = cap is not None and eng.entails(facts, L(ln) - cap)
        ck.verdict(ok_le, 'C10.b', key + ':region', e.where(),
                   'chunk [%s, +%s) stays inside [%s, +%s): chunk <= what is left, address and count move together by the chunk' % (fmt(a), fmt(ln), fmt(base_addr), fmt(base_count))
                   if ok_le else
                   'chunk of %s at %s: not bounded by the remaining count' % (fmt(ln), fmt(a)))
        ck.verdict(ok_cap, 'C10.b', key + ':scratch', e.where(),
                   'chunk fits the scratch memory %s' % fmt(mem) if ok_cap else 'chunk of %s not proved to fit scratch %s' % (fmt(ln), fmt(mem)))
        ck.verdict(ok_ge, 'C10.c', key + ':progress', e.where(),
                   'every iteration moves at least one octet' if ok_ge else
                   'chunk length %s can be 0 (auxiliary buffer of size 0): the walk makes no progress and never terminates' % fmt(ln))
    # completion: the walk is left with status SUCCESS only when nothing remains (covers the whole region), and a
    # walk whose loop can never be entered covers nothing
    SUCCESS = cx.enums.get('PERSISTENT_ACCESS_SUCCESS')
    loops_seen = any(p.loops for p in ps)
    if loops_seen and nit == 0:
        ck.violation(rule, fn + ':walk:never-runs', where,
                     'the chunk loop can never be entered (its condition is false for every size): no octet of [%s, +%s) is %s'
                     % (fmt(base_addr), fmt(base_count), 'read' if kind == 'read' else 'written'))
        return
    ndone = 0
    for p in ps:
        if p.end != 'return' or not p.loops or [e for e in medium_calls(p) if e.inloop]:
            continue
        r = p.ret
        acc = r if r is not None and r[0] == 'c' else (dict(r[2]).get('access') if r is not None and r[0] == 'struct' else None)
        if acc != C(SUCCESS):
            continue
        ndone += 1
        P, inv = progress(p)
        if P is None:
            continue
        facts = eng.strict_facts(p) + inv
        z = L(base_count) - P
        okz = eng.entails(facts, z) and eng.entails(facts, -z)
        if not okz:
            # a final access behind the loop that covers exactly what the loop left: (base + P, count - P)
            post = [e for e in medium_calls(p) if not e.inloop]
            if len(post) == 1:
                a_, ln_, mem_ = addr_len(post[0])
                da = L(strip_cast(a_)) - L(base_addr) - P
                dl = L(strip_cast(ln_)) - z
                if all(eng.entails(facts, x) for x in (da, -da, dl, -dl)):
                    okz = True
        ck.verdict(okz, rule, fn + ':walk:complete', where,
                   'SUCCESS is reported only when the whole region has been walked (remaining == 0)' if okz else
                   'the walk ends with SUCCESS under {%s} while octets may remain: the tail of [%s, +%s) is never %s'
                   % ('; '.join(fmt(c) for c in p.cond_terms()[-2:]), fmt(base_addr), fmt(base_count), 'read' if kind == 'read' else 'written'))
    if loops_seen and ndone == 0:
        ck.violation(rule, fn + ':walk:complete', where, 'no path reports SUCCESS after walking the region')
    ck.floor(rule, fn + ' iterations', nit, 2)


def rule_region(cx):
    """C10.b"""
    ck, eng = cx.ck, cx.eng
    # part accesses
    for fn, call in (('persistent_fetch_part', 'block.read'), ('persistent_store_part', 'block.write')):
        ps = cx.paths(fn, 'C10.b')
        if ps is None:
            continue
        bad = None
        seen = 0
        for p in ps:
            for e in medium_calls(p):
                seen += 1
                a, ln, mem = addr_len(e)
                facts = eng.path_facts(p)
                o = L(a) - L(DATA_ADDR)
                if not (eng.entails(facts, -o) and eng.entails(facts, o + L(ln) - L(DATA_SIZE))):
                    bad = 'access [%s, +%s) not proved inside the data region' % (fmt(a), fmt(ln))
                if e.name != call:
                    bad = 'unexpected %s' % e.name
        ck.verdict(bad is None and seen, 'C10.b', fn + ':region', cx.where(fn),
                   'part access proved inside [data.address, data.address + data.size)' if bad is None and seen else (bad or 'no medium access found'))
    for fn in ('persistent_store_checksum', 'persistent_fetch_checksum'):
        ps = cx.paths(fn, 'C10.b')
        if ps is None:
            continue
        bad = None
        seen = 0
        for p in ps:
            for e in medium_calls(p):
                seen += 1
                a, ln, mem = addr_len(e)
                if a != CS_ADDR or strip_cast(ln) != CS_SIZE:
                    bad = 'checksum access is (%s, %s), expected (checksum.address, checksum.size)' % (fmt(a), fmt(ln))
        ck.verdict(bad is None and seen, 'C10.b', fn + ':region', cx.where(fn),
                   'accesses exactly the checksum region' if bad is None and seen else (bad or 'no medium access found'))
    walker_rule(cx, 'persistent_calculate_checksum', 'C10.b', DATA_ADDR, DATA_SIZE, 'read')
    walker_rule(cx, 'persistent_writen', 'C10.b', ('v', 'address'), ('v', 'k'), 'write')
    # layout: data follows the checksum without a gap after every change
    for fn in ('persistent_sum16', 'persistent_sum32', 'persistent_place', 'persistent_init'):
        ps = cx.paths(fn, 'C10.b')
        if ps is None:
            continue
        bad = None
        for p in ps:
            ca = p.mem.get(CS_ADDR, CS_ADDR)
            csz = p.mem.get(CS_SIZE, CS_SIZE)
            da = strip_cast(p.mem.get(DATA_ADDR, DATA_ADDR))
            d = L(da) - L(ca) - L(csz)
            if not (d.is_const() and d.c == 0):
                bad = "data.address' = %s but checksum.address' + checksum.size' = %s + %s" % (fmt(da), fmt(ca), fmt(csz))
            if fn == 'persistent_place' and strip_cast(ca) != ('v', 'address'):
                bad = "the instance is placed at checksum.address' = %s, not at the requested address: every later access lies outside the region the caller designated" % fmt(ca)
        ck.verdict(bad is None, 'C10.b', fn + ':layout', cx.where(fn),
                   'leaves data.address = checksum.address + checksum.size' if bad is None else bad)
    # representation: the linear arguments above treat stored values as integers; that is only right if no configuration
    # field is narrower than the value stored in it (an address field of 16 bits wraps the data region into the first 64 KiB)
    for fn in ('set_data_address', 'persistent_place', 'persistent_init', 'persistent_sum16', 'persistent_sum32', 'persistent_buffer'):
        if cx.u.fn(fn) is None:
            continue
        eng0 = sym.Engine(cx.u, sizeof=cx.eng.sizeof if hasattr(cx.eng, 'sizeof') else {}, inline=set())
        try:
            ns = eng0.narrowing_stores(eng0.paths(fn))
        except (sym.Unsupported, sym.PathLimit) as e:
            ck.broken('C10.b', fn + ':field-widths', cx.where(fn), str(e))
            continue
        ck.verdict(not ns, 'C10.b', fn + ':field-widths', cx.where(fn),
                   'no field is narrower than the value stored in it' if not ns else '%s <- %s: %s' % (fmt(ns[0][0].name), ns[0][1], ns[0][2]))


def width_of_path(p, cx):
    K16 = cx.enums.get('PERSISTENT_CHECKSUM_16BIT')
    K32 = cx.enums.get('PERSISTENT_CHECKSUM_32BIT')
    w = None
    for c in p.cond_terms():
        if c[0] == 'cmp' and c[2] == CS_TYPE and sym.is_c(c[3]):
            if c[1] == '==' and c[3][1] == K16:
                w = 16
            elif c[1] == '==' and c[3][1] == K32:
                w = 32
            elif c[1] == '!=' and c[3][1] == K16 and w is None:
                w = 32
            elif c[1] == '!=' and c[3][1] == K32 and w is None:
                w = 16 if w is None else w
    # default arm (neither) behaves as 32 per the switch's default
    nes = {c[3][1] for c in p.cond_terms() if c[0] == 'cmp' and c[1] == '!=' and c[2] == CS_TYPE and sym.is_c(c[3])}
    if K16 in nes and K32 in nes:
        w = 32
    return w


def rule_width(cx, rule='C10.d', fns=('checksum_size', 'persistent_checksum', 'persistent_calculate_checksum',
                                      'persistent_store_checksum', 'persistent_fetch_checksum', 'persistent_match')):
    """C10.d (and, for the functions validation depends on, C11.v)"""
    ck = cx.ck
    sites = 0
    for fn in fns:
        ps = cx.paths(fn, rule)
        if ps is None:
            continue
        bad = None
        used = False
        for p in ps:
            w = width_of_path(p, cx)
            if w is None:
                continue
            other = '32' if w == 16 else '16'
            texts = [fmt(e.name) if e.kind == 'store' else e.name for e in p.effects if e.kind in ('store', 'icall')]
            texts += [fmt(a) for e in p.effects if e.kind in ('icall', 'call', 'store') for a in e.args]
            if p.ret is not None:
                texts.append(fmt(p.ret))
            for c in p.cond_terms():
                texts.append(fmt(c))
            for t in texts:
                if 'sum' + other in t or '.c' + other in t:
                    bad = '%d-bit arm touches a %s-bit member: %s' % (w, other, t[:100])
                if 'sum%d' % w in t or '.c%d' % w in t:
                    used = True
            if fn == 'checksum_size' and p.ret is not None and p.ret != C(w // 8):
                bad = '%d-bit checksum reported as %s octets' % (w, fmt(p.ret))
        if fn in ('persistent_store_checksum', 'persistent_fetch_checksum') and bad is None:
            for p in ps:
                w = width_of_path(p, cx)
                mc = medium_calls(p)
                if w is None:
                    continue
                if len(mc) != 1 or not any('sum%d' % w in fmt(a) for a in mc[0].args):
                    bad = ('the %d-bit arm performs %d medium accesses with its checksum member (expected exactly one): the stored checksum is not %s'
                           % (w, len([e for e in mc if any('sum%d' % w in fmt(a) for a in e.args)]), 'written' if 'store' in fn else 'read'))
        sites += 1
        if bad is None and not used and fn != 'checksum_size' and not cx.new_helpers:
            bad = 'no arm uses a checksum member of its own width'
        ck.verdict(bad is None, rule, fn + (':width' if rule != 'C10.d' else ''), cx.where(fn),
                   'each checksum-type arm uses only the members of its own width' if bad is None else bad)
    ck.floor(rule, 'width dispatch sites', sites, min(5, len(fns)))
    if 'persistent_match' in fns and cx.P.get('persistent_match'):
        # the comparison that decides validation: equality of the two values at the full configured width
        bad = broken = None

        def operand(t, w):
            """('a'|'b', None) for <param>.sum<w> seen through value-preserving casts, else (None, why)"""
            while t[0] == 'cast':
                ti = bitdom.type_info(bitdom.resolve_typedefs(cx.u, t[1]))
                if not ti or len(ti) != 3:
                    return None, None
                if ti[0] < w:
                    return None, 'operand %s is narrowed to %d bits before the comparison' % (fmt(t[2]), ti[0])
                t = t[2]
            if t[0] == 'f' and t[2] == 'sum%d' % w and t[1][0] == '&' and t[1][1] in (('v', 'a'), ('v', 'b')):
                return t[1][1][1], None
            if t[0] == 'f' and t[2].startswith('sum'):
                return None, '%d-bit arm compares member %s' % (w, t[2])
            return None, None
        for p in cx.P['persistent_match']:
            w = width_of_path(p, cx)
            r = p.ret
            while r is not None and r[0] == 'cast':
                r = r[2]
            if r is not None and r[0] == 'cmp' and r[1] == '!=' and w is not None:
                bad = 'the %d-bit arm returns %s: equal checksums are reported as a mismatch and different ones as a match' % (w, fmt(r))
                continue
            if w is None or r is None or r[0] != 'cmp' or r[1] != '==':
                broken = 'result %s is not an equality of the two checksum values' % (fmt(p.ret) if p.ret else None)
                continue
            (x, wx), (y, wy) = operand(r[2], w), operand(r[3], w)
            if wx or wy:
                bad = wx or wy
            elif {x, y} != {'a', 'b'}:
                broken = 'comparison %s is not between a.sum%d and b.sum%d' % (fmt(r), w, w)
        if broken and not bad:
            ck.broken(rule, 'persistent_match:full-width', cx.where('persistent_match'), broken)
        else:
            ck.verdict(bad is None, rule, 'persistent_match:full-width', cx.where('persistent_match'),
                       'each arm returns a.sumW == b.sumW at the full width W of the configured checksum' if bad is None else bad)
    if rule != 'C10.d':
        return
    for fn, w in (('persistent_sum16', 16), ('persistent_sum32', 32)):
        ps = cx.paths(fn, 'C10.d')
        if ps is None:
            continue
        K = cx.enums.get('PERSISTENT_CHECKSUM_%dBIT' % w)
        bad = None
        for p in ps:
            if p.mem.get(CS_TYPE) != C(K):
                bad = 'type set to %s' % fmt(p.mem.get(CS_TYPE, CS_TYPE))
            if p.mem.get(CS_SIZE) != C(w // 8):
                bad = 'size set to %s, expected %d' % (fmt(p.mem.get(CS_SIZE, CS_SIZE)), w // 8)
            if p.mem.get(fld('checksum', 'process', 'c%d' % w)) != ('v', 'f'):
                bad = 'function not stored in process.c%d' % w
            if p.mem.get(fld('checksum', 'initial', 'sum%d' % w)) != ('v', 'init'):
                bad = 'initial value not stored in initial.sum%d' % w
        ck.verdict(bad is None, 'C10.d', fn + ':config', cx.where(fn), 'configures type, size %d, process.c%d and initial.sum%d' % (w // 8, w, w) if bad is None else bad)


def rule_fold(cx):
    """C10.c fold shape: seed, update, same member one-shot vs chunked"""
    ck = cx.ck
    via = set()
    for h in cx.helpers_reached('persistent_calculate_checksum'):
        for c in cast.calls_in(cx.u.body(h)):
            if cast.callee_name(c) is None and 'process' in cast.member_chain(cast.strip(c['inner'][0])):
                via.add(h)
    if via:
        # the accumulator is updated through a helper's pointer parameter: a shape this rule does not read reliably
        return ck.broken('C10.c', 'persistent_calculate_checksum:fold', cx.where('persistent_calculate_checksum'),
                         'checksum steps go through helper(s) %s introduced after the rule was written' % sorted(via))
    ps = cx.paths('persistent_calculate_checksum', 'C10.c')
    if ps is None:
        return
    where = cx.where('persistent_calculate_checksum')
    seeds = {}
    bad = None
    for p in ps:
        if not p.loops:
            continue
        lmap = p.loops[-1][1]
        for e in p.effects:
            if e.kind == 'icall' and e.name.startswith('checksum.process.c') and e.inloop:
                w = e.name[-2:]
                rd = [m for m in medium_calls(p) if m.inloop]
                if not rd:
                    bad = 'checksum step without a read in the same iteration'
                    continue
                a, ln, mem = addr_len(rd[0])
                if e.args[0] != mem or e.args[1] != ln:
                    bad = 'step processes (%s, %s) but the iteration read (%s, %s)' % (fmt(e.args[0]), fmt(e.args[1]), fmt(mem), fmt(ln))
                acc = e.args[2]
                acck = [k for k, (h, pre) in lmap.items() if h == acc]
                if len(acck) != 1:
                    bad = 'step is not seeded with the running accumulator (%s)' % fmt(acc)
                    continue
                seeds[w] = lmap[acck[0]][1]
                newv = p.mem.get(acck[0])
                if newv != e.result:
                    bad = 'accumulator not updated with the step result'
    for w in ('16', '32'):
        want = fld('checksum', 'initial', 'sum' + w)
        if seeds.get(w) != want:
            bad = bad or 'sum%s accumulator seeded with %s, expected checksum.initial.sum%s' % (w, fmt(seeds.get(w)) if seeds.get(w) else None, w)
    ck.verdict(bad is None, 'C10.c', 'persistent_calculate_checksum:fold', where,
               'accumulator seeded with checksum.initial, each chunk folded as process(data just read, its length, acc)' if bad is None else bad)
    # success result only after the loop; the value returned is the accumulator
    ok = True
    for p in ps:
        if p.end == 'return' and p.ret is not None and p.ret[0] == 'struct':
            acc_ = dict(p.ret[2]).get('access')
            if acc_ == C(cx.enums.get('PERSISTENT_ACCESS_SUCCESS')) and medium_calls(p) and any(m.inloop for m in medium_calls(p)):
                ok = False
    ck.verdict(ok, 'C10.c', 'persistent_calculate_checksum:result', where,
               'SUCCESS is reported only when the walk has covered the whole data size' if ok else 'SUCCESS returned from inside the walk')
    # one-shot
    ps1 = cx.paths('persistent_checksum', 'C10.c')
    if ps1 is not None:
        bad = None
        for p in ps1:
            w = width_of_path(p, cx)
            cs = [e for e in p.effects if e.kind == 'icall' and e.name.startswith('checksum.process.c')]
            if len(cs) != 1:
                bad = 'expected one process call'
                continue
            e = cs[0]
            if e.name != 'checksum.process.c%d' % w:
                bad = '%d-bit arm calls %s' % (w, e.name)
            if e.args[0] != ('v', 'src') or e.args[1] != DATA_SIZE or e.args[2] != fld('checksum', 'initial', 'sum%d' % w):
                bad = 'one-shot checksum is process(%s, %s, %s), expected (src, data.size, initial.sum%d)' % (fmt(e.args[0]), fmt(e.args[1]), fmt(e.args[2]), w)
        ck.verdict(bad is None, 'C10.c', 'persistent_checksum:one-shot', cx.where('persistent_checksum'),
                   'one-shot path applies the same member to (src, data.size) from the same seed' if bad is None else bad)


def rule_from_medium(cx, rule='C10.e'):
    """What validation compares with the stored checksum is calculated from octets READ FROM THE MEDIUM IN THIS CALL.  The
    property speaks of the image on the medium ("any alteration of a stored octet is reported", "succeeds only if the
    checksum on the medium matches the data image on the medium"): an image or a checksum remembered in the instance from an
    earlier call (an auxiliary buffer kept as a copy of the medium, a cached sum) answers for what the medium held THEN.
    So on every path of persistent_calculate_checksum (helpers looked through) that reports SUCCESS: every checksum step
    processes a buffer that a block.read on the same path, before the step, has filled; and a SUCCESS without any read is
    possible only when there is nothing to read (data.size == 0 entailed)."""
    ck = cx.ck
    ps = cx.paths('persistent_calculate_checksum', rule)
    if ps is None:
        return
    where = cx.where('persistent_calculate_checksum')
    OK = C(cx.enums.get('PERSISTENT_ACCESS_SUCCESS'))
    bad = None
    nok = 0
    for p in ps:
        if p.end != 'return' or p.ret is None or p.ret[0] != 'struct' or dict(p.ret[2]).get('access') != OK:
            continue
        nok += 1
        reads = [e for e in medium_calls(p) if e.name == 'block.read']
        steps = [e for e in p.effects if (e.kind == 'icall' and e.name.startswith('checksum.process.c')) or (e.kind == 'call' and e.name == 'persistent_checksum')]
        for e in steps:
            buf = strip_cast(e.args[1] if e.kind == 'call' else e.args[0])
            before = [m for m in reads if p.effects.index(m) < p.effects.index(e) and strip_cast(addr_len(m)[2]) == buf]
            # ... or a loop the path has come through has filled it (the iterations are paths of their own)
            mine = {id(n) for n, _ in p.loops}
            inloop = [q for q in ps if q.end == 'loopback' and q.loops and id(q.loops[-1][0]) in mine
                      and any(m.name == 'block.read' and strip_cast(addr_len(m)[2]) == buf for m in medium_calls(q))]
            if not before and not inloop:
                bad = bad or ('a path reporting SUCCESS under {%s} calculates the checksum over %s (%s) without having read that buffer from the medium in this call: '
                              'what is compared with the stored checksum is what the instance remembers, not what the medium holds - an altered or torn medium validates'
                              % ('; '.join(fmt(c) for c in p.cond_terms()[-4:]), fmt(buf), e.where()))
        if not reads and not steps and not p.loops and not cx.eng.entails(p, L(DATA_SIZE)):
            bad = bad or ('a path reports a calculated checksum as SUCCESS under {%s} without reading the medium although data.size may be positive'
                          % '; '.join(fmt(c) for c in p.cond_terms()[-4:]))
    if nok == 0:
        return ck.broken(rule, 'persistent_calculate_checksum:from-medium', where, 'no path reporting SUCCESS found')
    ck.verdict(bad is None, rule, 'persistent_calculate_checksum:from-medium', where,
               'every successful calculation folds buffers filled by block.read in the same call (%d paths)' % nok if bad is None else bad)


def rule_stored_from_medium(cx, rule='C10.e'):
    """The other half of what validation compares: the STORED checksum is the content of the checksum cell on the medium now.
    Every path of persistent_fetch_checksum that reports SUCCESS has read (checksum.address, checksum.size) with block.read
    in this call - a value remembered in the instance from an earlier read answers for what the cell held then (a reset
    that wiped the cell and failed later, a torn checksum write, an alteration of the medium go unnoticed)."""
    ck = cx.ck
    ps = cx.paths('persistent_fetch_checksum', rule)
    if ps is None:
        return
    where = cx.where('persistent_fetch_checksum')
    OK = C(cx.enums.get('PERSISTENT_ACCESS_SUCCESS'))
    bad = None
    nok = 0
    for p in ps:
        if p.end != 'return' or p.ret is None or p.ret[0] != 'struct':
            continue
        acc = dict(p.ret[2]).get('access')
        if acc != OK:
            continue
        nok += 1
        rd = [e for e in medium_calls(p) if e.name == 'block.read']
        cell = [e for e in rd if L(addr_len(e)[0]) == L(fld('checksum', 'address')) and L(addr_len(e)[1]) == L(fld('checksum', 'size'))]
        if not cell:
            bad = bad or ('a path reports the stored checksum as fetched (SUCCESS) under {%s} without reading the checksum cell (checksum.address, checksum.size) from the medium in this call: '
                          'the value is what the instance remembers, not what the medium holds' % '; '.join(fmt(c) for c in p.cond_terms()[-4:]))
    if nok == 0:
        return ck.broken(rule, 'persistent_fetch_checksum:from-medium', where, 'no path reporting SUCCESS found')
    ck.verdict(bad is None, rule, 'persistent_fetch_checksum:from-medium', where,
               'every successful fetch of the stored checksum reads the checksum cell in the same call (%d paths)' % nok if bad is None else bad)


def rule_validate(cx):
    """C10.e"""
    ck = cx.ck
    ps = cx.paths('persistent_validate', 'C10.e')
    if ps is None:
        return
    SUCCESS = cx.enums.get('PERSISTENT_ACCESS_SUCCESS')
    INVALID = cx.enums.get('PERSISTENT_ACCESS_INVALID_DATA')
    missing = [h for h in ('persistent_fetch_checksum', 'persistent_match') if cx.u.fn(h) is None]
    if missing:
        return ck.broken('C10.e', 'persistent_validate', cx.where('persistent_validate'),
                         'the rule reads the verdict off the calls of %s, which no longer exist(s) as a function' % ' and '.join(missing))
    bad = None
    seen = set()

    def value_of(p):
        """the constant a path returns, also where it returns a variable that a path condition pins to it"""
        r = strip_cast(p.ret) if p.ret is not None else None
        if r is not None and r[0] == 'c':
            return r[1]
        for cc in p.cond_terms():
            if cc[0] == 'cmp' and cc[1] == '==' and strip_cast(cc[2]) == r and sym.is_c(cc[3]):
                return cc[3][1]
        return None
    for p in ps:
        names = [e.name for e in p.calls()]
        if 'persistent_match' in names:
            if names != ['persistent_fetch_checksum', 'persistent_calculate_checksum', 'persistent_match']:
                bad = 'verdict after call sequence %s' % names
                continue
            m = p.calls('persistent_match')[0]
            f = p.calls('persistent_fetch_checksum')[0]
            c = p.calls('persistent_calculate_checksum')[0]
            texts = fmt(m.args[1]) + '|' + fmt(m.args[2])
            if not (('persistent_fetch_checksum' in fmt(m.args[1]) and 'persistent_calculate_checksum' in fmt(m.args[2])) or
                    ('persistent_fetch_checksum' in fmt(m.args[2]) and 'persistent_calculate_checksum' in fmt(m.args[1]))):
                bad = 'match compares %s' % texts
            tv = [cc for cc in p.cond_terms() if sym.contains(cc, m.result)]
            true_branch = any(cc[1] == '!=' and cc[3] == C(0) for cc in tv if cc[0] == 'cmp')
            v = value_of(p)
            if v not in (SUCCESS, INVALID):
                bad = 'after the comparison the result is %s, neither SUCCESS nor INVALID_DATA' % (fmt(p.ret) if p.ret else None)
                continue
            if (v == SUCCESS) != true_branch:
                bad = 'SUCCESS/INVALID_DATA not decided by the match result'
            seen.add(v)
        elif value_of(p) in (SUCCESS, INVALID) and names != ['persistent_fetch_checksum', 'persistent_calculate_checksum', 'persistent_match'] \
                and not any(cc[0] == 'cmp' and cc[1] == '!=' and sym.is_c(cc[3], SUCCESS) and strip_cast(cc[2]) == strip_cast(p.ret) for cc in p.cond_terms()) \
                and strip_cast(p.ret)[0] == 'c':
            bad = 'verdict after call sequence %s' % names
        else:
            # error paths return the failing step's access
            if p.ret is None or 'access' not in fmt(p.ret):
                bad = 'error path returns %s' % (fmt(p.ret) if p.ret else None)
    if seen != {SUCCESS, INVALID} and bad is None:
        bad = 'missing SUCCESS or INVALID_DATA verdict'
    ck.verdict(bad is None, 'C10.e', 'persistent_validate', cx.where('persistent_validate'),
               'fetch stored checksum, recompute from the medium, compare: SUCCESS iff they match, INVALID_DATA otherwise, I/O failures propagated' if bad is None else bad)
    # fetch: whole-image fetch covers (0, data.size)
    ps = cx.paths('persistent_fetch', 'C10.e')
    if ps is not None:
        bad = None
        for p in ps:
            cs = p.calls('persistent_fetch_part')
            if len(cs) != 1 or cs[0].args[2] != C(0) or cs[0].args[3] != DATA_SIZE or strip_cast(p.ret) != cs[0].result:
                bad = 'persistent_fetch does not forward (dst, store, 0, data.size)'
        ck.verdict(bad is None, 'C10.e', 'persistent_fetch', cx.where('persistent_fetch'), 'whole-image fetch = part (0, data.size)' if bad is None else bad)
    ps = cx.paths('persistent_store', 'C10.e')
    if ps is not None:
        bad = None
        for p in ps:
            cs = p.calls('persistent_store_part')
            if len(cs) != 1 or cs[0].args[2] != C(0) or cs[0].args[3] != DATA_SIZE or strip_cast(p.ret) != cs[0].result:
                bad = 'persistent_store does not forward (store, src, 0, data.size)'
        ck.verdict(bad is None, 'C10.e', 'persistent_store', cx.where('persistent_store'), 'whole-image store = part (0, data.size)' if bad is None else bad)


def rule_reset(cx):
    """C10.f"""
    ck = cx.ck
    ps = cx.paths('persistent_reset', 'C10.f')
    if ps is None:
        return
    SUCCESS = cx.enums.get('PERSISTENT_ACCESS_SUCCESS')
    bad = None
    full = False
    # modular argument: persistent_writen stores nothing into *store, so values of store's
    # fields read after the first call ('clobbered' atoms) equal the fields themselves
    wps = cx.paths('persistent_writen', 'C10.f') or []
    # (the fields that describe the regions and the medium; bookkeeping the instance may carry besides is not judged here)
    writes_store = [e for p in wps for e in p.stores() if sym.rooted_at(e.name, S)
                    and any(x in fmt(e.name) for x in ('->checksum.', '->data.', '->block.', '->buffer.data', '->buffer.size'))]
    if writes_store:
        bad = 'persistent_writen modifies the description of the store (%s)' % fmt(writes_store[0].name)
    origin = cx.eng.clobber_origin

    _sc = globals()['strip_cast']

    def strip_cast(t):
        t = _sc(t)
        return origin.get(t, t) if t is not None else t
    for p in ps:
        ws = p.calls('persistent_writen')
        if not ws:
            bad = 'no region written'
            continue
        if ws[0].args[1:] != (CS_ADDR, ('v', 'item'), CS_SIZE) and tuple(map(strip_cast, ws[0].args[1:])) != (CS_ADDR, ('v', 'item'), CS_SIZE):
            bad = 'first region is (%s, %s)' % (fmt(ws[0].args[1]), fmt(ws[0].args[3]))
        if len(ws) == 2:
            full = True
            if tuple(map(strip_cast, ws[1].args[1:])) != (DATA_ADDR, ('v', 'item'), DATA_SIZE):
                bad = 'second region is (%s, %s)' % (fmt(ws[1].args[1]), fmt(ws[1].args[3]))
            if strip_cast(p.ret) != ws[1].result:
                bad = 'does not return the status of the data-region write'
            if not any(c == ('cmp', '==', ws[0].result, C(SUCCESS)) for c in p.cond_terms()):
                bad = 'data region written although the checksum region failed'
        else:
            if strip_cast(p.ret) != ws[0].result:
                bad = 'failure of the first region not returned'
    if not full and bad is None:
        bad = 'data region never written'
    ck.verdict(bad is None, 'C10.f', 'persistent_reset', cx.where('persistent_reset'),
               'fills the checksum region then the data region with the fill octet, first failure returned' if bad is None else bad)
    # writen hands the medium scratch memory that holds the fill octet in every octet it writes from
    ps = cx.paths('persistent_writen', 'C10.f')
    if ps is not None:
        bad = None
        witness = None
        ITEM = ('v', 'item')
        nw = 0
        for p in ps:
            for e in [e for e in medium_calls(p) if e.name == 'block.write']:
                nw += 1
                a, ln, mem = addr_len(e)
                ms = [m for m in p.calls('memset') if p.effects.index(m) < p.effects.index(e)]
                if strip_cast(mem) == BUF_DATA:
                    okm = [m for m in ms if strip_cast(m.args[0]) == BUF_DATA and strip_cast(m.args[1]) == ITEM]
                    if okm:
                        if strip_cast(okm[-1].args[2]) != BUF_SIZE:
                            bad = bad or 'memset of %s octets into the auxiliary buffer of buffer.size' % fmt(okm[-1].args[2])
                        continue
                    # not filled on this path: only under a condition that says the buffer holds the pattern already
                    w = [c for c in p.cond_terms() if c[0] == 'cmp' and c[1] == '==' and strip_cast(c[3]) == ITEM and sym.rooted_at(strip_cast(c[2]), S)] + \
                        [c for c in p.cond_terms() if c[0] == 'cmp' and c[1] == '==' and strip_cast(c[2]) == ITEM and sym.rooted_at(strip_cast(c[3]), S)]
                    if not w:
                        bad = bad or 'the auxiliary buffer is written to the medium without having been filled with the fill octet on this path'
                    else:
                        witness = strip_cast(w[0][2]) if sym.rooted_at(strip_cast(w[0][2]), S) else strip_cast(w[0][3])
                elif mem[0] == '&':
                    okm = [m for m in ms if m.args[0] == mem and strip_cast(m.args[1]) == ITEM]
                    if okm and okm[-1].args[2] != C(1):
                        bad = bad or 'memset of %s octets into a one-octet scratch' % fmt(okm[-1].args[2])
                    val = strip_cast(sym.mem_read(p.mem, mem[1]))
                    if not okm and val != ITEM:
                        bad = bad or 'the one-octet scratch holds %s, not the fill octet, when it is written' % fmt(val)
                else:
                    bad = bad or 'scratch memory %s not recognised' % fmt(mem)
        if nw == 0:
            bad = bad or 'no medium write found'
        if witness is not None and bad is None:
            bad = witness_coherence(cx, witness)
        ck.verdict(bad is None, 'C10.f', 'persistent_writen:fill', cx.where('persistent_writen'),
                   ('scratch filled with the fill octet within its capacity' + ('; the record %s of what the auxiliary buffer holds is kept true by everything that writes the buffer' % fmt(witness) if witness else ''))
                   if bad is None else bad)


def witness_coherence(cx, W):
    """The instance field W is taken as evidence that the auxiliary buffer already holds the fill pattern (the fill is
    skipped when W == item).  That is sound exactly if W tells the truth whenever it is read: (a) W is given a value v
    that can be an octet only together with memset(buffer, v, size) on the same path; (b) every other function that lets
    something write into the buffer's memory (a medium read into it, a copy) or that assigns a new buffer leaves W at a
    value no octet can have (negative).  Checked over every function of the unit."""
    u = cx.u
    for fn, fd in sorted(u.functions.items()):
        if not (cast.node_file(fd) or '').endswith('persistent-storage.c'):
            continue
        ps = cx.paths(fn, 'C10.f')
        if ps is None:
            continue
        for p in ps:
            if p.end not in ('return', 'end'):
                continue
            # what was the last thing written into the buffer's memory on this path, and what does W say at the end
            last = None
            for e in p.effects:
                if e.kind == 'icall' and e.name == 'block.read' and strip_cast(e.args[0]) == BUF_DATA:
                    last = ('data', e)
                elif e.kind == 'call' and e.name in ('memcpy', 'memmove') and strip_cast(e.args[0]) == BUF_DATA:
                    last = ('data', e)
                elif e.kind == 'store' and e.name == BUF_DATA:
                    last = ('newbuf', e)
                elif e.kind == 'call' and e.name == 'memset' and strip_cast(e.args[0]) == BUF_DATA:
                    last = ('fill', e)
            wstores = [e for e in p.effects if e.kind == 'store' and e.name == W]
            wfinal = strip_cast(sym.mem_read(p.mem, W))
            neg = sym.is_c(wfinal) and wfinal[1] < 0

            def same(v, item):
                v, item = strip_cast(v), strip_cast(item)
                return v == item
            if last is not None and last[0] in ('data', 'newbuf') and not neg:
                return ('%s lets the auxiliary buffer be overwritten (%s) and returns with %s = %s: a later persistent_reset with the remembered value skips the fill '
                        'and writes what the buffer then holds - stale image octets - over the region, reporting success'
                        % (fn, last[1].where(), fmt(W), 'unchanged' if wfinal == W else fmt(wfinal)))
            if wstores and not neg and wfinal != W:
                if last is None or last[0] != 'fill' or not same(last[1].args[1], wfinal):
                    return ('%s sets %s = %s at %s without the auxiliary buffer having been filled with that value last on the same path: the record claims a pattern '
                            'the buffer does not hold' % (fn, fmt(W), fmt(wfinal), wstores[-1].where()))
    return None


def rule_io(cx):
    """C11.a / C11.c"""
    ck = cx.ck
    IOERR = cx.enums.get('PERSISTENT_ACCESS_IO_ERROR')
    SUCCESS = cx.enums.get('PERSISTENT_ACCESS_SUCCESS')
    sites = {}
    listed = ('persistent_calculate_checksum', 'persistent_store_checksum', 'persistent_fetch_checksum',
              'persistent_fetch_part', 'persistent_store_part', 'persistent_writen')
    # every function of the unit that talks to the medium (helpers a refactoring may have introduced included)
    direct = []
    for fn in sorted(cx.u.functions):
        f = cx.u.fn(fn)
        if not (cast.node_file(f) or '').endswith('persistent-storage.c') or cx.u.body(fn) is None:
            continue
        if any(cast.kind(x) == 'CallExpr' and [m for m in cast.walk(x['inner'][0]) if cast.kind(m) == 'MemberExpr' and m.get('name') in ('read', 'write')]
               for x in cast.walk(cx.u.body(fn))):
            direct.append(fn)
    for fn in sorted(set(listed) | set(direct)):
        if fn not in listed and cx.u.fn(fn) is None:
            continue
        ps = cx.paths(fn, 'C11.a')
        if ps is None:
            continue
        for p in ps:
            for e in medium_calls(p):
                sid = '%s:%s@%s' % (fn, e.name, cast.where(e.node))
                st = sites.setdefault(sid, {'eq': False, 'ne': False, 'bad': None, 'where': e.where()})
                a, ln, mem = addr_len(e)
                eqc = [c for c in p.cond_terms() if c[0] == 'cmp' and c[1] in ('==', '!=') and
                       {strip_cast(c[2]), strip_cast(c[3])} == {e.result, strip_cast(ln)}]
                if not eqc:
                    # loopback/return before the comparison cannot happen: the compare follows the call
                    st['bad'] = 'result of %s not compared with the requested length %s on %s' % (e.name, fmt(ln), p.describe())
                    continue
                if eqc[0][1] == '!=':
                    st['ne'] = True
                    # must end in IO_ERROR
                    r = p.ret
                    okr = r == C(IOERR) or (r is not None and r[0] == 'struct' and dict(r[2]).get('access') == C(IOERR))
                    if fn not in listed and r is not None and sym.is_c(strip_cast(r)) and strip_cast(r)[1] <= 0:
                        okr = True          # a helper reporting failure in its own way (false / negative); its callers are held to use it (C11.c)
                    if p.end != 'return' or not okr:
                        st['bad'] = 'short/failed %s ends with %s, expected I/O error' % (e.name, fmt(r) if r else p.end)
                else:
                    st['eq'] = True
                    # the complete transfer must be reported as such by functions that return their own status record
                    if fn in ('persistent_fetch_checksum', 'persistent_store_checksum') and p.end == 'return':
                        r = p.ret
                        acc = r if r is not None and r[0] == 'c' else (dict(r[2]).get('access') if r is not None and r[0] == 'struct' else None)
                        if acc != C(SUCCESS):
                            st['bad'] = st['bad'] or ('a complete %s ends with status %s, expected PERSISTENT_ACCESS_SUCCESS (the status field is never assigned on that path)'
                                                      % (e.name, fmt(acc) if acc else 'unassigned'))
    for sid, st in sorted(sites.items()):
        bad = st['bad']
        if bad is None and not (st['eq'] and st['ne']):
            bad = 'transfer count is not checked both ways'
        ck.verdict(bad is None, 'C11.a', sid, st['where'],
                   'transferred count compared with the requested length; mismatch reported as I/O error' if bad is None else bad)
    ck.floor('C11.a', 'medium call sites', len(sites), 8)
    # C11.c (interprocedural half): the result of every unit function that touches the medium - directly or through
    # callees - is tested or returned by its caller; a discarded result is a swallowed I/O status
    MED = set(direct)
    calls_of = {}
    for fn in sorted(cx.u.functions):
        f = cx.u.fn(fn)
        if not (cast.node_file(f) or '').endswith('persistent-storage.c') or cx.u.body(fn) is None:
            continue
        calls_of[fn] = {cast.callee_name(x) for x in cast.calls_in(cx.u.body(fn))}
    changed = True
    while changed:
        changed = False
        for fn, cs in calls_of.items():
            if fn not in MED and cs & MED:
                MED.add(fn)
                changed = True
    nuse = 0
    for fn in sorted(calls_of):
        if not (calls_of[fn] & MED):
            continue
        ps = cx.paths(fn, 'C11.c')
        if ps is None:
            continue
        bad = None
        for p in ps:
            for e in p.calls():
                if e.name not in MED or e.result is None:
                    continue
                nuse += 1
                used = any(sym.contains(c, e.result) for c in p.cond_terms()) or (p.ret is not None and sym.contains(p.ret, e.result))
                later_args = any(sym.contains(a, e.result) for e2 in p.effects if e2 is not e for a in (e2.args or ()))
                if not used and not later_args and p.end == 'return':
                    bad = bad or ('the result of %s at %s is neither tested nor returned on the path {%s}: a failed or short medium access inside it goes unnoticed'
                                  % (e.name, e.where(), '; '.join(fmt(c) for c in p.cond_terms()[-2:])[:160]))
        ck.verdict(bad is None, 'C11.c', fn + ':status-used', cx.where(fn),
                   'every result of a medium-touching callee is tested or returned' if bad is None else bad)
    ck.floor('C11.c', 'uses of medium-touching callees', nuse, 6)
    # C11.c: results of internal steps are propagated (no SUCCESS after a failed step)
    for fn, steps in (('persistent_store_part', ('persistent_calculate_checksum', 'persistent_store_checksum')),
                      ('persistent_validate', ('persistent_fetch_checksum', 'persistent_calculate_checksum')),
                      ('persistent_reset', ('persistent_writen',))):
        ps = cx.paths(fn, 'C11.c')
        if ps is None:
            continue
        bad = None
        for p in ps:
            if p.ret == C(SUCCESS):
                for e in p.calls():
                    if e.name in steps:
                        # the step's status must have been tested equal to SUCCESS on this path
                        tested = any(c[0] == 'cmp' and c[1] == '==' and sym.contains(c[2], e.result) and c[3] == C(SUCCESS) for c in p.cond_terms())
                        if not tested:
                            bad = 'SUCCESS returned without testing the status of %s' % e.name
            # a step that reported failure: what is returned must be that failure (or a constant error),
            # never a value that the path conditions pin to SUCCESS
            for e in p.calls():
                if e.name not in steps:
                    continue
                failed = [c for c in p.cond_terms() if c[0] == 'cmp' and c[1] == '!=' and strip_cast(c[2]) in (e.result, ('fv', e.result, 'access')) and c[3] == C(SUCCESS)]
                if not failed or p.end != 'return' or p.ret is None:
                    continue
                r = strip_cast(p.ret)
                if r == strip_cast(failed[0][2]) or r == e.result or (sym.is_c(r) and r[1] != SUCCESS):
                    continue
                pinned = any(c[0] == 'cmp' and c[1] == '==' and strip_cast(c[2]) == r and c[3] == C(SUCCESS) for c in p.cond_terms())
                bad = ('%s reported a failure (%s) but the function returns %s%s' %
                       (e.name, fmt(failed[0]), fmt(p.ret), ', which this path has just tested to be SUCCESS: the I/O error is reported as success' if pinned or r == C(SUCCESS) else ''))
        ck.verdict(bad is None, 'C11.c', fn, cx.where(fn), 'SUCCESS is returned only after every internal step reported success; a failed step\'s status is what is returned' if bad is None else bad)


def rule_order(cx):
    """C11.b"""
    ck = cx.ck
    ps = cx.paths('persistent_store_part', 'C11.b')
    if ps is None:
        return
    bad = None
    complete = 0
    for p in ps:
        seq = [(e.kind, e.name) for e in p.effects if e.kind in ('icall', 'call') and (e.name.startswith('block.') or e.name.startswith('persistent_'))]
        names = [n for _, n in seq]
        if 'persistent_store_checksum' in names:
            complete += 1
            if names[0] != 'block.write':
                bad = 'first medium access of a store is %s, expected the data write' % names[0]
                continue
            if names[-1] != 'persistent_store_checksum':
                bad = 'checksum write is not the last access'
            if names.index('persistent_store_checksum') < max(i for i, n in enumerate(names) if n in ('block.write', 'persistent_calculate_checksum', 'persistent_checksum')):
                bad = 'checksum written before the data write / recomputation'
            sc = p.calls('persistent_store_checksum')[0]
            if strip_cast(p.ret) != sc.result:
                bad = 'status of the checksum write is not the return value'
            # the checksum written is the one computed on this path
            src = fmt(sc.args[1])
            if 'persistent_checksum' not in src and 'tmp' not in src and 'persistent_calculate_checksum' not in src:
                bad = 'checksum written (%s) is not the one just computed' % src
            wl = [e for e in p.effects if e.kind == 'icall' and e.name == 'block.write']
            pos_w = [i for i, e in enumerate(p.effects) if e.kind == 'icall' and e.name == 'block.write']
            pos_c = [i for i, e in enumerate(p.effects) if e.kind == 'call' and e.name == 'persistent_store_checksum']
            if not wl or (pos_c and pos_w and pos_c[0] < pos_w[0]):
                bad = 'checksum region written before the data write of the same store'
                continue
            w = wl[0]
            if not any({strip_cast(c[2]), strip_cast(c[3])} == {w.result, ('v', 'n')} and c[1] == '==' for c in p.cond_terms() if c[0] == 'cmp'):
                bad = 'checksum written although the data write was not confirmed complete'
        elif 'persistent_calculate_checksum' in names or 'persistent_checksum' in names:
            if names[0] != 'block.write':
                bad = 'checksum computed before the data write'
        if 'block.write' in names and 'persistent_store_checksum' not in names and p.end == 'return':
            # data reached the medium but the checksum cell was not written: this may only be a failure report
            SUCC = C(cx.enums.get('PERSISTENT_ACCESS_SUCCESS'))
            r = strip_cast(p.ret) if p.ret is not None else None
            steps_failed = [e for e in p.calls() if e.name in ('persistent_calculate_checksum',) and
                            any(c[0] == 'cmp' and c[1] == '!=' and strip_cast(c[2]) in (e.result, ('fv', e.result, 'access')) and c[3] == SUCC for c in p.cond_terms())]
            is_failure = (r is not None and sym.is_c(r) and r != SUCC) or (steps_failed and r in (('fv', steps_failed[0].result, 'access'), steps_failed[0].result))
            if not is_failure:
                bad = bad or ('the path {%s} writes data and returns %s without writing the checksum cell: after this "successful" store the medium holds whatever checksum '
                              'was there before (e.g. the fill pattern after a reset)' % ('; '.join(fmt(c) for c in p.cond_terms()[-2:])[:200], fmt(p.ret) if p.ret else None))
    if complete < 2 and bad is None:
        bad = 'expected one-shot and recomputing store paths'
    ck.verdict(bad is None, 'C11.b', 'persistent_store_part:order', cx.where('persistent_store_part'),
               'data write (confirmed complete) precedes checksum computation and the checksum write, which is last and whose status is returned' if bad is None else bad)
    # partial stores recompute from the medium, full stores may use the source image
    bad = None
    unread = None
    for p in ps:
        names = [e.name for e in p.calls()]
        full = any(c == ('cmp', '==', ('v', 'offset'), C(0)) for c in p.cond_terms()) and \
            any(c[0] == 'cmp' and c[1] == '==' and {c[2], c[3]} == {('v', 'n'), DATA_SIZE} for c in p.cond_terms())
        if 'persistent_checksum' in names and not full:
            # what does the one-shot function see as the image size at that moment?  The instance's own data.size: the call
            # checksums data.size octets of a source that holds n - wrong (and an over-read) for a partial store.  A window
            # the path has narrowed before the call (the checksum assembled from segments: medium, source, medium) is a
            # form this rule does not follow segment by segment: it says so instead of judging it.
            ci = [i for i, e in enumerate(p.effects) if e.kind == 'call' and e.name == 'persistent_checksum'][0]
            win = [e for e in p.effects[:ci] if e.kind == 'store' and e.name == DATA_SIZE]
            if not win:
                bad = 'one-shot checksum of the source image used for a partial store'
            else:
                unread = unread or ('the checksum of a partial store is assembled from segments through a narrowed data window (%s = %s at %s): '
                                    'the rule does not follow the segments' % (fmt(DATA_SIZE), fmt(win[-1].args[0]), win[-1].where()))
    if bad is None and unread:
        ck.broken('C11.b', 'persistent_store_part:partial', cx.where('persistent_store_part'), unread)
        return
    ck.verdict(bad is None, 'C11.b', 'persistent_store_part:partial', cx.where('persistent_store_part'),
               'the source image is checksummed directly only when it is the whole data image; partial stores recompute from the medium' if bad is None else bad)


def run_c10(ck):
    ck.rule('C10.a', 'part bounds are overflow-safe; out-of-range parts are refused before any medium access; accepted parts satisfy offset+n <= data.size')
    ck.rule('C10.b', 'every medium access lies inside the checksum region or the data region (linear entailment; chunk walkers by their conserved quantity address+rest); data.address = checksum.address + checksum.size after every configuration change')
    ck.rule('C10.c', 'chunked checksum is a fold of the configured function over the chunks just read, seeded with checksum.initial, each iteration makes progress; one-shot path uses the same member and seed')
    ck.rule('C10.d', 'every dispatch on checksum.type uses only the members of the selected width')
    ck.rule('C10.e', 'validate = fetch stored, recompute from medium, match -> SUCCESS / INVALID_DATA; whole-image store/fetch are the (0, data.size) parts')
    ck.rule('C10.f', 'reset fills checksum region then data region through the chunked writer with the fill octet')
    ck.not_decided += ['user-supplied checksum callbacks', 'that the checksum distinguishes two given images', 'medium semantics (block.read/write callbacks)']
    ck.assumptions += ['a medium callback transfers at most the requested count', 'integers are mathematical except where rule C10.a covers wrap-around']
    cx = Ctx(ck)
    rule_part_bounds(cx)
    distinct_enums(ck, cx.u, 'C10.d', ('PERSISTENT_CHECKSUM_', 'PERSISTENT_ACCESS_'), 'include/ufw/persistent-storage.h')
    rule_region(cx)
    rule_fold(cx)
    rule_width(cx)
    rule_validate(cx)
    rule_from_medium(cx)
    rule_stored_from_medium(cx)
    rule_reset(cx)
    # "after a successful store validation succeeds" needs every successful store to end with the checksum write of the
    # checksum just computed: the order rule of C11.b is an obligation of this property too
    orig = ck.verdict
    ck.verdict = lambda ok, rule, key, where='', detail='', **kw: orig(ok, 'C10.e' if rule == 'C11.b' else rule, key, where, detail, **kw)
    try:
        rule_order(cx)
    finally:
        ck.verdict = orig


def run_c11(ck):
    ck.rule('C11.a', 'every medium call result is compared with the requested length on every path; a mismatch ends in PERSISTENT_ACCESS_IO_ERROR')
    ck.rule('C11.b', 'store order: data write (confirmed complete) -> checksum (re)computation -> checksum write last, its status returned; the source image is checksummed directly only for whole-image stores')
    ck.rule('C11.c', 'constant SUCCESS is returned only after every internal step reported success')
    ck.rule('C11.v', 'validation recomputes the checksum from the medium and compares it with the stored one (C10.e), so it can succeed only when stored checksum and stored data agree')
    ck.not_decided += ['probability that a torn write yields a matching checksum', 'atomicity of a single medium write']
    cx = Ctx(ck)
    rule_io(cx)
    rule_order(cx)
    # C11.v = C10.e re-evaluated as an obligation of this property
    sub = []
    orig = ck.verdict

    def v2(ok, rule, key, where='', detail='', **kw):
        return orig(ok, 'C11.v' if rule == 'C10.e' else rule, key, where, detail, **kw)
    ck.verdict = v2
    rule_validate(cx)
    rule_from_medium(cx)
    rule_stored_from_medium(cx)
    ck.verdict = orig
    # a checksum compared, stored or fetched at less than its configured width lets a torn checksum write validate
    rule_width(cx, 'C11.v', ('persistent_match', 'persistent_store_checksum', 'persistent_fetch_checksum'))


def run(ck):
    run_c10(ck)
