"""C15 Endian codecs place and fetch every value byte-exactly (proof, K8)."""
import re
from .. import cast, bitdom, sym
from ..bitdom import BV, Ptr, ZERO, ONE, TOP, Unsupported

UNIT = 'src/registers/core.c'      # includes binary-format.h
HDR = 'include/ufw/binary-format.h'
FLOOR = 111


def lane_bits(prefix, byte):
    return [(0, frozenset(['%s[%d].%d' % (prefix, byte, b)])) for b in range(8)]


def expect_ref(W, order, kind_, rw, host_big):
    """expected value bits (LSB first) for bf_ref_<kind><W><order>"""
    nb = W // 8
    big = (order == 'b') or (order == 'n' and host_big)
    bits = []
    for lane in range(nb):           # lane 0 = least significant octet
        byte = (nb - 1 - lane) if big else lane
        bits += lane_bits('ptr', byte)
    ext = bits[-1] if kind_ == 's' else ZERO
    bits += [ext] * (rw - W)
    return bits


def fmt_bit(b):
    if b is TOP:
        return 'not a copy of input bits (value conversion or other non-bitwise operation)'
    if not b[1]:
        return str(b[0])
    return ('~' if b[0] else '') + '^'.join(sorted(b[1]))


def first_diff(got, exp):
    for i, (g, e) in enumerate(zip(got, exp)):
        if g != e:
            return 'bit %d is %s, specification says %s' % (i, fmt_bit(g), fmt_bit(e))
    if len(got) != len(exp):
        return 'width %d, expected %d' % (len(got), len(exp))
    return None


def witness(asm, prefix, nbytes=0):
    """one concrete input of a case (free bits 0), for the report"""
    if not asm:
        return ''
    val = {}
    for a, (c, atoms) in asm.items():
        val[a] = c            # free atoms are taken as 0
    if nbytes:
        octs = []
        for i in range(nbytes):
            octs.append(sum(val.get('%s[%d].%d' % (prefix, i, b), 0) << b for b in range(8)))
        return ' [case e.g. octets %s]' % ' '.join('%02x' % o for o in octs)
    v = sum(bit << int(a.split('.')[-1]) for a, bit in val.items() if a.startswith(prefix + '.'))
    return ' [case e.g. %s=0x%x]' % (prefix, v)


def over_cases(ip, name, args, judge, prefix, nbytes=0):
    """run the function under an exact case partition (bitdom.run_split: one case unless the
    function orders symbolic values) and return the first deviation with a witness"""
    leaves = bitdom.run_split(ip, name, args)
    for asm, ret, stores, loads in leaves:
        S = lambda bits: bitdom.subst_bits(bits, asm)
        d = judge(ret, stores, loads, S)
        if d:
            return d + witness(asm, prefix, nbytes), len(leaves)
    return None, len(leaves)


def check_function(ck, ip, u, name, host_big, tag):
    f = u.fn(name)
    where = cast.where(f)
    key = '%s%s' % (name, tag)
    params = u.params(name)
    rule = 'C15.codec'
    try:
        m = re.match(r'bf_swap(\d+)$', name)
        if m:
            W = int(m.group(1))
            pw = ip.tinfo(params[0])[0]
            arg = BV.sym('value', pw)
            nb = W // 8

            def judge(ret, stores, loads, S):
                exp = []
                for lane in range(nb):
                    src = nb - 1 - lane
                    exp += list(arg.bits[8 * src:8 * src + 8])
                exp += [ZERO] * (ret.width - W)
                d = first_diff(ret.bits, S(exp))
                if d is None and (stores or loads):
                    d = 'memory effect in a pure helper'
                return d
            d, ncase = over_cases(ip, name, [arg], judge, 'value')
            # involution follows from the lane reversal; say so
            return ck.verdict(d is None, rule, key, where,
                              d or 'reverses the low %d octets, upper bits zero (hence an involution on %d-bit values)' % (nb, W))
        m = re.match(r'bf_ref_([usf])(\d+)([nbl])$', name)
        if m:
            kind_, W, order = m.group(1), int(m.group(2)), m.group(3)
            def judge(ret, stores, loads, S):
                if not isinstance(ret, BV):
                    return 'does not return a scalar'
                exp = expect_ref(W, order, kind_, ret.width, host_big)
                d = first_diff(ret.bits, S(exp))
                want_loads = {(('param', 'ptr'), i) for i in range(W // 8)}
                if d is None and loads != want_loads:
                    d = 'reads octets %s, expected exactly 0..%d' % (sorted(k[1] for k in loads), W // 8 - 1)
                if d is None and stores:
                    d = 'writes memory'
                if d is None and kind_ == 'f' and not ret.isfloat:
                    d = 'result is not the float member'
                if d is None and kind_ == 's' and not ret.signed:
                    d = 'result is not signed'
                return d
            d, ncase = over_cases(ip, name, [Ptr(('param', 'ptr'), 0, 1)], judge, 'ptr', W // 8)
            return ck.verdict(d is None, rule, key, where,
                              d or 'loads octets 0..%d, %s-endian lane map, %s' % (
                                  W // 8 - 1, 'big' if (order == 'b' or (order == 'n' and host_big)) else 'little',
                                  {'u': 'zero-extended', 's': 'sign-extended from bit %d' % (W - 1),
                                   'f': 'bit-identical float'}[kind_]))
        m = re.match(r'bf_set_([usf])(\d+)([nbl])$', name)
        if m:
            kind_, W, order = m.group(1), int(m.group(2)), m.group(3)
            ti = ip.tinfo(params[1])
            arg = BV.sym('value', ti[0], ti[1], ti[2])
            nb = W // 8
            big = (order == 'b') or (order == 'n' and host_big)

            def judge(ret, stores, loads, S):
                d = None
                want = {}
                for byte in range(nb):
                    lane = (nb - 1 - byte) if big else byte
                    want[(('param', 'ptr'), byte)] = S(list(arg.bits[8 * lane:8 * lane + 8]))
                if set(stores) != set(want):
                    d = 'writes octets %s, expected exactly 0..%d' % (sorted(k[1] for k in stores), nb - 1)
                else:
                    for k_ in sorted(want):
                        dd = first_diff(stores[k_], want[k_])
                        if dd:
                            d = 'octet %d: %s' % (k_[1], dd)
                            break
                if d is None and loads:
                    d = 'reads destination memory'
                if d is None and not (isinstance(ret, Ptr) and ret.base == ('param', 'ptr') and ret.off == nb):
                    d = 'returns %r, expected ptr + %d' % (ret, nb)
                return d
            d, ncase = over_cases(ip, name, [Ptr(('param', 'ptr'), 0, 1), arg], judge, 'value')
            return ck.verdict(d is None, rule, key, where,
                              d or 'stores exactly octets 0..%d (%s-endian), returns ptr+%d' % (
                                  nb - 1, 'big' if big else 'little', nb))
        m = re.match(r'bf_inrange_([us])(\d+)$', name)
        if m:
            return check_inrange(ck, u, name, m.group(1), int(m.group(2)), tag, ip)
    except Unsupported as e:
        return ck.broken(rule, key, where, 'outside the bit domain: %s' % e)
    return ck.broken(rule, key, where, 'function name does not match the codec naming scheme')


def inrange_bits(ip, name, kind_, W, pw, psigned):
    """bf_inrange_* of any loop-free shape decided in the bit domain: under an exact case partition of the 2^pw inputs
    (bitdom case splits) the returned truth value equals 'bits W.. of the argument are all zero' (unsigned) /
    'bits W-1.. are all equal' (signed).  -> (deviation or None, number of cases)"""
    arg = BV.sym('value', pw, psigned)
    work = [{}]
    runs = leaves = 0

    def split(asm, bit):
        c, atoms = bit
        a = min(atoms)
        for v in (0, 1):
            form = (c ^ v, frozenset(atoms - {a}))
            new = {k: bitdom.subst_bit(f, {a: form}) for k, f in asm.items()}
            new[a] = form
            work.append(new)

    def conj(bits):
        """AND of affine bits as one affine bit, or the bit to split on"""
        if any(b is TOP for b in bits):
            raise Unsupported('unknown bits in the result')
        if any(bitdom.is_const(b) and not b[0] for b in bits):
            return ZERO, None
        nc = []
        for b in bits:
            if not bitdom.is_const(b) and b not in nc:
                nc.append(b)
        if any(bitdom.bnot(b) in nc for b in nc):
            return ZERO, None
        if not nc:
            return ONE, None
        if len(nc) == 1:
            return nc[0], None
        return None, nc[0]
    while work:
        asm = work.pop()
        runs += 1
        if runs > 20000:
            raise Unsupported('case-split budget exceeded')
        ip.assume, ip.splitting = asm, True
        try:
            ret, stores, loads = ip.run(name, [arg])
        except bitdom.NeedSplit as sp:
            split(asm, sp.bit)
            continue
        finally:
            ip.assume, ip.splitting = {}, False
        if stores or loads:
            return 'memory effect in a predicate', runs
        if not isinstance(ret, BV):
            return 'does not return a truth value', runs
        # truth value of the result: some bit set
        f, sp = conj([bitdom.bnot(b) for b in ret.bits])
        if sp is not None:
            split(asm, sp)
            continue
        t = bitdom.bnot(f)
        vb = bitdom.subst_bits(arg.bits, asm)
        if kind_ == 'u':
            gs = [bitdom.bnot(vb[i]) for i in range(W, pw)]
        else:
            gs = [bitdom.bnot(bitdom.bxor(vb[i], vb[W - 1])) for i in range(W, pw)]
        e, sp = conj(gs)
        if sp is not None:
            split(asm, sp)
            continue
        leaves += 1
        if t != e:
            d = bitdom.bxor(t, e)
            w = dict(asm)
            if not bitdom.is_const(d):
                # choose the free bits so that the two differ
                a = min(d[1])
                form = (d[0] ^ 1, frozenset(d[1] - {a}))
                w = {k: bitdom.subst_bit(f_, {a: form}) for k, f_ in asm.items()}
                w[a] = form
            val = {}
            for a, (c, atoms) in w.items():
                val[a] = c
            v = sum(val.get('value.%d' % i, 0) << i for i in range(pw))
            got = t[0] if bitdom.is_const(t) else (t[0] ^ sum(val.get(x, 0) for x in t[1])) & 1
            sv = v - (1 << pw) if (psigned and v >> (pw - 1)) else v
            return ('%s value 0x%x (%d), which is %s the %d-bit %s range' % (
                'accepts' if got else 'rejects', v, sv, 'outside' if got else 'inside', W,
                'signed' if kind_ == 's' else 'unsigned')), runs
    return None, leaves


def check_inrange(ck, u, name, kind_, W, tag, ip=None):
    """accepted set of bf_inrange_*: decided in the bit domain (any loop-free shape), and for the comparison shape
    also extracted as an interval"""
    rule = 'C15.inrange'
    if ip is not None:
        f_ = u.fn(name)
        pti_ = bitdom.type_info(cast.qual_type(u.params(name)[0]))
        try:
            d, n = inrange_bits(ip, name, kind_, W, pti_[0], pti_[1])
        except Unsupported as e:
            d, n = None, None
            bits_broken = str(e)
        if n is not None:
            return ck.verdict(d is None, rule, name + tag, cast.where(f_),
                              d or 'accepts exactly the %d-bit %s range (%d cases partition the %d-bit argument)' % (
                                  W, 'signed' if kind_ == 's' else 'unsigned', n, pti_[0]))
    f = u.fn(name)
    where = cast.where(f)
    key = name + tag
    body = u.body(name)
    consts = {}
    param = u.params(name)[0]
    pti = bitdom.type_info(cast.qual_type(param))
    pw, psigned = pti[0], pti[1]
    lo, hi = (-(1 << (pw - 1)), (1 << (pw - 1)) - 1) if psigned else (0, (1 << pw) - 1)

    def cval(n):
        n = cast.strip_all_casts(n)
        if cast.kind(n) == 'DeclRefExpr' and n['referencedDecl']['id'] in consts:
            return consts[n['referencedDecl']['id']]
        k = cast.kind(n)
        if k == 'BinaryOperator':
            a, b = cval(n['inner'][0]), cval(n['inner'][1])
            if a is None or b is None:
                return None
            op = n['opcode']
            if op == '<<':
                return a << b if 0 <= b < 128 else None
            return {'*': a * b, '+': a + b, '-': a - b}.get(op)
        if k == 'UnaryOperator' and n['opcode'] == '-':
            a = cval(n['inner'][0])
            return None if a is None else -a
        return u.const_value(n)

    def is_param(n):
        n = cast.strip_all_casts(n)
        return cast.kind(n) == 'DeclRefExpr' and n['referencedDecl']['id'] == param['id']

    def conv_ok(n):
        """operand conversions must be value preserving for the parameter"""
        while cast.kind(n) in ('ParenExpr',):
            n = n['inner'][0]
        t = bitdom.type_info(cast.qual_type(n))
        if not t or len(t) != 3:
            return False
        if psigned:
            return t[1] and t[0] >= pw
        return t[0] >= pw        # unsigned param: any wider type keeps the value; same width signed would not
    ret = None
    for s in cast.inner(body):
        if cast.kind(s) == 'DeclStmt':
            for d in cast.inner(s):
                v = cval(d['inner'][0]) if d.get('inner') else None
                if v is None:
                    return ck.broken(rule, key, where, 'non-constant local')
                # conversion to the declared type
                ti = bitdom.type_info(cast.qual_type(d))
                v &= (1 << ti[0]) - 1
                if ti[1] and v >> (ti[0] - 1):
                    v -= 1 << ti[0]
                consts[d['id']] = v
        elif cast.kind(s) == 'ReturnStmt':
            ret = s['inner'][0]
    if ret is None:
        return ck.broken(rule, key, where, 'no return')

    def conj(n):
        n = cast.strip_all_casts(n)
        if cast.kind(n) == 'BinaryOperator' and n['opcode'] == '&&':
            return conj(n['inner'][0]) + conj(n['inner'][1])
        return [n]
    for c in conj(ret):
        if cast.kind(c) != 'BinaryOperator' or c['opcode'] not in ('<', '<=', '>', '>='):
            return ck.broken(rule, key, where, 'return is not a conjunction of comparisons')
        a, b = c['inner']
        op = c['opcode']
        if is_param(b):
            a, b = b, a
            op = {'<': '>', '>': '<', '<=': '>=', '>=': '<='}[op]
        if not is_param(a):
            return ck.broken(rule, key, where, 'comparison does not involve the parameter')
        if not conv_ok(a):
            return ck.violation(rule, key, where, 'parameter is converted to a type that does not preserve its value before comparing')
        v = cval(b)
        if v is None:
            return ck.broken(rule, key, where, 'non-constant bound')
        if not psigned and not bitdom.type_info(cast.qual_type(b))[1] and v < 0:
            v += 1 << bitdom.type_info(cast.qual_type(b))[0]
        if op == '<':
            hi = min(hi, v - 1)
        elif op == '<=':
            hi = min(hi, v)
        elif op == '>':
            lo = max(lo, v + 1)
        else:
            lo = max(lo, v)
    want = (0, (1 << W) - 1) if kind_ == 'u' else (-(1 << (W - 1)), (1 << (W - 1)) - 1)
    ok = (lo, hi) == want
    return ck.verdict(ok, rule, key, where,
                      'accepts exactly [%d, %d]' % (lo, hi) if ok else
                      'accepts [%d, %d], the %d-bit %s range is [%d, %d]' % (
                          lo, hi, W, 'signed' if kind_ == 's' else 'unsigned', want[0], want[1]))


def bytes_only(ck, u, names, tag):
    """alignment independence: no access wider than unsigned char through a
    pointer derived from the ptr parameter (all loads/stores are octet-wise)."""
    rule = 'C15.octetwise'
    for name in names:
        params = u.params(name)
        if not params or '*' not in cast.qual_type(params[0]):
            continue
        body = u.body(name)
        bad = None
        for n in cast.walk(body):
            k = cast.kind(n)
            if k in ('ArraySubscriptExpr',) or (k == 'UnaryOperator' and n.get('opcode') == '*'):
                qt = cast.qual_type(n).replace('const ', '')
                if qt not in ('unsigned char', 'char', 'signed char'):
                    bad = (n, qt)
                    break
        ck.verdict(bad is None, rule, name + tag, cast.where(u.fn(name)),
                   'all memory accesses are octet-wide' if bad is None else
                   'access of type %s at %s' % (bad[1], cast.where(bad[0])))


def run_config(ck, variant, tag):
    host_big = bool(variant and variant.get('big_endian'))
    ilp32 = bool(variant and variant.get('ilp32'))
    if ilp32:
        # a 32-bit target (long and pointers 32 bits wide): the hosted units cannot be parsed with -m32 here (no 32-bit libc
        # headers), the header alone can - it needs the compiler's own freestanding headers only
        u = cast.load(UNIT, {k: v for k, v in variant.items() if k != 'ilp32'} | {'extra': ['-m32', '-ffreestanding']},
                      source_text='#include <ufw/binary-format.h>\n')
        saved = {k: bitdom.TYPE_INFO[k] for k in ('long', 'unsigned long')}
        bitdom.TYPE_INFO['long'], bitdom.TYPE_INFO['unsigned long'] = (32, True, False), (32, False, False)
        try:
            return _run_config(ck, u, host_big, tag)
        finally:
            bitdom.TYPE_INFO.update(saved)
    u = cast.load(UNIT, variant)
    return _run_config(ck, u, host_big, tag)


def _run_config(ck, u, host_big, tag):
    ck.unit(UNIT + tag)
    names = [n for n in u.functions_in_file('binary-format.h') if n.startswith('bf_')]
    # helpers newer than the confirmed function table have no specification of their own: they are judged through the
    # codecs that call them (the interpreter follows calls)
    newer = [n for n in names if n not in sym.KNOWN_FUNCTIONS()]
    if newer:
        ck.notes.append('helpers without a specification of their own, interpreted inside their callers: %s' % ', '.join(sorted(newer)))
    names = [n for n in names if n not in newer]
    ck.floor('C15.codec', 'bf_* functions in binary-format.h' + tag, len(names), FLOOR)
    ip = bitdom.Interp(u, big_endian=host_big)
    for name in sorted(names):
        ck.function(name)
        check_function(ck, ip, u, name, host_big, tag)
    bytes_only(ck, u, [n for n in names if re.match(r'bf_(ref|set)_', n)], tag)
    return names


def run(ck):
    ck.level = 'proof'
    ck.rule('C15.codec', 'GF(2)-affine bit-provenance summary of every bf_swap*/bf_ref_*/bf_set_* function '
            'equals its specification (lane map, zero/sign extension, exact octet footprint, returned pointer) for ALL inputs')
    ck.rule('C15.inrange', 'every bf_inrange_* accepts exactly the representable range: decided in the bit domain under an exact case partition of the argument (any loop-free shape); comparison shapes outside the domain fall back to interval extraction')
    ck.rule('C15.octetwise', 'every access through the pointer parameter is octet-wide (alignment independent)')
    ck.trusted_base = ['clang 14 front end/JSON AST', 'ufwsa.bitdom transfer functions (exact GF(2)-affine domain)',
                       'model: two\'s complement, CHAR_BIT=8, floats as bit patterns']
    ck.assumptions += ['host endianness as configured by the build (-DSYSTEM_ENDIANNESS_*); '
                       'the big-endian and no-builtin-swap variants of the header are analysed as well (all four combinations)',
                       'floats are IEEE bit patterns moved through unions (no arithmetic on them)']
    run_config(ck, None, '')
    # the sources carry variants the pinned build never compiles (and its tests therefore never run): a big-endian host and
    # the portable swap fallbacks used without UFW_USE_BUILTIN_SWAP (a consumer of the header that does not inherit the
    # library's define gets those).  They are parsed and proved on every run, in both tiers.
    if True:
        run_config(ck, {'big_endian': True}, '@big')
        run_config(ck, {'no_builtin_swap': True}, '@noswap')
        run_config(ck, {'big_endian': True, 'no_builtin_swap': True}, '@big-noswap')
        run_config(ck, {'ilp32': True}, '@ilp32')
        run_config(ck, {'ilp32': True, 'no_builtin_swap': True}, '@ilp32-noswap')
