"""C17 Endpoints move exactly N octets in order whatever the driver does.

Decided structurally (necessary conditions, for every driver behaviour because
the driver result is a free symbol): the transfer-position invariant of every
retry loop, the retry policy, argument guards, single-shot at-most variants and
the count bookkeeping of the source-to-sink plumbing.  Not decided: order and
no-duplication over whole driver scripts as such (they follow from the
invariant by induction)."""
from .. import cast, sym, lin, front
from .common import distinct_enums
from ..sym import C, fmt, linearize as L
from ..lin import Lin

UNIT = 'src/endpoints/core.c'
EINTR, EAGAIN, EINVAL = -4, -11, -22

# callee -> (index of position argument, index of count argument or None)
TRANSFER = {
    'source.chunk': (1, 2), 'sink.chunk': (1, 2),
    'source_adapt': (2, 3), 'sink_adapt': (2, 3),
    'source_adapt_atmost': (2, 3), 'sink_adapt_atmost': (2, 3),
    'source': (1, None), 'sink': (1, None),
    'source.octet': (1, None), 'sink.octet': (1, None),
}


def strip_cast(t):
    while t is not None and t[0] == 'cast':
        t = t[2]
    return t


def position(t):
    """pointer argument or by-value element: base + index"""
    if t[0] == 'i':
        return sym.add(t[1], t[2])
    if t[0] == 'cast':
        return position(t[2])
    return t


def transfer_calls(p):
    return [e for e in p.effects if e.kind in ('call', 'icall') and e.name in TRANSFER]


def remaining_var(lmap, total, selfref=None):
    """([key], counts_up) of the loop variable that keeps the account of a transfer loop"""
    # only what the loop really carries from one iteration to the next (a status preset to 0 that is set just before the
    # loop is left keeps its value at the loop head and is no account)
    down = [k for k, (h, pre) in lmap.items() if pre is not None and strip_cast(pre) == total and h[0] == 'h']
    if down:
        return down, False
    upv = [k for k, (h, pre) in lmap.items() if pre is not None and strip_cast(pre) == C(0) and h[0] == 'h' and k[0] == 'v']
    if len(upv) > 1 and selfref is not None:
        # an account is updated from its own value (done += moved); a variable that merely receives each step's result is none
        upv = [k for k in upv if k in selfref] or upv
    return upv, True


def retry_loop_rule(ck, u, eng, fname, paths, base_param, total_param):
    """position invariant + retry policy of a `while (rest > 0)` transfer loop"""
    where = cast.where(u.fn(fname))
    base = ('v', base_param)
    total = ('v', total_param)
    iters = [p for p in paths if p.loops and (p.end == 'loopback' or (p.end == 'return' and transfer_calls(p)))]
    exits = [p for p in paths if p.end == 'return' and p.loops and not transfer_calls(p)]
    if not any(p.loops for p in paths):
        return ck.broken('C17.b', fname, where, 'no retry loop recognised')
    # every path that moves octets goes through the retry loop: a path around it hands the driver's raw answer
    # (0, -EINTR, -EAGAIN, a short count) to a caller that was promised all N octets or a hard error
    for p in paths:
        if p.loops or p.end != 'return':
            continue
        calls = [e for e in p.effects if e.kind in ('call', 'icall')]
        rv = strip_cast(p.ret) if p.ret is not None else None
        if calls or not (rv is not None and sym.is_c(rv) and rv[1] < 0):
            ck.violation('C17.c', fname + ':bypass', cast.where(calls[0].node) if calls else where,
                         'the path {%s} returns %s without entering the retry loop%s: zero-length returns and -EINTR/-EAGAIN of the driver reach the caller, who was promised exactly %s octets'
                         % ('; '.join(fmt(c) for c in p.cond_terms())[:160], fmt(p.ret) if p.ret else None,
                            ' (it calls %s)' % calls[0].name if calls else '', total_param))
            return
    if not iters:
        return ck.violation('C17.b', fname + ':never-runs', where,
                            'the transfer loop can never be entered (its condition is false for every count): the function reports %s octets moved without calling the driver' % total_param)
    if not exits:
        return ck.violation('C17.a', fname + ':complete', where,
                            'the transfer loop has no exit for a completed request: after the last octet the driver is called again with nothing left to move')
    nprog = nretry = nerr = norem = 0
    selfref = None
    for q in paths:
        if q.end == 'loopback' and q.loops:
            cur = set(k for k, (h, pre) in q.loops[-1][1].items() if sym.contains(q.mem.get(k, h), h))
            selfref = cur if selfref is None else (selfref & cur)
    for p in iters:
        tc = transfer_calls(p)
        if len(tc) != 1:
            ck.violation('C17.b', fname + ':calls', where, '%d transfer calls in one iteration (expected 1): %s' % (len(tc), p.describe()))
            continue
        e = tc[0]
        pi, ci = TRANSFER[e.name]
        lmap = p.loops[-1][1]
        # the account of the loop: a loop-carried variable that starts at the requested count and runs down (what
        # remains), or one that starts at 0 and runs up (what is done; remaining = total - done)
        rem, up = remaining_var(lmap, total, selfref)
        if len(rem) != 1:
            unchanged = all(strip_cast(p.mem.get(k, h)) == h for k, (h, pre) in lmap.items() if pre is not None)
            if p.end == 'loopback' and unchanged and eng.entails(p, -L(e.result)):
                ck.violation('C17.c', fname + ':progress', where,
                             'a successful transfer changes nothing in the loop state: the remaining count is never reduced, the same region is transferred again and again')
                return
            norem += 1
            continue
        rk = rem[0]
        h_r = lmap[rk][0]
        R = (L(total) - L(h_r)) if up else L(h_r)                  # octets that remain at the loop head
        pos = position(e.args[pi])
        facts = eng.path_facts(p)
        # base case: position with loop variables at their pre-loop values == base
        pre_sub = {h: pre for k, (h, pre) in lmap.items() if pre is not None}
        pos0 = sym.substitute(pos, pre_sub)
        d0 = L(pos0) - L(base)
        ok0 = d0.is_const() and d0.c == 0
        if not ok0:
            ck.violation('C17.b', fname + ':start', e.where(), 'first transfer is at %s, not at the start of the caller\'s region %s' % (fmt(pos0), base_param))
        # count never exceeds what remains
        if ci is not None:
            okc = eng.entails(facts, L(e.args[ci]) - R)
            ck.verdict(okc, 'C17.b', '%s:%s:count' % (fname, e.name), e.where(),
                       'asks the driver for at most the remaining count' if okc else
                       'asks the driver for %s octets while %s remain' % (fmt(e.args[ci]), R))
        res = e.result
        if p.end == 'return':
            # hard error: returned unchanged under res < 0
            nerr += 1
            rv = strip_cast(p.ret)
            neg = eng.entails(p, L(res) + 1)
            ck.verdict(rv == res and neg, 'C17.c', '%s:%s:error' % (fname, e.name), e.where(),
                       'negative driver result other than EINTR/EAGAIN is returned unchanged' if rv == res and neg else
                       'loop exit returns %s under {%s}' % (fmt(p.ret), '; '.join(fmt(c) for c in p.cond_terms()[-3:])))
            # a retry signal must never leave the loop: octets may already have been moved in
            # earlier iterations, and every caller that sees -EINTR/-EAGAIN starts the request again
            leak = [nm for nm, v in (('-EINTR', EINTR), ('-EAGAIN', EAGAIN))
                    if eng.feasible(p.cond_terms() + [('cmp', '==', res, C(v)), ('cmp', '<', C(0), h_r) if up else ('cmp', '<', h_r, total)])]
            ck.verdict(not leak, 'C17.c', '%s:%s:no-retry-signal-escapes' % (fname, e.name), e.where(),
                       'the loop never returns -EINTR/-EAGAIN (it retries them in place, at the current position)' if not leak else
                       '%s from the driver is returned out of the loop after earlier iterations may have moved octets; callers '
                       'retry the whole request on it, so those octets are transferred twice' % '/'.join(leak))
            continue
        # loopback: either retry (counter unchanged) or progress (counter reduced by result)
        r_after = p.mem.get(rk, h_r)
        moved = (L(r_after) - L(h_r)) if up else (L(h_r) - L(r_after))
        post_sub = {h: p.mem.get(k, h) for k, (h, pre) in lmap.items()}
        pos1 = sym.substitute(pos, post_sub)
        adv = L(pos1) - L(pos)
        if moved.is_const() and moved.c == 0:
            nretry += 1
            retry_ok = any(c == ('cmp', '==', res, C(EINTR)) or c == ('cmp', '==', res, C(EAGAIN)) for c in p.cond_terms())
            nonneg = any(c == ('cmp', '<=', C(0), res) for c in p.cond_terms())
            ck.verdict(retry_ok and not nonneg, 'C17.c', '%s:%s:retry' % (fname, e.name), e.where(),
                       'iteration repeats without progress only for -EINTR/-EAGAIN' if retry_ok else
                       'iteration repeats without progress under {%s}' % '; '.join(fmt(c) for c in p.cond_terms()[-3:]))
            okp = adv.is_const() and adv.c == 0
            if not okp:
                ck.violation('C17.b', '%s:%s:retry-pos' % (fname, e.name), e.where(), 'position moves by %s on a retry' % adv)
            continue
        nprog += 1
        if not eng.entails(facts, -L(res)):
            ck.violation('C17.c', '%s:%s:negative-progress' % (fname, e.name), e.where(),
                         'the remaining count is changed by the driver result on a path where that result may be negative ({%s}): a retry signal makes the '
                         'remaining count GROW, the next transfer starts in front of the caller\'s region and more octets than requested are moved'
                         % '; '.join(fmt(c) for c in p.cond_terms()[-3:]))
        okm = (moved - L(res)).is_const() and (moved - L(res)).c == 0
        ck.verdict(okm, 'C17.c', '%s:%s:progress' % (fname, e.name), e.where(),
                   'remaining count decreases by exactly the driver\'s result' if okm else
                   'remaining count decreases by %s, driver moved %s' % (moved, fmt(res)))
        oka = (adv - moved).is_const() and (adv - moved).c == 0
        ck.verdict(oka and ok0, 'C17.b', '%s:%s:advance' % (fname, e.name), e.where(),
                   'transfer position %s advances in step with the moved count (start at %s)' % (fmt(pos), base_param) if oka and ok0 else
                   'after %s octets moved the next transfer is again at %s: position advances by %s, not by the moved count (octets are overwritten / re-sent)'
                   % (fmt(res), fmt(pos1), adv))
    if norem:
        return ck.broken('C17.b', fname + ':counter', where, 'cannot identify the remaining-count variable')
    for p in exits:
        lmap = p.loops[-1][1]
        rem, up = remaining_var(lmap, total, selfref)
        if len(rem) == 1:
            z = (L(total) - L(lmap[rem[0]][0])) if up else L(lmap[rem[0]][0])
            done = eng.entails(p, z) and eng.entails(p, -z)
            ck.verdict(done, 'C17.a', fname + ':exit-complete', cast.where(p.node) if p.node else where,
                       'the loop is left only when nothing remains' if done else
                       'the loop is left under {%s}, where the remaining count may still be positive: the function reports %s octets but moved fewer'
                       % ('; '.join(fmt(c) for c in p.cond_terms()[-2:]), total_param))
        rv = strip_cast(p.ret)
        ok = rv == total
        ck.verdict(ok, 'C17.a', fname + ':complete', cast.where(p.node) if p.node else where,
                   'returns the requested count on completion' if ok else
                   'returns %s on completion, expected the requested count %s' % (fmt(p.ret), total_param))
    ck.floor('C17.b', fname + ' progress iterations', nprog, 1)
    ck.floor('C17.c', fname + ' retry/error iterations', nretry + nerr, 2)


def run(ck):
    ck.rule('C17.w', 'no transfer count passes through an object narrower than ssize_t (return types and locals of endpoints/core.c): counts beyond INT_MAX are reported as they are')
    ck.rule('C17.a', 'source_adapt / sink_adapt / *_chunk return the requested count on completion (siblings agree)')
    ck.rule('C17.b', 'transfer-position invariant of every retry loop: first transfer at the start of the caller\'s region, position advances by exactly the moved count, never asks for more than remains, unchanged on retry')
    ck.rule('C17.c', 'retry policy: repeat without progress only on -EINTR/-EAGAIN, other negative results returned unchanged, remaining count reduced by exactly the driver result')
    ck.rule('C17.d', 'n == 0 or n > SSIZE_MAX is refused with -EINVAL before any driver call')
    ck.rule('C17.e', 'at-most variants perform exactly one driver-path call, contain no loop and return its result')
    ck.rule('C17.f', 'plumbing counts: what is put equals what was got, bounded by the request and by the auxiliary region; counted loops subtract the moved count and return n; drains stop at the first negative result and return it')
    ck.rule('C17.h', 'kind / union-member agreement: constructors set kind and the matching driver member; every use of .octet/.chunk lies behind the matching test of kind')
    ck.rule('C17.j', 'source_get_octet / sink_put_octet are one-shot: one driver call per request through the member matching the kind, the driver\'s answer returned unchanged (no retry, no adaptor)')
    ck.rule('C17.i', 'descriptor drivers (endpoints/posix.c): the system call gets the rest of the caller\'s chunk; an error (or end of file) is answered only when no octet was moved in this call')
    ck.rule('C17.g', 'buffer drivers delegate to byte_buffer_consume_at_most / byte_buffer_add with unchanged arguments')
    ck.not_decided += ['order / no duplication over whole driver scripts as such (induction over the position invariant)',
                       'sts_atmost_via_sink/_via_source buffer-extension paths beyond their count bounds']
    ck.assumptions += ['driver results are free symbols (any partial count, zero, EINTR, EAGAIN, hard error)',
                       'a driver returns at most the count it was asked for']
    u = cast.load(UNIT)
    ub = cast.load('src/byte-buffer.c')
    ck.unit(UNIT)
    so = sym.unit_sizeofs(UNIT, u)
    eng = sym.Engine(u, sizeof=so, inline={'once_source_get_chunk', 'once_sink_put_chunk', 'byte_buffer_rest'},
                     other_units=[ub])
    eng.record_loads = True
    P = {}
    for fn in ('source_adapt', 'sink_adapt', 'source_get_chunk', 'sink_put_chunk',
               'source_get_chunk_atmost', 'sink_put_chunk_atmost', 'sts_cbc', 'sts_n_cbc', 'sts_drain_cbc',
               'sts_some_aux', 'sts_n_aux', 'sts_drain_aux', 'sts_n', 'sts_drain'):
        ck.function(fn)
        if u.fn(fn) is None:
            ck.broken('C17.b', fn, '', 'function missing')
            continue
        try:
            P[fn] = eng.paths(fn)
        except (sym.Unsupported, sym.PathLimit) as e:
            ck.broken('C17.b', fn, cast.where(u.fn(fn)), 'path enumeration: %s' % e)
    ck.analysed['paths'] += sum(len(v) for v in P.values())
    for fn, basep, totp in (('source_adapt', 'buf', 'n'), ('sink_adapt', 'buf', 'n'),
                            ('source_get_chunk', 'buf', 'n'), ('sink_put_chunk', 'buf', 'n')):
        if fn in P:
            retry_loop_rule(ck, u, eng, fn, P[fn], basep, totp)
    rule_d(ck, u, eng, P)
    rule_internal_counts(ck, u, ub, so)
    rule_widths(ck, u, ub, so)
    rule_e(ck, u, eng, P)
    rule_f(ck, u, ub, so, P, eng)
    rule_ext(ck, u, ub, so)
    rule_aux_descriptor(ck, u, sym.Engine(u, sizeof=so, inline=set(), other_units=[ub]))
    rule_atmost(ck, u, sym.Engine(u, sizeof=so, inline={'channel_has_buffer_ext'}, other_units=[ub]))
    rule_g(ck)
    rule_fd_drivers(ck)
    rule_one_shot_octet(ck)
    rule_trivial(ck)
    rule_h(ck, u, so, ub)


def rule_d(ck, u, eng, P):
    try:
        ssize_max = front.probe_values(UNIT, ['SSIZE_MAX'])[0]
    except front.FrontError as e:
        return ck.broken('C17.d', 'SSIZE_MAX', '', str(e))
    for fn in ('source_get_chunk', 'sink_put_chunk'):
        if fn not in P:
            continue
        where = cast.where(u.fn(fn))
        n = ('v', 'n')
        bad = None
        nref = 0
        for p in P[fn]:
            tc = transfer_calls(p)
            facts = eng.path_facts(p)
            if tc:
                if not (eng.entails(facts, Lin.const(1) - L(n)) and eng.entails(facts, L(n) - ssize_max)):
                    bad = 'driver reached without 1 <= n <= SSIZE_MAX established: %s' % p.describe()
            elif p.ret is not None and p.ret[0] == 'c' and p.ret[1] < 0:
                nref += 1
                if p.ret[1] != EINVAL:
                    bad = 'refusal returns %d, expected -EINVAL' % p.ret[1]
                if eng.feasible(p.cond_terms(), [Lin.const(1) - L(n), L(n) - ssize_max]):
                    bad = 'refuses a valid count: %s' % p.describe()
        if nref < 2 and bad is None:
            bad = 'expected refusing paths for n == 0 and n > SSIZE_MAX, found %d' % nref
        ck.verdict(bad is None, 'C17.d', fn, where,
                   'n == 0 and n > SSIZE_MAX (%d) are refused with -EINVAL before any driver call, nothing else is' % ssize_max
                   if bad is None else bad)


def rule_internal_counts(ck, u, ub, so):
    """C17.d (callers inside the module): the exact calls refuse a count of 0 with -EINVAL, so no plumbing function may hand
    them a count that can be 0 - a zero-length delivery of a driver ("nothing moved, ask again") would surface as an
    invalid-argument error in the middle of a transfer."""
    eng = sym.Engine(u, sizeof=so, inline={'byte_buffer_rest'}, other_units=[ub])
    n = 0
    for fn in sorted(f for f in u.functions_in_file('endpoints/core.c') if u.body(f) is not None):
        body = u.body(fn)
        if fn in ('source_get_chunk', 'sink_put_chunk') or \
                not any(cast.callee_name(c) in ('source_get_chunk', 'sink_put_chunk') for c in cast.calls_in(body)):
            continue
        try:
            ps = eng.paths(fn)
        except (sym.Unsupported, sym.PathLimit) as e:
            ck.broken('C17.d', fn + ':counts', cast.where(u.fn(fn)), str(e))
            continue
        bad = None
        for p in ps:
            for e in p.calls():
                if e.name not in ('source_get_chunk', 'sink_put_chunk'):
                    continue
                n += 1
                # facts known when the call is made: conditions on its own result come later
                facts = eng.path_facts([c for c in p.cond_terms() if not sym.contains(c, e.result)])
                # a buffer handed out by an endpoint's extension is a byte buffer: offset <= used <= size (C18)
                for x in sym.subterms(e.args[2]):
                    if x[0] == 'fv' and x[2] in ('used', 'offset', 'size'):
                        o_, u_, s_ = (('fv', x[1], k) for k in ('offset', 'used', 'size'))
                        facts += [lin.le(L(o_), L(u_)), lin.le(L(u_), L(s_))]
                if not eng.entails(facts, Lin.const(1) - L(strip_cast(e.args[2]))):
                    bad = bad or ('%s is called with the count %s, which can be 0 under {%s}: the call refuses 0 with -EINVAL, so a driver\'s '
                                  'zero-length delivery ends the transfer with an invalid-argument error'
                                  % (e.name, fmt(e.args[2]), '; '.join(fmt(c) for c in p.cond_terms() if not sym.contains(c, e.result))[-200:]))
        ck.verdict(bad is None, 'C17.d', fn + ':counts', cast.where(u.fn(fn)),
                   'every exact get/put it makes has a count known to be >= 1' if bad is None else bad)
    ck.floor('C17.d', 'internal exact get/put calls examined', n, 3)


def rule_widths(ck, u, ub, so):
    """C17.w counts keep their width: the count a transfer function reports travels as ssize_t; a function (or local) of a
    narrower type on its way cuts counts beyond INT_MAX - the caller subtracts the wrong amount and keeps pulling octets
    out of the source after the request is complete."""
    eng = sym.Engine(u, sizeof=so, inline={'byte_buffer_rest'}, other_units=[ub])
    wide = {n for n, f in u.functions.items() if cast.qual_type(f).split('(')[0].strip() in ('ssize_t', 'long', 'size_t', 'unsigned long')}
    nfn = 0
    for fn in sorted(f for f in u.functions_in_file('endpoints/core.c') if u.body(f) is not None):
        try:
            ps = eng.paths(fn)
        except (sym.Unsupported, sym.PathLimit):
            continue
        nfn += 1
        bad = None
        for p in ps:
            terms = ([p.ret] if p.ret is not None else []) + [a for e in p.effects if e.kind in ('call', 'icall') for a in e.args if isinstance(a, tuple)]
            for t in terms:
                for x in sym.subterms(t):
                    if x[0] == 'cast' and x[1] in eng.INT_MAX_OF and not sym.is_c(x[2]):
                        src = [y for y in sym.subterms(x[2]) if y[0] == 'call' and (y[1] in wide or y[1] in ('source.chunk', 'sink.chunk'))]
                        if not src:
                            continue
                        facts = eng.path_facts(p)
                        # (stated assumption of this property: a driver reports at most the count it was asked for)
                        for y in src:
                            if y[1] in ('source.chunk', 'sink.chunk') and len(y[2]) >= 3:
                                facts.append(L(y) - L(strip_cast(y[2][2])))
                        mx = eng.INT_MAX_OF[x[1]]
                        if not eng.entails(facts, L(x[2]) - mx):
                            bad = bad or ('the count %s passes through an object of type %s: a single step that moves more than %d octets is reported truncated, '
                                          'and counted loops built on it move more than was asked for' % (fmt(x[2])[:120], x[1], mx))
        ck.verdict(bad is None, 'C17.w', fn, cast.where(u.fn(fn)), 'counts are handed on at full width' if bad is None else bad)
    ck.floor('C17.w', 'functions of endpoints/core.c examined', nfn, 15)


def rule_e(ck, u, eng, P):
    """at-most variants: one driver-path call with (buf, n) whose result is returned; for an octet-style driver that path is
    an adaptor loop, and "return the count actually moved" then means: a driver error after k >= 1 octets yields k, the
    error itself only when nothing was moved (decided on the adaptor: rule_atmost_adaptor)"""
    for fn, adaptor in (('source_get_chunk_atmost', 'source_adapt_atmost'), ('sink_put_chunk_atmost', 'sink_adapt_atmost')):
        if fn not in P:
            continue
        f = u.fn(fn)
        where = cast.where(f)
        loops = [x for x in cast.walk(f) if cast.kind(x) in ('WhileStmt', 'ForStmt', 'DoStmt', 'GotoStmt')]
        bad = None
        if loops:
            bad = 'contains a loop'
        for p in P[fn]:
            tc = transfer_calls(p)
            if len(tc) != 1:
                bad = '%d driver-path calls on one path' % len(tc)
            elif strip_cast(p.ret) != tc[0].result:
                bad = 'does not return the driver-path result'
            else:
                pi, ci = TRANSFER[tc[0].name]
                if tc[0].args[pi] != ('v', 'buf') or tc[0].args[ci] != ('v', 'n'):
                    bad = 'driver path called with (%s, %s), expected (buf, n)' % (fmt(tc[0].args[pi]), fmt(tc[0].args[ci]))
                if tc[0].name in ('source_adapt', 'sink_adapt'):
                    bad = bad or ('an octet-style driver is served by the exact adaptor %s: a driver error after k >= 1 octets is returned bare, the k octets already '
                                  'moved are not reported (they vanish for the caller; a drain through a window loses the tail of an octet source)' % tc[0].name)
        ck.verdict(bad is None, 'C17.e', fn, where,
                   'exactly one driver-path call with (buf, n), result returned; octet drivers through the at-most adaptor' if bad is None else bad)
        rule_atmost_adaptor(ck, u, eng, adaptor)


def rule_atmost_adaptor(ck, u, eng, fname):
    """the at-most adaptor over an octet driver: same position / retry discipline as the exact one (C17.b, C17.c), but on a
    negative driver result other than the retry signals it returns Moved = n - remaining when that is >= 1 and the error
    unchanged when nothing was moved"""
    if u.fn(fname) is None:
        return ck.broken('C17.e', fname, '', 'at-most adaptor missing')
    where = cast.where(u.fn(fname))
    try:
        ps = eng.paths(fname)
    except (sym.Unsupported, sym.PathLimit) as e:
        return ck.broken('C17.e', fname, where, str(e))
    ck.analysed['paths'] += len(ps)
    n_ = ('v', 'n')
    bad = None
    nerr = nprog = nretry = ndone = 0
    for p in ps:
        if not p.loops:
            if p.end == 'return' and p.ret is not None:
                bad = bad or 'a path returns %s without entering the transfer loop' % fmt(p.ret)
            continue
        lmap = p.loops[-1][1]
        rem = [(k, h) for k, (h, pre) in lmap.items() if pre == n_]
        up = [(k, h) for k, (h, pre) in lmap.items() if pre == C(0)]
        facts = eng.path_facts(p)
        if len(rem) == 1:
            rk, h_r = rem[0]
            moved = L(n_) - L(h_r)                      # countdown from n
            left = lambda v: L(v)
        elif len(up) == 1:
            rk, h_r = up[0]
            moved = L(h_r)                              # count of octets moved, from 0
            left = lambda v: L(n_) - L(v)
            facts = facts + [lin.le(L(h_r), L(n_))]     # inductive: 0 <= n; a step needs moved < n and moves at most what it asked for (1)
        else:
            return ck.broken('C17.e', fname, where, 'cannot identify the variable that counts the octets (neither a countdown from n nor a count from 0)')
        if len(rem) != 1 and not eng.feasible(p.cond_terms(), [lin.le(L(h_r), L(n_))]):
            continue                                    # excluded by the inductive bound (moved <= n)
        tc = transfer_calls(p)
        if not tc:
            if p.end == 'return':
                ndone += 1
                if not (eng.entails(facts, left(h_r)) and eng.entails(facts, -left(h_r))) or strip_cast(p.ret) != n_:
                    bad = bad or 'the loop is left with octets remaining, or the completed request does not return n'
            continue
        if len(tc) != 1:
            bad = bad or '%d driver calls in one iteration' % len(tc)
            continue
        r = tc[0].result
        pos = position(tc[0].args[TRANSFER[tc[0].name][0]])
        d = L(pos) - (L(('v', 'buf')) + moved)
        if not (d.is_const() and d.c == 0) and not eng.entails(facts, d) :
            bad = bad or 'the driver is given position %s, expected buf + (n - remaining)' % fmt(pos)
        if p.end == 'return':
            nerr += 1
            if not eng.entails(facts, L(r) + 1):
                bad = bad or 'returns from inside the loop although the driver did not fail'
            if eng.feasible(p.cond_terms(), [L(r) - EINTR, -L(r) + EINTR]) or eng.feasible(p.cond_terms(), [L(r) - EAGAIN, -L(r) + EAGAIN]):
                bad = bad or 'a retry signal leaves the loop'
            some = eng.entails(facts, Lin.const(1) - moved)
            none = eng.entails(facts, moved)
            ret = strip_cast(p.ret)
            if some:
                dm = L(ret) - moved
                if not (dm.is_const() and dm.c == 0):
                    bad = bad or 'after %s octets moved the error exit returns %s, expected the count moved' % (moved, fmt(p.ret))
            elif none:
                if ret != r:
                    bad = bad or 'with nothing moved the error exit returns %s, expected the driver\'s error' % fmt(p.ret)
            else:
                bad = bad or ('the error exit {%s} does not distinguish "octets already moved" from "nothing moved": it returns %s in both cases, so either moved octets '
                              'go unreported or an error is reported as a count' % ('; '.join(fmt(c) for c in p.cond_terms()[-3:]), fmt(p.ret)))
            continue
        after = p.mem.get(rk, h_r)
        mv = left(h_r) - left(after)
        if mv.is_const() and mv.c == 0:
            nretry += 1
            if not any(c == ('cmp', '==', r, C(EINTR)) or c == ('cmp', '==', r, C(EAGAIN)) for c in p.cond_terms()):
                bad = bad or 'repeats without progress under {%s}' % '; '.join(fmt(c) for c in p.cond_terms()[-3:])
        else:
            nprog += 1
            dd = mv - L(r)
            if not (dd.is_const() and dd.c == 0):
                bad = bad or 'remaining count decreases by %s, driver moved %s' % (mv, fmt(r))
    if bad is None and not (nerr >= 2 and nprog >= 1 and nretry >= 1 and ndone >= 1):
        bad = 'expected error exits for both cases, a progress, a retry and a completion path (found %d/%d/%d/%d)' % (nerr, nprog, nretry, ndone)
    ck.verdict(bad is None, 'C17.e', fname, where,
               'octet driver at most n: position buf + moved, retries only on the retry signals, on a driver error returns the count moved when >= 1 and the error when 0, n on completion'
               if bad is None else bad)


def rule_f(ck, u, ub, so, P, engf):
    where = lambda fn: cast.where(u.fn(fn))

    def eng_is_bool(k):
        return (engf.types.get(k) or '').replace('const ', '').strip() in ('_Bool', 'bool')
    # sts_cbc: one octet from the source to the sink.  The one-shot octet calls hand the driver's result through, and a
    # driver may answer 0 ("nothing moved, ask again", see the contract at the top of core.c): the local octet is written
    # only when the result is >= 1, and the sink has taken it only when its result is >= 1.  The exact chunk calls with a
    # count of 1 retry by themselves and answer 1 or a negative error (C17.a / C17.c).
    if 'sts_cbc' in P:
        bad = None
        GET = {'source_get_octet': None, 'source_get_chunk': 2}
        PUT = {'sink_put_octet': None, 'sink_put_chunk': 2}

        def delivered(p, e, table):
            """is the call known to have moved its one octet on this path?"""
            ca = table[e.name]
            if ca is not None:
                # exact call: non-negative result == requested count, which has to be 1
                return e.args[ca] == C(1) and engf.entails(engf.path_facts(p), -L(e.result))
            return engf.entails(engf.path_facts(p), Lin.const(1) - L(e.result))
        nok = 0
        for p in P['sts_cbc']:
            g = [e for e in p.calls() if e.name in GET]
            s = [e for e in p.calls() if e.name in PUT]
            if len(g) != 1:
                bad = 'expected one get of one octet, found %s' % [e.name for e in g]
                break
            neg = engf.entails(engf.path_facts(p), L(g[0].result) + 1)
            if neg:
                if s or strip_cast(p.ret) != g[0].result:
                    bad = 'source error not returned unchanged / sink called after a source error'
                continue
            if s:
                if not delivered(p, g[0], GET):
                    bad = ('the sink is given the local octet under {%s} although the source may have delivered nothing (result 0 is "nothing moved, ask '
                           'again"): an octet that was never read is put' % '; '.join(fmt(c) for c in p.cond_terms()))
                    continue
                dst = g[0].args[1]
                val = s[0].args[1]
                if val[0] == '&' or PUT[s[0].name] is not None:
                    ok = strip_cast(val) == strip_cast(dst)
                else:
                    ok = dst[0] == '&' and (sym.contains(val, dst[1]) or (val[0] == 'h' and fmt(dst[1]) in val[1]))
                if len(s) != 1 or not ok:
                    bad = 'octet put (%s) is not the octet got into %s' % (fmt(val), fmt(dst))
                    continue
            # what the caller counts: a non-negative result stands for exactly one octet moved (sts_n_cbc, sts_atmost)
            if p.ret is None:
                bad = 'no result'
                continue
            may_nonneg = engf.feasible(p.cond_terms(), [-L(strip_cast(p.ret))]) if not sym.is_c(p.ret) else p.ret[1] >= 0
            if may_nonneg:
                nok += 1
                if not s:
                    bad = 'a non-negative result is returned under {%s} without putting the octet' % '; '.join(fmt(c) for c in p.cond_terms())
                elif not sym.is_c(p.ret) and strip_cast(p.ret) == s[0].result and PUT[s[0].name] is None and not delivered(p, s[0], PUT):
                    bad = ('the sink\'s one-shot result is returned as the count under {%s}: a sink answering 0 ("nothing moved") has not taken the octet, '
                           'which was already removed from the source - it is lost, and callers count it as moved' % '; '.join(fmt(c) for c in p.cond_terms()))
                elif sym.is_c(p.ret) and p.ret[1] != 1:
                    bad = 'returns %d for one octet moved' % p.ret[1]
                elif sym.is_c(p.ret) and not delivered(p, s[0], PUT):
                    bad = 'reports one octet moved although the sink may not have taken it'
        if nok == 0 and bad is None:
            bad = 'no path reports an octet moved'
        ck.verdict(bad is None, 'C17.f', 'sts_cbc', where('sts_cbc'),
                   'one get then one put of the same octet, each known to have moved it before the octet is used / counted; source error returned unchanged' if bad is None else bad)
    # counted loops over a step function, decided with the ghost quantity Moved (octets moved so far):
    #   Moved = n - rest for a countdown variable, Moved = i for an index variable starting at 0
    #   base Moved = 0; a step that reports k >= 0 octets raises Moved by exactly k (k = 1 for the octet step);
    #   a step that is retried or failed leaves it; an iteration needs Moved < n and asks for at most n - Moved;
    #   the loop is left on completion only with Moved == n, and n is returned
    def no_progress_repeat(p, r, lmap):
        """an iteration that repeats the loop after a step without progress: allowed for the retry signals, for a step that
        moved nothing (0), and for a one-way switch of the route (a boolean loop variable known false before and true
        after) - anything else can repeat for ever, pulling octets out of the source each time"""
        facts = engf.path_facts(p)
        if not engf.feasible(p.cond_terms(), [L(r) + 1]):
            return None                                      # r >= 0 on this path
        sig = [c for c in p.cond_terms() if c[0] == 'cmp' and c[1] == '==' and strip_cast(c[2]) == r and sym.is_c(c[3])]
        if sig and all(c[3][1] in (EINTR, EAGAIN) for c in sig):
            return None
        # (a switch of route does not make the repetition safe either: the step that failed has taken its octets from the
        # source, the next one takes new ones - what reaches the sink is then no prefix of the stream)
        return ('the loop is repeated after the step failed with %s under {%s}: the failed step has already taken octets from the source, '
                'so the next attempt delivers later octets in their place (the sink no longer holds a prefix of the stream), and a lasting '
                'failure repeats for ever' % (fmt(sig[0][3]) if sig else 'a negative result', '; '.join(fmt(c) for c in p.cond_terms()[-3:])))

    def retry_signal_ends(p, r):
        """a step answering -EINTR / -EAGAIN has moved nothing and asks to be repeated: it must not end a counted or
        draining transfer (the chunk calls and the octet adaptors repeat it; a chunk driver called directly hands it up)"""
        leak = [nm for nm, v in (('-EINTR', EINTR), ('-EAGAIN', EAGAIN)) if engf.feasible(p.cond_terms() + [('cmp', '==', r, C(v))])]
        if leak:
            return ('%s from the step ends the transfer under {%s}: nothing is wrong with the stream, but the caller gets an error after part of the '
                    'octets were moved (a chunk-style source interrupted once makes the plumbing give up where the per-octet path carries on)'
                    % ('/'.join(leak), '; '.join(fmt(c) for c in p.cond_terms()[-3:])))
        return None

    def counted(fn, step, step_bound_arg=None, unit=None):
        if fn not in P:
            return
        n_ = ('v', 'n')
        bad = None
        seen_err = seen_done = seen_prog = False
        for p in P[fn]:
            if not p.loops:
                bad = bad or 'path without the transfer loop: %s' % p.describe(3)
                continue
            lmap = p.loops[-1][1]
            # the account is a variable the loop really carries (one shown to keep its pre-loop value - a result preset
            # to n, a status preset to 0 - is none)
            down = [(k, h) for k, (h, pre) in lmap.items() if pre is not None and strip_cast(pre) == n_ and h[0] == 'h']
            up = [(k, h) for k, (h, pre) in lmap.items() if pre == C(0) and not eng_is_bool(k) and h[0] == 'h']
            if len(down) == 1:
                ck_, h = down[0]
                moved = lambda v: L(n_) - L(v)
            elif len(up) == 1:
                ck_, h = up[0]
                moved = lambda v: L(v)
            else:
                bad = 'no loop variable counts the octets moved (neither a countdown from n nor an index from 0)'
                break
            facts = engf.path_facts(p)
            if len(down) != 1:
                # index loops: i <= n is inductive (0 <= n; i < n gives i + 1 <= n) - proved here before it is used
                def atmost(q):
                    # an at-most step moves at most what it was asked for (C17.e; drivers return at most the count they get)
                    sq = [e for e in q.calls() if e.name in step]
                    if step_bound_arg is None or len(sq) != 1:
                        return []
                    return [lin.le(L(sq[0].result), L(strip_cast(sq[0].args[step_bound_arg])))]
                ind = all(engf.entails(engf.path_facts(q) + [lin.le(L(q.loops[-1][1][ck_][0]), L(n_))] + atmost(q),
                                       L(q.mem.get(ck_, q.loops[-1][1][ck_][0])) - L(n_))
                          for q in P[fn] if q.end == 'loopback' and q.loops and ck_ in q.loops[-1][1])
                if ind:
                    facts = facts + [lin.le(L(h), L(n_))]
            st = [e for e in p.calls() if e.name in step]
            if p.end == 'return' and not st:
                seen_done = True
                z = moved(h) - L(n_)
                if not (engf.entails(facts, z) and engf.entails(facts, -z)):
                    bad = ('the loop is left under {%s} although fewer (or more) than n octets may have been moved'
                           % '; '.join(fmt(c) for c in p.cond_terms()[-2:]))
                if strip_cast(p.ret) != n_:
                    bad = 'returns %s after the loop, expected n' % fmt(p.ret)
                continue
            if not st:
                continue
            r = st[-1].result
            if len(st) != 1:
                bad = '%d steps in one iteration' % len(st)
                continue
            if not engf.entails(facts, moved(h) + 1 - L(n_)):
                bad = 'a step is taken at %s although n octets may already have been moved' % st[0].where()
            if step_bound_arg is not None:
                d = L(strip_cast(st[0].args[step_bound_arg])) - (L(n_) - moved(h))
                if not (d.is_const() and d.c == 0):
                    bad = 'step is bounded by %s, not by the remaining count' % fmt(st[0].args[step_bound_arg])
            if p.end == 'return':
                if strip_cast(p.ret) == r and engf.entails(facts, L(r) + 1):
                    seen_err = True
                    if fn != 'sts_n_cbc':
                        bad = bad or retry_signal_ends(p, r)
                else:
                    bad = 'in-loop return is not the negative step result'
                continue
            after = p.mem.get(ck_, h)
            mv = moved(after) - moved(h)
            nonneg = engf.entails(facts, -L(r))
            if nonneg:
                seen_prog = True
                want = L(r) if unit is None else Lin.const(unit)
                if not ((mv - want).is_const() and (mv - want).c == 0):
                    bad = ('after a step that moved %s octet(s) the count of moved octets changes by %s'
                           % (fmt(r) if unit is None else unit, mv))
            else:
                if not (mv.is_const() and mv.c == 0):
                    bad = 'the count of moved octets changes by %s on an iteration whose step did not report progress' % mv
                bad = bad or no_progress_repeat(p, r, lmap)
        if not seen_err and bad is None:
            bad = 'no path returns a negative step result'
        if not seen_done and bad is None:
            bad = 'no completion path'
        if not seen_prog and bad is None:
            bad = 'no progress iteration'
        ck.verdict(bad is None, 'C17.f', fn, where(fn),
                   'loop over %s: Moved starts at 0, grows by exactly what each step moved, a step needs Moved < n%s, left only at Moved == n returning n; negative result returned unchanged'
                   % ('/'.join(sorted(step)), ' and is bounded by n - Moved' if step_bound_arg is not None else '') if bad is None else bad)
    counted('sts_n_cbc', {'sts_cbc'}, None, 1)
    counted('sts_n_aux', {'sts_atmost_aux'}, 3)
    counted('sts_n', {'sts_atmost', 'sts_atmost_via_source'}, 2)

    def drain(fn, step):
        if fn not in P:
            return
        bad = None
        ok_ret = False
        for p in P[fn]:
            st = [e for e in p.calls() if e.name in step]
            if p.end == 'return':
                if not st:
                    continue
                r = st[-1].result
                if strip_cast(p.ret) == r and any(c == ('cmp', '<', r, C(0)) for c in p.cond_terms()):
                    ok_ret = True
                    if fn != 'sts_drain_cbc':
                        bad = bad or retry_signal_ends(p, r)
                else:
                    bad = 'drain returns %s under {%s}' % (fmt(p.ret), '; '.join(fmt(c) for c in p.cond_terms()[-2:]))
            elif p.end == 'loopback' and st and p.loops:
                bad = bad or no_progress_repeat(p, st[-1].result, p.loops[-1][1])
        if not ok_ret and bad is None:
            bad = 'no path returns the first negative step result'
        ck.verdict(bad is None, 'C17.f', fn, where(fn), 'repeats the step until its first negative result and returns that' if bad is None else bad)
    drain('sts_drain_cbc', {'sts_cbc'})
    drain('sts_drain_aux', {'sts_atmost_aux'})
    drain('sts_drain', {'sts_atmost', 'sts_atmost_via_source'})
    # aux plumbing: region and counts, analysed with sts_some_aux inlined into sts_atmost_aux
    eng2 = sym.Engine(u, sizeof=so, inline={'sts_some_aux', 'byte_buffer_rest'}, other_units=[ub])
    b = ('v', 'b')
    off, used, size, data = (('f', b, x) for x in ('offset', 'used', 'size', 'data'))
    inv = [lin.le(L(off), L(used)), lin.le(L(used), L(size))]
    for fn in ('sts_some_aux', 'sts_atmost_aux'):
        if u.fn(fn) is None:
            continue
        try:
            ps = eng2.paths(fn)
        except (sym.Unsupported, sym.PathLimit) as e:
            ck.broken('C17.f', fn, where(fn), str(e))
            continue
        ck.analysed['paths'] += len(ps)
        bad = None
        for p in ps:
            facts = eng2.path_facts(p) + inv
            g = p.calls('source_get_chunk_atmost')
            s = p.calls('sink_put_chunk')
            if not g and not s:
                # a refusal before anything is asked of a driver: an auxiliary window without room - a negative result
                r_ = strip_cast(p.ret) if p.ret is not None else None
                if not (r_ is not None and sym.is_c(r_) and r_[1] < 0):
                    bad = 'a path asks no driver for anything and returns %s (only the refusal of an unusable auxiliary window, a negative code, may do that)' % (fmt(p.ret) if p.ret else None)
                    break
                continue
            if len(g) != 1:
                bad = 'expected exactly one source_get_chunk_atmost'
                break
            gptr, gcnt = g[0].args[1], g[0].args[2]
            # a step asks for at least one octet: a request for nothing is answered with "nothing moved", which the counted
            # and the draining loops take for "ask again" - with an auxiliary window that holds no octet they never return
            if not eng2.entails(facts + ([Lin.const(1) - L(('v', 'n'))] if fn == 'sts_atmost_aux' else []), Lin.const(1) - L(gcnt)):
                bad = ('asks the source for %s octets, which is 0 for an auxiliary buffer whose window [offset, used) is empty (e.g. one declared with BYTE_BUFFER_EMPTY): '
                       'nothing moves, the step answers 0, and sts_n_aux / sts_drain_aux repeat it for ever' % fmt(gcnt))
                break
            # region: [data+offset, data+offset+cnt) inside the unread window [offset, used)
            o = L(gptr) - L(data)
            if not (eng2.entails(facts, L(off) - o) and eng2.entails(facts, o + L(gcnt) - L(used))):
                bad = 'source may write [data+(%s), +%s), outside the auxiliary window [offset, used)' % (o, fmt(gcnt))
                break
            # the count is computed in size_t: a difference whose subtrahend may exceed the minuend wraps to a huge count
            wrap = [t for t in sym.subterms(gcnt) if t[0] == '-' and not eng2.entails(facts, L(t[2]) - L(t[1]))]
            if wrap:
                bad = ('the count handed to the source, %s, contains the size_t difference %s whose operands are not ordered on this path '
                       '(the local buffer copy no longer satisfies offset <= used): it wraps to a huge count' % (fmt(gcnt), fmt(wrap[0])))
                break
            if fn == 'sts_atmost_aux' and not eng2.entails(facts, L(gcnt) - L(('v', 'n'))):
                bad = 'asks the source for %s octets, not bounded by n (the size field that is limited is never read by sts_some_aux)' % fmt(gcnt)
                break
            neg = any(c == ('cmp', '<', g[0].result, C(0)) for c in p.cond_terms())
            if neg:
                if s or strip_cast(p.ret) != g[0].result:
                    bad = 'source error not returned unchanged'
                    break
                continue
            if len(s) > 1:
                bad = 'more than one put'
                break
            if len(s) == 1:
                if s[0].args[1] != gptr:
                    bad = 'puts from %s, got into %s' % (fmt(s[0].args[1]), fmt(gptr))
                    break
                if s[0].args[2] != g[0].result:
                    bad = 'puts %s octets although the source delivered %s' % (fmt(s[0].args[2]), fmt(g[0].result))
                    break
                if strip_cast(p.ret) != s[0].result:
                    bad = 'does not return the put result'
                    break
            else:
                # nothing delivered (0): nothing put, returns the (zero) count
                if strip_cast(p.ret) != g[0].result and p.ret != C(0):
                    bad = 'returns %s when nothing was delivered' % fmt(p.ret)
                    break
                if not eng2.entails(facts, L(g[0].result)):
                    bad = ('returns without a put under {%s} although the source may have delivered octets (result > 0): they are counted as moved but never reach the sink'
                           % '; '.join(fmt(c) for c in p.cond_terms()[-2:]))
                    break
        ck.verdict(bad is None, 'C17.f', fn + ':aux', where(fn),
                   'gets into the auxiliary window only, at most the bound, and puts exactly the delivered count from the same place' if bad is None else bad)


def rule_aux_descriptor(ck, u, eng):
    """C17.f  The auxiliary buffer is the CALLER'S: the plumbing may use the window [offset, used) its descriptor designates
    as scratch, and nothing else - "without touching octets outside the auxiliary buffer's designated region".  So none
    of the *_aux functions stores into *b, and b itself (not a local copy of the descriptor) is handed only to callees
    that do not write through it: the *_aux family (judged here in turn) and accessors.  A byte_buffer_rewind(b) "to make
    room" moves the window to the front of the memory and rewrites the descriptor - with offset > 0 the transfer then
    runs through octets in front of the window (D61)."""
    FAM = ('sts_some_aux', 'sts_atmost_aux', 'sts_n_aux', 'sts_drain_aux')
    b = ('v', 'b')
    for fn in FAM:
        f = u.fn(fn)
        if f is None:
            ck.broken('C17.f', fn + ':aux-descriptor', '', 'function missing (anchor vanished)')
            continue
        try:
            ps = eng.paths(fn)
        except (sym.Unsupported, sym.PathLimit) as e:
            ck.broken('C17.f', fn + ':aux-descriptor', cast.where(f), 'path enumeration: %s' % e)
            continue
        bad = None
        for p in ps:
            for e in p.stores():
                if sym.rooted_at(e.name, b):
                    bad = bad or 'stores into the caller\'s descriptor (%s := %s, %s)' % (fmt(e.name), fmt(e.args[0]), e.where())
            for e in p.calls():
                if e.kind != 'call' or e.name in FAM:
                    continue
                for i, a in enumerate(e.args):
                    if strip_cast(a) != b:
                        continue
                    # the parameter's declared type (the argument as converted for the call): a pointer to const is read only
                    an = e.node['inner'][1 + i] if e.node is not None and len(e.node.get('inner', [])) > 1 + i else None
                    qt = cast.qual_type(an) if an is not None else ''
                    if 'const' in qt.rsplit('*', 1)[0].split('*')[-1]:
                        continue
                    if eng.param_written(e.name, i):
                        bad = bad or ('hands the caller\'s descriptor to %s (%s), which writes through it: the window [offset, used) the caller designated is moved or resized, '
                                      'and the transfer runs through memory outside it' % (e.name, e.where()))
        ck.verdict(bad is None, 'C17.f', fn + ':aux-descriptor', cast.where(f),
                   'the caller\'s descriptor is read only (copies are worked on); the window it designates stays where it is' if bad is None else bad)


def rule_atmost(ck, u, eng):
    """sts_atmost: exactly one of the three plumbing routes moves octets"""
    fn = 'sts_atmost'
    if u.fn(fn) is None:
        return ck.broken('C17.f', fn, '', 'function missing')
    ck.function(fn)
    ps = eng.paths(fn)
    ck.analysed['paths'] += len(ps)
    bad = None
    routes = set()
    for p in ps:
        tr = [e for e in p.calls() if e.name in ('sts_cbc', 'sts_atmost_via_sink', 'sts_atmost_via_source')]
        names = [e.name for e in tr]
        if not tr:
            bad = 'path without a transfer: %s' % p.describe(3)
            continue
        for e in tr:
            want = [('v', 'source'), ('v', 'sink')] + ([('v', 'n')] if e.name != 'sts_cbc' else [])
            if list(e.args) != want:
                bad = '%s is called with (%s)' % (e.name, ', '.join(fmt(a) for a in e.args))
        if strip_cast(p.ret) != tr[-1].result:
            bad = 'the result of the last route taken (%s) is not what is returned' % names[-1]
        for e in tr[:-1]:
            # an earlier route may be followed by another one only if it certainly moved nothing: result < 0
            if not eng.entails(p, L(e.result) + 1):
                bad = ('%s is followed by %s on a path where it may have moved octets (its result is not known to be negative): '
                       'up to twice the requested count is moved and only the second count reported' % (e.name, names[names.index(e.name) + 1]))
        routes.add(tuple(names))
    ok_routes = ({('sts_cbc',), ('sts_atmost_via_sink',), ('sts_atmost_via_sink', 'sts_atmost_via_source')},
                 {('sts_cbc',), ('sts_atmost_via_sink',), ('sts_atmost_via_source',)})
    if bad is None and routes not in ok_routes:
        bad = 'routes taken: %s' % sorted(routes)
    ck.verdict(bad is None, 'C17.f', fn, cast.where(u.fn(fn)),
               'octet-by-octet without buffer extension; otherwise via the sink buffer where it offers room, else via the source buffer' if bad is None else bad)
    # "a hard driver error is returned unchanged": with the routes looked into, a path on which a driver was asked and
    # answered with an error returns that answer.  Going on to the other route after it asks the source a SECOND time (a
    # one-off hard error is swallowed) or, for a source without buffer, turns the error into -EPIPE; a retry signal
    # (-EINTR / -EAGAIN) is turned into a failure of the transfer the same way.
    e2 = sym.Engine(u, sizeof=eng.sizeof if hasattr(eng, 'sizeof') else {}, inline={'sts_atmost_via_sink', 'sts_atmost_via_source', 'byte_buffer_rest'},
                    other_units=[x for x in eng.units[1:]])
    bad2 = None
    ndrv = 0
    try:
        ps2 = e2.paths(fn)
    except (sym.Unsupported, sym.PathLimit) as ex:
        return ck.broken('C17.f', fn + ':driver-error', cast.where(u.fn(fn)), 'path enumeration: %s' % ex)
    DRV = ('source_get_chunk_atmost', 'source_get_chunk', 'sink_put_chunk', 'sink_put_chunk_atmost', 'source_get_octet', 'sink_put_octet')
    for p in ps2:
        tr = [e for e in p.calls() if e.name in DRV]
        for i, e in enumerate(tr):
            ndrv += 1
            nonneg = e2.entails(p, -L(e.result))           # the path knows the driver did not answer with an error
            if tr[i + 1:]:
                if not nonneg:
                    bad2 = bad2 or ('%s may have answered with an error (%s) and sts_atmost goes on to %s: the source is asked a second time - a one-off hard error is '
                                    'swallowed, a retry signal is not what the caller sees' % (e.name, e.where(), tr[i + 1].name))
            elif not nonneg and strip_cast(p.ret) != e.result:
                bad2 = bad2 or ('%s may answer with an error (%s) and sts_atmost returns %s instead of that answer under {%s}: a hard driver error (or -EINTR / -EAGAIN, on '
                                'which the counted loops repeat the step) reaches the caller as a different failure' % (
                                    e.name, e.where(), fmt(p.ret), '; '.join(fmt(c) for c in p.cond_terms()[-3:])[:200]))
    if ndrv == 0:
        ck.broken('C17.f', fn + ':driver-error', cast.where(u.fn(fn)), 'no path with a failing driver call found in the buffer-extension routes')
    else:
        ck.verdict(bad2 is None, 'C17.f', fn + ':driver-error', cast.where(u.fn(fn)),
                   'an error a driver answered on either buffer-extension route is what sts_atmost returns (%d such paths)' % ndrv if bad2 is None else bad2)


def rule_ext(ck, u, ub, so):
    """buffer-extension plumbing: sts_atmost_via_sink / _via_source"""
    eng = sym.Engine(u, sizeof=so, inline={'byte_buffer_rest'}, other_units=[ub])
    n = ('v', 'n')
    for fn in ('sts_atmost_via_sink', 'sts_atmost_via_source'):
        if u.fn(fn) is None:
            ck.broken('C17.f', fn, '', 'function missing')
            continue
        ck.function(fn)
        ps = eng.paths(fn)
        ck.analysed['paths'] += len(ps)
        bad = None
        ntr = 0
        for p in ps:
            gb = [e for e in p.effects if e.kind == 'icall' and e.name.endswith('getbuffer')]
            tr = [e for e in p.effects if (e.kind == 'icall' and e.name == 'source.chunk') or
                  (e.kind == 'call' and e.name in ('source_get_chunk', 'source_get_chunk_atmost'))]
            exact = [e for e in tr if e.name == 'source_get_chunk']
            if exact:
                bad = bad or ('the window is filled with the exact source_get_chunk: a source that ends (or fails) inside the window loses the octets it had '
                              'already delivered - the step is an at-most step and has to report them')
            if not gb:
                if tr:
                    bad = 'transfer without an exposed buffer'
                continue
            b = gb[0].result
            bdata, bused, boff = (sym.field_of_value(b, x) for x in ('data', 'used', 'offset'))
            rest = L(bused) - L(boff)
            facts = eng.path_facts(p) + [lin.le(L(boff), L(bused))]
            for e in tr:
                ntr += 1
                ptr, cnt = (e.args[1], e.args[2])
                d = L(ptr) - (L(bdata) + L(boff))
                if not (d.is_const() and d.c == 0):
                    bad = 'transfer into %s, the exposed window starts at data+offset' % fmt(ptr)
                if not eng.entails(facts, L(cnt) - rest):
                    bad = 'asks for %s octets, the exposed window holds used - offset' % fmt(cnt)
                if not eng.entails(facts, Lin.const(1) - L(cnt)):
                    bad = bad or 'may ask for 0 octets'
                bounded = any(c == ('cmp', '==', n, C(0)) for c in p.cond_terms()) or eng.entails(facts, L(cnt) - L(n))
                if not bounded:
                    bad = bad or 'asks for %s octets although at most n were requested' % fmt(cnt)
                # takes the larger possible count: either the window or n
                if not (eng.entails(facts, rest - L(cnt)) or eng.entails(facts, L(n) - L(cnt))):
                    bad = bad or 'moves fewer octets than both the window and the request allow'
            if fn.endswith('via_source') and tr:
                r = tr[0].result
                put = p.calls('sink_put_chunk')
                neg = any(c == ('cmp', '<', r, C(0)) for c in p.cond_terms())
                if neg:
                    if put or strip_cast(p.ret) != r:
                        bad = bad or 'source error not returned unchanged'
                elif not put and eng.entails(facts, L(r)):
                    # an error or nothing delivered (r <= 0): nothing to put, the result is handed on unchanged
                    if strip_cast(p.ret) != r:
                        bad = bad or 'returns %s when the source reported %s' % (fmt(p.ret), fmt(r))
                else:
                    if len(put) != 1 or put[0].args[1] != tr[0].args[1] or strip_cast(put[0].args[2]) != r:
                        bad = bad or 'puts %s, expected exactly the octets just obtained' % ([fmt(a) for a in put[0].args] if put else None)
            if fn.endswith('via_sink') and tr and strip_cast(p.ret) != tr[0].result:
                bad = bad or 'does not return the count moved into the sink buffer'
        ck.verdict(bad is None and ntr >= 2, 'C17.f', fn, cast.where(u.fn(fn)),
                   'transfers into/out of the exposed window only, 1 <= count <= min(window, n) (window when n == 0), forwards exactly what it got' if bad is None and ntr >= 2 else (bad or 'transfers not found'))


def rule_h(ck, u, so, ub):
    """C17.h  kind / union-member agreement: the endpoint unions hold an octet driver or a chunk driver, told apart
    only by `kind`.  Constructors must set both consistently and every use of a member must lie on a path where
    `kind` selects that member (the driver is otherwise called through the wrong function-pointer type and with the
    wrong arguments, whatever it then moves)."""
    E = u.enums
    OCT, CHK = E.get('DATA_KIND_OCTET'), E.get('DATA_KIND_CHUNK')
    if OCT is None or CHK is None:
        return ck.broken('C17.h', 'DataKind', '', 'enumerators not found')
    distinct_enums(ck, u, 'C17.h', ('DATA_KIND_',), 'include/ufw/endpoints.h')
    eng = sym.Engine(u, sizeof=so, inline=set(), other_units=[ub])
    for fn, un, member, kindv in (('octet_source_init', 'source', 'octet', OCT), ('chunk_source_init', 'source', 'chunk', CHK),
                                  ('octet_sink_init', 'sink', 'octet', OCT), ('chunk_sink_init', 'sink', 'chunk', CHK)):
        if u.fn(fn) is None:
            ck.broken('C17.h', fn, '', 'function missing')
            continue
        ck.function(fn)
        ps = eng.paths(fn)
        ck.analysed['paths'] += len(ps)
        inst = ('v', u.params(fn)[0]['name'])
        drvp = ('v', u.params(fn)[1]['name'])
        ctxp = ('v', u.params(fn)[2]['name'])
        bad = None
        for p in ps:
            st = {}
            for e in p.stores():
                st[fmt(e.name)] = e.args[0]
            kind = st.get('%s->kind' % inst[1])
            mem = st.get('%s->%s.%s' % (inst[1], un, member))
            other = [k for k in st if k.startswith('%s->%s.' % (inst[1], un)) and not k.endswith('.' + member)]
            if kind != C(kindv):
                bad = 'kind is set to %s, expected %s' % (fmt(kind) if kind else 'nothing', 'DATA_KIND_OCTET' if kindv == OCT else 'DATA_KIND_CHUNK')
            elif strip_cast(mem) != drvp if mem is not None else True:
                bad = 'the %s driver is not stored in .%s.%s' % (member, un, member)
            elif other:
                bad = 'also stores %s' % other[0]
            elif st.get('%s->driver' % inst[1]) != ctxp:
                bad = 'driver context not stored'
        ck.verdict(bad is None, 'C17.h', fn, cast.where(u.fn(fn)),
                   'sets kind, the matching union member and the driver context' if bad is None else bad)
    # static initialiser macros: the same agreement for endpoints that are never passed through a constructor
    src_ = ('#include <ufw/endpoints.h>\n'
            'static int vp_os_f(void *d, void *b) { (void)d; (void)b; return 0; }\n'
            'static ssize_t vp_cs_f(void *d, void *b, size_t n) { (void)d; (void)b; (void)n; return 0; }\n'
            'static int vp_ok_f(void *d, unsigned char b) { (void)d; (void)b; return 0; }\n'
            'static ssize_t vp_ck_f(void *d, const void *b, size_t n) { (void)d; (void)b; (void)n; return 0; }\n'
            'static int vp_drv;\n'
            'Source vp_os = OCTET_SOURCE_INIT(vp_os_f, &vp_drv);\nSource vp_cs = CHUNK_SOURCE_INIT(vp_cs_f, &vp_drv);\n'
            'Sink vp_ok = OCTET_SINK_INIT(vp_ok_f, &vp_drv);\nSink vp_ck = CHUNK_SINK_INIT(vp_ck_f, &vp_drv);\n')
    try:
        pu = cast.load(UNIT, source_text=src_)
    except Exception as e:
        pu = None
        ck.broken('C17.h', 'initialiser-macros', 'include/ufw/endpoints.h', 'probe failed: %s' % e)
    if pu is not None:
        for var, macro, un, member, kindv, cb in (('vp_os', 'OCTET_SOURCE_INIT', 'source', 'octet', OCT, 'vp_os_f'), ('vp_cs', 'CHUNK_SOURCE_INIT', 'source', 'chunk', CHK, 'vp_cs_f'),
                                                  ('vp_ok', 'OCTET_SINK_INIT', 'sink', 'octet', OCT, 'vp_ok_f'), ('vp_ck', 'CHUNK_SINK_INIT', 'sink', 'chunk', CHK, 'vp_ck_f')):
            f = cast.init_fields(pu, var)
            if not f:
                ck.broken('C17.h', macro, 'include/ufw/endpoints.h', 'initialiser not understood')
                continue
            members = {k: v for k, v in f.items() if k.startswith(un + '.')}
            okm = f.get('kind') == kindv and members == {'%s.%s' % (un, member): ('ref', cb)} and f.get('driver') == ('ref', 'vp_drv')
            ck.verdict(okm, 'C17.h', macro, 'include/ufw/endpoints.h',
                       '%s sets kind, the .%s.%s member and the driver context' % (macro, un, member) if okm else
                       '%s yields %s: kind and driver member do not match (the dispatcher calls the callback through the wrong function-pointer type)' % (macro, f))
    # uses
    nuse = 0
    for fn in sorted(u.functions):
        f = u.fn(fn)
        if not (cast.node_file(f) or '').endswith('endpoints/core.c') or u.body(fn) is None:
            continue
        try:
            ps = eng.paths(fn)
        except (sym.Unsupported, sym.PathLimit):
            continue
        bad = None
        uses = 0
        for p in ps:
            for e in p.effects:
                if e.kind not in ('call', 'icall'):
                    continue
                terms = []
                if e.kind == 'icall' and e.chain and len(e.chain) >= 3 and e.chain[-1] in ('octet', 'chunk') and e.chain[-2] in ('source', 'sink'):
                    terms.append((e.chain[-1], e.chain[-2], e.extra if False else None))
                for a in e.args:
                    a0 = strip_cast(a)
                    if a0[0] == 'f' and a0[2] in ('octet', 'chunk') and a0[1][0] == 'f' and a0[1][2] in ('source', 'sink'):
                        terms.append((a0[2], a0[1][2], a0[1][1]))
                for member, un, base in terms:
                    uses += 1
                    kv = OCT if member == 'octet' else CHK
                    ov = CHK if member == 'octet' else OCT
                    sel = False
                    for c in p.cond_terms():
                        k0 = strip_cast(c[2]) if c[0] == 'cmp' else None
                        if k0 is not None and ((k0[0] == 'f' and k0[2] == 'kind') or (k0[0] == 'h' and str(k0[1]).endswith('->kind'))) and sym.is_c(c[3]):
                            if (c[1] == '==' and c[3][1] == kv) or (c[1] == '!=' and c[3][1] == ov):
                                sel = True
                            if (c[1] == '==' and c[3][1] == ov) or (c[1] == '!=' and c[3][1] == kv):
                                sel = 'wrong'
                    if sel is not True:
                        bad = ('the .%s.%s driver is used at %s on a path where kind %s' %
                               (un, member, e.where(), 'selects the other member' if sel == 'wrong' else 'has not been tested'))
        if uses:
            nuse += uses
            ck.function(fn)
            ck.verdict(bad is None, 'C17.h', fn + ':dispatch', cast.where(f),
                       'every use of a driver member lies behind the matching test of kind' if bad is None else bad)
    ck.floor('C17.h', 'uses of the driver union members', nuse, 8)


def rule_trivial(ck):
    """C17.g: the trivial endpoints (zero source, null sink, empty source) do what their names say for every n"""
    rel = 'src/endpoints/trivial.c'
    try:
        u = cast.load(rel)
    except Exception as e:
        return ck.broken('C17.g', 'trivial.c', rel, str(e))
    ck.unit(rel)
    eng = sym.Engine(u, sizeof={})
    n, data = ('v', 'n'), ('v', 'data')
    for fn in ('run_source_zero', 'run_sink_null', 'run_source_empty'):
        f = u.fn(fn)
        if f is None:
            ck.broken('C17.g', fn, '', 'function missing')
            continue
        ck.function(fn)
        bad = None
        for p in eng.paths(fn):
            calls = [e for e in p.effects if e.kind in ('call', 'icall')]
            rv = strip_cast(p.ret) if p.ret is not None else None
            if fn == 'run_source_zero':
                if len(calls) != 1 or calls[0].name != 'memset' or list(calls[0].args) != [data, C(0), n] or rv != n:
                    bad = 'does not deliver exactly n zero octets: %s, returns %s' % ([(e.name, [fmt(a) for a in e.args]) for e in calls], fmt(p.ret) if p.ret else None)
            elif fn == 'run_sink_null':
                if calls or p.stores() or rv != n:
                    bad = 'does not simply accept n octets'
            else:
                if calls or p.stores() or not (rv is not None and sym.is_c(rv) and rv[1] == -61):
                    bad = 'does not report -ENODATA without touching the buffer'
        ck.verdict(bad is None, 'C17.g', fn, cast.where(f),
                   {'run_source_zero': 'fills exactly n octets with zero and reports n', 'run_sink_null': 'accepts n octets', 'run_source_empty': 'reports -ENODATA'}[fn] if bad is None else bad)


def rule_fd_drivers(ck):
    """C17.i  The library's own descriptor drivers (endpoints/posix.c) honour the driver contract the retry loops of the
    endpoint layer rest on: a driver call that has moved k > 0 octets says so.  The loops read a negative answer as
    "nothing moved" (-EINTR / -EAGAIN: offer the same octets again; anything else: give up, count unchanged).  A driver
    that moves part of a chunk and then answers the error of a later system call makes sink_put_chunk send octets twice
    (or source_get_chunk lose them).  Per path: the system call gets the driver's descriptor, buffer and count - or, in a
    driver that loops, (buffer + K, count - K) for the same K; an error answer (-errno, or -ENODATA at end of file) is
    given only where K, the octets moved earlier in this call, is entailed to be 0; a one-shot success answers the system
    call's own count."""
    rel = 'src/endpoints/posix.c'
    try:
        u = cast.load(rel)
    except Exception as e:      # noqa: BLE001 - not part of this build
        ck.notes.append('C17.i: %s is not in the compilation database (%s)' % (rel, e))
        return
    ck.unit(rel)
    eng = sym.Engine(u, sizeof={})
    drv, data, n = ('v', 'driver'), ('v', 'data'), ('v', 'n')
    seen = 0
    for fn, sysc in (('run_read', 'read'), ('run_write', 'write')):
        f = u.fn(fn)
        if f is None:
            continue            # configured out (UFW_HAVE_POSIX_*)
        seen += 1
        ck.function(fn)
        try:
            ps = eng.paths(fn)
        except (sym.Unsupported, sym.PathLimit) as e:
            ck.broken('C17.i', fn, cast.where(f), 'path enumeration: %s' % e)
            continue
        ck.analysed['paths'] += len(ps)
        bad = None
        ncall = 0
        for p in ps:
            cs = p.calls(sysc)
            if len(cs) > 1:
                bad = bad or 'two %s() calls on one path' % sysc
                continue
            if not cs:
                continue
            ncall += 1
            e = cs[0]
            a = [strip_cast(x) for x in e.args]
            if len(a) != 3 or a[0] != ('i', drv, C(0)) and fmt(a[0]) != '*driver':
                bad = bad or '%s() is not called on the driver\'s descriptor (%s)' % (sysc, fmt(e.args[0]))
                continue
            K = L(n) - L(a[2])
            if L(a[1]) != L(data) + K:
                bad = bad or '%s(fd, %s, %s): buffer and count do not describe the rest of the caller\'s chunk' % (sysc, fmt(a[1]), fmt(a[2]))
                continue
            if p.end != 'return':
                continue
            r = e.result
            neg = eng.entails(p, L(r) + 1)
            zero = sysc == 'read' and eng.entails(p, L(r)) and eng.entails(p, -L(r))
            rv = strip_cast(p.ret)
            if neg or zero:
                if L(rv) == K:
                    pass            # the failed step is not reported: the answer is the count moved before it
                elif not eng.entails(p, K):
                    bad = bad or ('answers an error (%s) under {%s} although %s octets may have been moved earlier in this call: the endpoint\'s retry loop reads a negative answer as '
                                  '"nothing moved" and offers the same octets again (duplication on a sink, loss on a source)'
                                  % (fmt(p.ret), '; '.join(fmt(c) for c in p.cond_terms()[-3:]), K))
            elif K.is_const() and K.c == 0 and L(rv) != L(r):
                bad = bad or 'a successful %s() is answered with %s, not with its count' % (sysc, fmt(p.ret))
        if ncall == 0:
            ck.broken('C17.i', fn, cast.where(f), 'no path calls %s()' % sysc)
        else:
            ck.verdict(bad is None, 'C17.i', fn, cast.where(f),
                       'every path hands %s() the rest of the caller\'s chunk; an error is answered only when nothing was moved in this call (%d calling paths)' % (sysc, ncall)
                       if bad is None else bad)
    if seen == 0:
        ck.notes.append('C17.i: no descriptor driver in this configuration')


def rule_one_shot_octet(ck):
    """C17.j  source_get_octet / sink_put_octet are the ONE-SHOT calls: one request of the caller is one request to the
    driver, and what the driver answers - a count, 0, -EINTR, -EAGAIN, a hard error - is what the caller gets.  The codecs
    that promise "source or sink errors are returned unchanged" (SLIP decoder / encoder) and the taps of the register
    protocol are written against exactly that; the retrying behaviour belongs to the chunk calls.  Per path: exactly one
    call, through the driver member matching the kind (octet driver: (driver, datum); chunk driver: (driver, datum, 1)),
    no loop, no other call, the result returned unchanged."""
    rel = 'src/endpoints/core.c'
    u = cast.load(rel)
    ck.unit(rel)
    eng = sym.Engine(u, sizeof={})
    OCT = u.enums.get('DATA_KIND_OCTET')
    for fn, obj, memb in (('source_get_octet', ('v', 'source'), 'source'), ('sink_put_octet', ('v', 'sink'), 'sink')):
        f = u.fn(fn)
        if f is None:
            ck.broken('C17.j', fn, '', 'function missing (anchor vanished)')
            continue
        ck.function(fn)
        try:
            ps = eng.paths(fn)
        except (sym.Unsupported, sym.PathLimit) as e:
            ck.broken('C17.j', fn, cast.where(f), 'path enumeration: %s' % e)
            continue
        ck.analysed['paths'] += len(ps)
        bad = None
        kinds = set()
        for p in ps:
            cs = p.calls()
            if p.loops or p.end != 'return':
                bad = bad or 'the one-shot call loops'
                continue
            if len(cs) != 1 or cs[0].kind != 'icall' or cs[0].name not in (memb + '.octet', memb + '.chunk'):
                bad = bad or ('goes through %s instead of calling the driver once: what the driver answers (-EINTR, -EAGAIN, 0) no longer reaches the caller as it is'
                              % ', '.join(e.name for e in cs))
                continue
            e = cs[0]
            isoct = any(c == ('cmp', '==', ('f', obj, 'kind'), C(OCT)) for c in p.cond_terms())
            isnot = any(c == ('cmp', '!=', ('f', obj, 'kind'), C(OCT)) for c in p.cond_terms())
            want = memb + ('.octet' if isoct else '.chunk')
            if not (isoct or isnot) or e.name != want:
                bad = bad or 'driver member %s is used on a path that has not established the matching kind' % e.name
            if strip_cast(e.args[0]) != ('f', obj, 'driver') or (e.name.endswith('.chunk') and (len(e.args) != 3 or strip_cast(e.args[2]) != C(1))):
                bad = bad or 'driver called with (%s)' % ', '.join(fmt(a) for a in e.args)
            if strip_cast(p.ret) != e.result:
                bad = bad or 'the driver\'s answer is not returned unchanged (%s)' % fmt(p.ret)
            kinds.add(e.name)
        if bad is None and kinds != {memb + '.octet', memb + '.chunk'}:
            bad = 'driver kinds served: %s' % sorted(kinds)
        ck.verdict(bad is None, 'C17.j', fn, cast.where(f),
                   'one driver call per request, by kind, answer returned unchanged' if bad is None else bad)


def rule_g(ck):
    rel = 'src/endpoints/buffer.c'
    u = cast.load(rel)
    ck.unit(rel)
    eng = sym.Engine(u, sizeof={})
    for fn, callee, argmap in (('read_from_buffer', 'byte_buffer_consume_at_most', ('driver', 'data', 'n')),
                               ('write_to_buffer', 'byte_buffer_add', ('driver', 'data', 'n'))):
        f = u.fn(fn)
        if f is None:
            ck.broken('C17.g', fn, '', 'function missing')
            continue
        ck.function(fn)
        bad = None
        for p in eng.paths(fn):
            cs = p.calls(callee)
            if len(cs) != 1 or tuple(cs[0].args) != tuple(('v', a) for a in argmap):
                bad = 'does not call %s(driver, data, n) exactly once' % callee
                continue
            # the driver does nothing else to the buffer: what is in it already is the stream's prefix (sink) / is still to be
            # read (source); a rewind, clear or reset "to make room" drops or moves it
            other = [e for e in p.calls() if e is not cs[0] and e.kind == 'call' and e.name not in ('byte_buffer_rest', 'byte_buffer_avail') and not eng.is_pure(e.name)
                     and any(strip_cast(a) == ('v', 'driver') for a in e.args)]
            if other:
                bad = bad or ('also hands the buffer to %s (%s): octets already in the buffer - the prefix of the stream a sink has taken, the unread rest of a source - are moved or dropped'
                              % (other[0].name, other[0].where()))
                continue
            r = cs[0].result
            rv = strip_cast(p.ret)
            if fn == 'read_from_buffer':
                if rv != r:
                    bad = 'does not return the consumed count'
            else:
                neg = any(c == ('cmp', '<', r, C(0)) for c in p.cond_terms())
                if neg and rv != r:
                    bad = 'add failure not returned'
                if not neg and rv != ('v', 'n'):
                    bad = 'returns %s on success, expected n' % fmt(p.ret)
        ck.verdict(bad is None, 'C17.g', fn, cast.where(f), 'delegates to %s with unchanged arguments' % callee if bad is None else bad)
    # read_from_chunks: consume from the active chunk, advance to the next on ENODATA, ENODATA when none left
    fn = 'read_from_chunks'
    f = u.fn(fn)
    if f is None:
        return ck.broken('C17.g', fn, '', 'function missing')
    ck.function(fn)
    bad = None
    src = ('v', 'driver')        # ByteChunks *source = driver
    for p in eng.paths(fn):
        cs = p.calls('byte_buffer_consume_at_most')
        act = p.mem.get(('f', src, 'active'), ('f', src, 'active'))
        facts = eng.path_facts(p)
        if cs:
            a = cs[0].args
            if a[1] != ('v', 'data') or a[2] != ('v', 'n'):
                bad = 'consume called with (%s, %s)' % (fmt(a[1]), fmt(a[2]))
            want = sym.add(('f', src, 'chunk'), ('f', src, 'active'))
            if L(a[0]) != L(want):
                bad = 'consumes from %s, expected chunk + active' % fmt(a[0])
            if not eng.entails(facts, L(('f', src, 'active')) + 1 - L(('f', src, 'chunks'))):
                bad = 'active chunk index not proved below the chunk count'
            if p.end == 'loopback':
                d = L(act) - L(('f', src, 'active'))
                if not (d.is_const() and d.c == 1) or not any(c == ('cmp', '==', cs[0].result, C(-61)) for c in p.cond_terms()):
                    bad = 'moves to the next chunk by %s / not only on -ENODATA' % d
            elif strip_cast(p.ret) != cs[0].result:
                bad = 'does not return the consume result'
            elif eng.feasible(p.cond_terms() + [('cmp', '==', cs[0].result, C(-61))]):
                bad = bad or ('the result of the active chunk is returned although it may be -ENODATA (chunk exhausted) while later chunks still hold octets: '
                              'a chunk that is empty when the call starts - a zero-length chunk, or one consumed earlier - ends the stream early')
        else:
            if not (p.ret is not None and p.ret == C(-61)):
                bad = 'returns %s with no chunk left' % fmt(p.ret)
    ck.verdict(bad is None, 'C17.g', fn, cast.where(f),
               'consumes from chunk[active] (index proved in range), steps to the next chunk only on -ENODATA, -ENODATA when exhausted' if bad is None else bad)
