"""C09 Receiving and processing arbitrary input is memory-safe and resource-exact.

Structural obligations the code exposes (DESIGN section 4/C09): a SINK-CAPACITY,
b OWNERSHIP, c NULL-FRAME, d READ-CAPACITY, e FALLBACK-SOURCE, f PARSE-BOUNDS,
g CRC-EXTENT.  Not decided: memory safety for arbitrary streams as a whole."""
from .. import cast, sym, lin
from ..sym import C, fmt, linearize as L
from ..lin import Lin
from .regp import Regp, P, MF, FRAME, hdr, strip_cast, backend_calls, reply_calls, PREDICATES, RESP_WRAPPERS

CS_UNIT = 'src/endpoints/continuable-sink.c'


def rule_a(ck):
    u = cast.load(CS_UNIT)
    ub = cast.load('src/byte-buffer.c')
    ck.unit(CS_UNIT)
    so = sym.unit_sizeofs(CS_UNIT, u)
    eng = sym.Engine(u, sizeof=so, inline={'byte_buffer_rest', 'byte_buffer_avail'}, other_units=[ub])
    ck.function('cs_add')
    if u.fn('cs_add') is None:
        return ck.broken('C09.a', 'cs_add', '', 'function missing')
    ps = eng.paths('cs_add')
    ck.analysed['paths'] += len(ps)
    where = cast.where(u.fn('cs_add'))
    ENOMEM = -12
    n = ('v', 'n')
    nadd = 0
    bad = None
    for p in ps:
        adds = p.calls('byte_buffer_add')
        if not adds:
            # nothing is stored on this path: without a buffer that is a refusal; with one it is the case "no octet fits or
            # none was supplied" (a store of nothing skipped) - success only if nothing was supplied, a refusal only if
            # something was and does not fit
            # "no buffer": the path never looked at a buffer's size (it was refused before one was chosen)
            nobuf = False
            sizes = [x for c in p.cond_terms() for x in sym.subterms(c) if x[0] == 'f' and x[2] == 'size']
            if nobuf or not sizes:
                if p.ret != C(ENOMEM):
                    bad = 'path without a buffer returns %s' % fmt(p.ret)
                continue
            b0 = sizes[0][1]
            size0, used0, off0 = (L(('f', b0, x)) for x in ('size', 'used', 'offset'))
            inv0 = [lin.le(off0, used0), lin.le(used0, size0)]
            facts0 = eng.path_facts(p) + inv0
            if p.ret == C(0):
                if not eng.entails(facts0, L(n)):
                    bad = bad or 'reports success without storing anything although octets were supplied (n > 0 is possible on this path): they are dropped unnoticed'
            elif p.ret == C(ENOMEM):
                if eng.feasible(p.cond_terms(), inv0 + [lin.le(L(n), size0 - used0), Lin.const(1) - L(n)]):
                    bad = bad or 'reports -ENOMEM without storing although the data fits'
            else:
                bad = bad or 'unexpected result %s' % fmt(p.ret)
            continue
        nadd += 1
        a = adds[0]
        b = a.args[0]
        size, used, off = (L(('f', b, x)) for x in ('size', 'used', 'offset'))
        inv = [lin.le(off, used), lin.le(used, size)]
        facts = eng.path_facts(p) + inv
        free = size - used
        if a.args[1] != ('v', 'data'):
            bad = 'stores from %s' % fmt(a.args[1])
        if not eng.entails(facts, L(a.args[2]) - free):
            bad = ('stores %s octets, which is bounded by the unread count (used - offset) and not by the free space size - used: '
                   'a frame larger than the block is not detected / the add is refused silently' % fmt(a.args[2]))
        if not eng.entails(facts, L(a.args[2]) - L(n)):
            bad = bad or 'stores more than the caller supplied'
        if p.ret == C(0):
            if not eng.entails(facts, L(n) - free):
                bad = bad or 'reports success although n may exceed the free space (octets are dropped unnoticed)'
            if not eng.entails(facts, L(n) - L(a.args[2])):
                bad = bad or 'reports success although fewer than n octets were stored'
        elif p.ret == C(ENOMEM):
            if eng.feasible(p.cond_terms(), inv + [lin.le(L(n), free)]):
                bad = bad or 'reports -ENOMEM although the data fits'
        else:
            bad = bad or 'unexpected result %s' % fmt(p.ret)
    ck.verdict(bad is None and nadd >= 2, 'C09.a', 'cs_add', where,
               'stores min(n, free space) and reports -ENOMEM exactly when n exceeds the free space (size - used)' if bad is None and nadd >= 2 else (bad or 'store paths not found'))
    # run_continuable_sink: at most one allocation, only while no block and no error
    ck.function('run_continuable_sink')
    ps = eng.paths('run_continuable_sink')
    ck.analysed['paths'] += len(ps)
    bad = None
    nalloc = 0
    cs = ('v', 'driver')
    for p in ps:
        al = p.calls('block_alloc')
        if len(al) > 1:
            bad = 'more than one allocation per call'
        if al:
            nalloc += 1
            conds = [fmt(c) for c in p.cond_terms()]
            if not any('error.id == 0' in c for c in conds) or not any('buffer.data == 0' in c for c in conds):
                bad = 'allocates although a block exists or an error is recorded'
            ok_alloc = any(c == ('cmp', '<=', C(0), al[0].result) for c in p.cond_terms())
            if ok_alloc:
                szs = [e_.args[0] for e_ in p.stores() if fmt(e_.name).endswith('buffer.size')]
                if not szs or 'blocksize' not in fmt(szs[-1]):
                    bad = 'block size recorded as %s' % (fmt(szs[-1]) if szs else None)
            else:
                eids = [e_.args[0] for e_ in p.stores() if fmt(e_.name).endswith('error.id')]
                if not eids or eids[-1] != C(16):       # EBUSY
                    bad = 'allocation failure recorded as %s (expected EBUSY)' % (fmt(eids[-1]) if eids else None)
        if strip_cast(p.ret) != ('v', 'n'):
            bad = bad or 'does not report all n octets as consumed (the deframer must be able to continue)'
        # a store that may have been cut short must leave an error behind: that error is what makes regp_recv answer
        # with a receive-overflow response instead of parsing a truncated frame
        adds = p.calls('cs_add')
        noerr_before = any('error.id == 0' in fmt(c) for c in p.cond_terms())
        if adds and noerr_before and not (al and not any(c == ('cmp', '<=', C(0), al[0].result) for c in p.cond_terms())):
            r = adds[-1].result
            if eng.feasible(p.cond_terms() + [('cmp', '<', r, C(0))]):
                eids = [e_.args[0] for e_ in p.stores() if fmt(e_.name).endswith('error.id')]
                if not eids or not (sym.is_c(eids[-1]) and eids[-1][1] == 12):
                    bad = bad or ('on the path {%s} cs_add may have dropped octets (result < 0 is possible) but error.id is %s: a frame larger than the block is parsed truncated instead of being answered with a receive-overflow response'
                                  % ('; '.join(fmt(c) for c in p.cond_terms() if sym.contains(c, r)) or 'result untested', fmt(eids[-1]) if eids else 'left at 0'))
    ck.verdict(bad is None and nalloc >= 2, 'C09.a', 'run_continuable_sink', cast.where(u.fn('run_continuable_sink')),
               'one allocation at most, only without block and error; failure recorded as EBUSY; always consumes n' if bad is None and nalloc >= 2 else (bad or 'allocation paths not found'))


def rule_alloc(ck):
    """C09.b (allocator half): block_alloc / block_free forward to the configured allocator; the default allocator
    really allocates and frees"""
    rel = 'src/allocator.c'
    try:
        u = cast.load(rel)
    except Exception as e:
        return ck.broken('C09.b', 'allocator.c', rel, str(e))
    ck.unit(rel)
    eng = sym.Engine(u, sizeof=sym.unit_sizeofs(rel, u), inline=set())
    ba, m = ('v', 'ba'), ('v', 'm')
    # block_free
    for fn in ('block_free', 'block_alloc', 'ufw_mfree', 'ufw_malloc'):
        if u.fn(fn) is None:
            ck.broken('C09.b', fn, '', 'function missing')
            continue
        ck.function(fn)
        ps = eng.paths(fn)
        ck.analysed['paths'] += len(ps)
        bad = None
        for p in ps:
            ic = [e for e in p.effects if e.kind in ('icall', 'call')]
            if fn == 'block_free':
                if len(ic) != 1 or not ic[0].name.endswith('free') or list(ic[0].args) != [('f', ba, 'driver'), m]:
                    bad = 'does not hand the block to ba->free(ba->driver, m): %s' % [(e.name, [fmt(a) for a in e.args]) for e in ic]
            elif fn == 'block_alloc':
                if len(ic) != 1 or ic[0].args[0] != ('f', ba, 'driver') or ic[0].args[1] != m or strip_cast(p.ret) != ic[0].result:
                    bad = 'does not forward to the configured allocator and return its result'
                generic = any('type ==' in fmt(c) for c in p.cond_terms())
                if ic and ic[0].name.endswith('generic') and (len(ic[0].args) != 3 or ic[0].args[2] != ('f', ba, 'blocksize')):
                    bad = bad or 'generic allocator is asked for %s octets, not for the block size' % (fmt(ic[0].args[2]) if len(ic[0].args) > 2 else '?')
            elif fn == 'ufw_mfree':
                if len(ic) != 1 or ic[0].name != 'free' or ic[0].args[0] != m:
                    bad = 'the default allocator does not free(m)'
            elif fn == 'ufw_malloc':
                if len(ic) != 1 or ic[0].name != 'malloc' or ic[0].args[0] != ('v', 'n'):
                    bad = 'the default allocator does not malloc(n)'
                else:
                    st = [e for e in p.stores() if strip_cast(e.args[0]) == ic[0].result]
                    if not st:
                        bad = 'the allocated block is not stored through m'
                    null = any(c[0] == 'cmp' and c[1] == '==' and c[3] == C(0) and sym.contains(c[2], ic[0].result) for c in p.cond_terms())
                    if null and not (sym.is_c(p.ret) and p.ret[1] < 0):
                        bad = bad or 'a failed malloc is reported as %s' % fmt(p.ret)
                    if not null and p.ret != C(0):
                        bad = bad or 'a successful malloc is reported as %s' % fmt(p.ret)
        ck.verdict(bad is None, 'C09.b', fn, cast.where(u.fn(fn)),
                   {'block_free': 'forwards (driver, m) to the allocator\'s free', 'block_alloc': 'forwards to the configured allocator with the block size and returns its result',
                    'ufw_mfree': 'free(m)', 'ufw_malloc': 'malloc(n) stored through m; NULL reported as a negative result'}[fn] if bad is None else bad)


def rule_init(ck):
    """C09.a (set-up half): the sink starts without block, without error and empty"""
    u = cast.load(CS_UNIT)
    so = sym.unit_sizeofs(CS_UNIT, u)
    eng = sym.Engine(u, sizeof=so, inline=set())
    fn = 'continuable_sink_init'
    if u.fn(fn) is None:
        return ck.broken('C09.a', fn, '', 'function missing')
    ck.function(fn)
    ps = eng.paths(fn)
    ck.analysed['paths'] += len(ps)
    want = {'driver->buffer.data': C(0), 'driver->buffer.used': C(0), 'driver->buffer.offset': C(0), 'driver->error.id': C(0)}
    bad = None
    for p in ps:
        got = {fmt(e.name): e.args[0] for e in p.stores()}
        for k, v in want.items():
            if strip_cast(got.get(k, ('v', '?'))) != v:
                bad = bad or ('%s is %s after set-up, expected 0: run_continuable_sink decides from it whether to allocate / whether an error is pending'
                              % (k, 'not assigned' if k not in got else fmt(got[k])))
        ci = p.calls('chunk_sink_init')
        if len(ci) != 1 or strip_cast(ci[0].args[2]) != ('v', 'driver') or 'run_continuable_sink' not in fmt(ci[0].args[1]):
            bad = bad or 'the sink is not bound to run_continuable_sink with this driver'
    ck.verdict(bad is None, 'C09.a', fn, cast.where(u.fn(fn)),
               'no block, no pending error, empty buffer; bound to run_continuable_sink' if bad is None else bad)


def rule_bce(ck, R):
    eng = R.engine({'early_ebusy', 'early_erxoverflow'})
    ps = R.paths('regp_recv', 'C09.b', eng)
    if ps is None:
        return
    where = R.where('regp_recv')
    DEFRAME = ('lenp_decode_source_to_sink', 'rfc1055_decode')
    cs = ('v', 'cs')
    csdata = ('f', ('&', ('f', ('&', cs), 'buffer')), 'data')
    nret = 0
    viol = []
    for p in ps:
        if p.end != 'return':
            continue
        df = [e for e in p.calls() if e.name in DEFRAME]
        if not df:
            continue
        nret += 1
        # the sink's state object is whatever this call hands to continuable_sink_init (a local, a member of a local
        # state struct, ...)
        ini = p.calls('continuable_sink_init')
        if ini and len(ini[0].args) >= 2 and strip_cast(ini[0].args[1])[0] == '&':
            cso = strip_cast(ini[0].args[1])[1]
            csdata = ('f', ('&', ('f', ('&', cso), 'buffer')), 'data')
        blk = sym.mem_read(p.mem, csdata)
        fr = sym.mem_read(p.mem, ('f', MF, 'frame'))
        handed = strip_cast(fr) == strip_cast(blk) or ('buffer.data' in fmt(fr) and 'cs' in fmt(fr) and strip_cast(fr)[0] != 'c')
        frees = [e for e in p.effects if (e.kind == 'icall' and e.name.endswith('free')) or
                 (e.kind == 'call' and e.name in ('block_free', 'regp_free'))]
        released = [e for e in frees if any(strip_cast(a) == strip_cast(blk) for a in e.args)]
        key = 'regp_recv:ret@%s' % (cast.node_line(p.node) if p.node else '?')
        if len(released) > 1 or (released and handed):
            viol.append((key, 'block released %d times / released and handed out' % len(released)))
        elif not handed and not released:
            # acceptable only if no block can exist: path condition says data == NULL
            isnull = any(c == ('cmp', '==', blk, C(0)) for c in p.cond_terms())
            if not isnull:
                viol.append((key, 'returns %s after deframing without handing the block to the caller (mf->frame = %s) and without releasing it: the allocated block leaks'
                             % (fmt(p.ret)[:40], fmt(fr))))
        elif released:
            nn = any(c == ('cmp', '!=', blk, C(0)) for c in p.cond_terms())
            if not nn:
                viol.append((key, 'block released without a non-NULL test'))
        # what the caller finds in *mf is what it will hand to regp_process / regp_free: on a path that does not hand a
        # block over, mf->frame has to say so (NULL) - set by THIS call, not left as the caller's object happened to be
        if not handed and strip_cast(fr) != C(0):
            viol.append((key, 'returns %s without a frame for the caller, but mf->frame is %s: a caller that reuses its RPMaybeFrame (the documented receive loop) '
                              'finds the block of an EARLIER call there - it is processed and released a second time'
                         % (fmt(p.ret)[:40], 'left as it was passed in' if strip_cast(fr) == ('f', MF, 'frame') else fmt(fr))))
    seen = set()
    for key, msg in viol:
        if key in seen:
            continue
        seen.add(key)
        ck.violation('C09.b', key, where, msg)
    if not viol:
        ck.holds('C09.b', 'regp_recv', where, 'on all %d return paths after deframing the block is either handed to the caller or released once under a non-NULL test' % nret)
    ck.floor('C09.b', 'return paths of regp_recv after deframing', nret, 6)
    # regp_free forwards to the allocator
    pf = R.paths('regp_free', 'C09.b')
    if pf is not None:
        ok = False
        for p in pf:
            fr = [e for e in p.effects if e.kind == 'icall' and e.name.endswith('free')]
            if fr:
                ok = fr[0].args[1] == ('v', 'f') and any(c == ('cmp', '!=', ('v', 'f'), C(0)) for c in p.cond_terms())
        ck.verdict(ok, 'C09.b', 'regp_free', R.where('regp_free'), 'releases a non-NULL frame through the allocator' if ok else 'does not forward the frame to alloc->free under a non-NULL test')
    # c: parse_frame only with a block
    bad = None
    npf = 0
    for p in ps:
        for e in p.calls('parse_frame'):
            npf += 1
            # the block pointer as passed to the parser: &cs.buffer -> its data field at call time
            nn = [c for c in p.cond_terms() if c[0] == 'cmp' and c[1] == '!=' and c[3] == C(0) and
                  'buffer.data' in fmt(c[2]) and 'cs' in fmt(c[2]) and '->' not in fmt(c[2]).split('buffer.data')[1]]
            if not nn:
                bad = ('parse_frame (which dereferences the block) is reached without cs.buffer.data != NULL established: '
                       'an empty frame (no octet received, nothing allocated) dereferences NULL')
    ck.verdict(bad is None and npf >= 1, 'C09.c', 'regp_recv:null-frame', where,
               'the frame parser runs only when a block was allocated' if bad is None and npf else (bad or 'parse_frame call not found'))
    if bad is None:
        # the no-block case is reported as bad header encoding
        EBADMSG = 74
        okn = False
        for p in ps:
            isnull = [c for c in p.cond_terms() if c[0] == 'cmp' and c[1] == '==' and c[3] == C(0) and 'buffer.data' in fmt(c[2]) and 'cs' in fmt(c[2])]
            if p.end == 'return' and isnull and not p.calls('parse_frame'):
                eid = sym.mem_read(p.mem, ('f', ('&', ('f', MF, 'error')), 'id'))
                metas = [e for e in p.calls('regp_resp_meta')]
                if eid == C(EBADMSG) and metas and metas[0].args[1] == C(R.E['RP_META_EHEADERENC']):
                    okn = True
        ck.verdict(okn, 'C09.c', 'regp_recv:empty-frame', where,
                   'a frame without any octet is classified EBADMSG and answered with META EHEADERENC' if okn else
                   'the no-block case is not reported as bad header encoding (EBADMSG + META EHEADERENC)')
    # e: before parse_frame nothing is read from the (uninitialised) frame object
    bad = None
    for p in ps:
        blk = strip_cast(sym.mem_read(p.mem, csdata))
        for e in p.effects:
            if e.kind == 'call' and e.name == 'parse_frame':
                break
            if e.kind not in ('call', 'icall'):
                continue
            for a in e.args:
                for x in sym.subterms(a):
                    if x[0] == 'f' and sym.rooted_at(x, blk) and x != blk and blk[0] != 'c':
                        bad = ('%s at %s uses %s, a field of the frame object inside the freshly allocated block, before parse_frame initialised it'
                               % (e.name, e.where(), fmt(x)))
    ck.verdict(bad is None, 'C09.e', 'regp_recv:fallback-source', where,
               'early replies take the header from initialised memory only' if bad is None else bad)
    # overflow reply: the header it echoes has to be the head of the received stream, whatever the block's capacity.
    # The block is no source for it: "any allocator block size" includes blocks with less room than a header, and the
    # octets the block could not take are gone.  The sink keeps the head of the stream in the fallback buffer (checked on
    # the sink's side, C09.a head mirror); the receiver hands that buffer on untouched.
    for p in ps:
        er = [e for e in p.calls('send_early_response') if e.args[2] == C(R.E['RP_RESP_ERXOVERFLOW'])]
        if not er:
            continue
        adds = p.calls('byte_buffer_add')
        blk = strip_cast(sym.mem_read(p.mem, csdata))
        bad = None
        for a_ in adds:
            if sym.rooted_at(strip_cast(a_.args[1]), blk) or sym.contains(a_.args[1], blk):
                bad = ('the header for the ERXOVERFLOW reply is rebuilt from the block (%s octets at %s): a block with less room than a header holds only part '
                       'of it, the rest was dropped by the sink, and the reply degenerates into META EHEADERENC' % (fmt(a_.args[2]), fmt(a_.args[1])))
        if bad is None and not _head_mirror_ok(ck):
            bad = 'the fallback buffer is handed on, but the receive sink does not keep the head of the stream in it while a block is in use'
        ck.verdict(bad is None, 'C09.e', 'regp_recv:overflow-header', where,
                   'the ERXOVERFLOW reply parses the head of the stream as the sink kept it in the fallback buffer (independent of the block\'s capacity)'
                   if bad is None else bad)
        break


def _head_mirror_ok(ck):
    """continuable sink: while a block is in use every delivery is also stored into the fallback buffer, min(n, its free
    space) octets from the same data, before the block store"""
    u = cast.load(CS_UNIT)
    ub = cast.load('src/byte-buffer.c')
    so = sym.unit_sizeofs(CS_UNIT, u)
    eng = sym.Engine(u, sizeof=so, inline={'byte_buffer_rest', 'byte_buffer_avail'}, other_units=[ub])
    if u.fn('cs_keep_head') is None or u.fn('run_continuable_sink') is None:
        return False
    cs = ('v', 'cs')
    fb = ('f', cs, 'fallback')
    good = False
    for p in eng.paths('cs_keep_head'):
        adds = p.calls('byte_buffer_add')
        has_block = any(c == ('cmp', '!=', ('f', ('&', ('f', cs, 'buffer')), 'data'), C(0)) or ('buffer.data != 0' in fmt(c)) for c in p.cond_terms())
        has_fb = any('fallback != 0' in fmt(c) for c in p.cond_terms())
        if has_block and has_fb:
            facts = eng.path_facts(p)
            free = L(('f', fb, 'size')) - L(('f', fb, 'used'))
            if not adds:
                # nothing stored: only when there is nothing to store (n == 0 or no room)
                if eng.feasible(p.cond_terms(), [Lin.const(1) - L(('v', 'n')), Lin.const(1) - free]):
                    return False
                continue
            a = adds[0]
            if strip_cast(a.args[0]) != fb or a.args[1] != ('v', 'data'):
                return False
            cnt = L(a.args[2])
            inv = [lin.le(L(('f', fb, 'used')), L(('f', fb, 'size')))]
            if not (eng.entails(facts + inv, cnt - L(('v', 'n'))) and eng.entails(facts + inv, cnt - free)):
                return False
            if eng.feasible(p.cond_terms(), inv + [cnt + 1 - L(('v', 'n')), cnt + 1 - free]):
                return False                 # stores less than both n and the room
            good = True
        elif adds:
            return False
    if not good:
        return False
    # every cs_add of the sink is preceded by the mirror call with the same data
    for p in eng.paths('run_continuable_sink'):
        seen = False
        al = p.calls('block_alloc')
        noblock = al and any(c == ('cmp', '<', al[0].result, C(0)) for c in p.cond_terms())
        for e in p.calls():
            if e.name == 'cs_keep_head' and e.args[1:] == (('v', 'data'), ('v', 'n')):
                seen = True
            if e.name == 'cs_add' and not seen and not noblock:
                return False             # (after a failed allocation there is no block: cs_add itself fills the fallback buffer)
    return True


def rule_head_store_fresh(ck, R):
    """C09.e  The early answers (busy, receive overflow) and the "was part of a frame received" test are built from the
    head store the receive sink mirrors the first octets of THIS frame into.  It has to be empty when the sink is set up:
    on every path of regp_recv the buffer handed to the sink as its fallback is known to hold no octet (used == 0 and
    offset == 0 by its initialiser, or emptied by a byte-buffer call on that very object before the sink is set up).  A
    store kept in the instance and emptied only after a frame was delivered still holds the header of a frame that a
    channel error cut off - the next frame that meets an allocation failure is answered from it."""
    eng = R.engine({'early_ebusy', 'early_erxoverflow'})
    ps = R.paths('regp_recv', 'C09.e', eng)
    if ps is None:
        return
    where = R.where('regp_recv')
    bad = None
    nset = 0
    EMPTIERS = ('byte_buffer_clear', 'byte_buffer_reset', 'byte_buffer_space')
    for p in ps:
        for e in p.calls('continuable_sink_init'):
            nset += 1
            cs = None
            for a in e.args:
                a = strip_cast(a)
                if a[0] == '&' and a[1] in e.pointees and e.pointees[a[1]][0] == 'struct' and 'fallback' in dict(e.pointees[a[1]][2]):
                    cs = dict(e.pointees[a[1]][2])
            if cs is None:
                return ck.broken('C09.e', 'regp_recv:head-store-fresh', where, 'the sink\'s set-up object with its fallback buffer is not readable at continuable_sink_init')
            fbp = strip_cast(cs['fallback'])
            if fbp[0] != '&':
                return ck.broken('C09.e', 'regp_recv:head-store-fresh', where, 'the fallback buffer is %s, not the address of an object' % fmt(fbp))
            K = fbp[1]
            pre = e.pointees.get(K)
            known_empty = pre is not None and pre[0] == 'struct' and strip_cast(dict(pre[2]).get('used', ('?',))) == C(0) \
                and strip_cast(dict(pre[2]).get('offset', ('?',))) == C(0)
            if not known_empty:
                before = p.effects[:p.effects.index(e)]
                known_empty = any(x.kind == 'call' and x.name in EMPTIERS and strip_cast(x.args[0]) == fbp for x in before)
            if not known_empty and bad is None:
                bad = ('the head store handed to the receive sink (%s) is not known to be empty when the sink is set up (%s): it may still hold the first octets of an EARLIER '
                       'frame - one that a channel error cut off - and the busy / overflow answer and the "part of a frame received" test of this call are built from them'
                       % (fmt(fbp), 'an object of the instance, emptied on some paths only' if sym.rooted_at(K, ('v', 'p')) else 'no initialiser or emptying call on this path'))
    if nset == 0:
        return ck.broken('C09.e', 'regp_recv:head-store-fresh', where, 'no continuable_sink_init call found')
    ck.verdict(bad is None, 'C09.e', 'regp_recv:head-store-fresh', where,
               'the head store is empty whenever the receive sink is set up (%d set-ups)' % nset if bad is None else bad)


def rule_d(ck, R):
    ps = R.paths('regp_process', 'C09.d')
    if ps is None:
        return
    where = R.where('regp_process')
    eng = R.eng
    FS = R.so.get('RPFrame', 64)
    alloc = L(('f', ('f', P, 'alloc'), 'blocksize'))
    pay = ('f', ('&', ('f', FRAME, 'payload')), 'data')
    rawm = ('f', ('&', ('f', FRAME, 'raw')), 'memory')
    # background: raw.memory = frame + sizeof(RPFrame) (parse_frame, C09.f) ; 12 <= payload.data - raw.memory <= 16 (header words 6..8)
    bg = lin.eq(L(rawm), L(FRAME) + FS) + [Lin.const(12) - (L(pay) - L(rawm)), (L(pay) - L(rawm)) - 16]
    nread = 0
    bad = None
    for p in ps:
        for e in backend_calls(p):
            if not e.name.endswith('read'):
                continue
            nread += 1
            ws = 2 if 'm16' in e.name else 1
            facts = eng.path_facts(p) + bg
            cnt = L(e.args[1]).scale(ws)
            buf = L(e.args[2])
            goal = (buf - L(FRAME)) + cnt - alloc
            # the entailment works in mathematical integers; it is only meaningful if no arithmetic of the capacity test
            # is carried out in a type narrower than size_t that can wrap
            guards = [c for c in p.cond_terms() if 'blocksize' in fmt(c)]
            wraps = eng.narrow_wraps(guards, [f_ for f_ in facts if isinstance(f_, Lin)])
            if wraps:
                t_, qt_, why_ = wraps[0]
                bad = bad or ('the capacity test of %s computes %s in %s arithmetic, which %s (wraps around): a huge block size passes the test and %s is asked to fill a block the buffer cannot hold'
                              % (e.name, fmt(t_), qt_, why_, e.name))
            if not eng.entails(facts, goal):
                bad = ('%s is asked to fill %s %d-octet words at %s, but the capacity test {%s} ignores the header octets in front of the payload area: '
                       'cannot entail (payload.data - block) + size <= block size' % (
                           e.name, fmt(e.args[1]), ws, fmt(e.args[2]),
                           '; '.join(fmt(c) for c in p.cond_terms() if 'blocksize' in fmt(c) and 'alloc' in fmt(c))))
    ck.verdict(bad is None and nread >= 2, 'C09.d', 'regp_process:read-capacity', where,
               'every backend read is proved to fit between payload.data and the end of the block' if bad is None and nread >= 2 else (bad or 'backend read calls not found'))
    # exactness: a read is refused with ETXOVERFLOW only when its answer really does not fit
    badx = None
    nref = 0
    room = alloc - FS - (L(pay) - L(rawm))
    for p in ps:
        if backend_calls(p):
            continue
        tx = [e for e in p.calls('send_resp_32') if e.args[2] == C(R.E['RP_RESP_ETXOVERFLOW'])]
        if not tx:
            continue
        nref += 1
        mem16 = any(c == ('cmp', '==', ('f', ('&', ('f', P, 'memory')), 'type'), C(R.E['RP_MEMTYPE_16'])) for c in p.cond_terms())
        ws = 2 if mem16 else 1
        fits = L(hdr('blocksize')).scale(ws) - room
        if eng.feasible(p.cond_terms(), bg + [fits]):
            badx = ('a %d-bit read is refused with ETXOVERFLOW under {%s} although its answer can fit exactly (block size x %d <= room behind the header): '
                    'the largest servable read is answered with an error and never reaches the backend'
                    % (8 * ws, '; '.join(fmt(c) for c in p.cond_terms() if 'alloc' in fmt(c)), ws))
    ck.verdict(badx is None and nref >= 2, 'C09.d', 'regp_process:read-exact', where,
               'ETXOVERFLOW is chosen only when block size x word size exceeds the room behind the header' if badx is None and nref >= 2 else (badx or 'ETXOVERFLOW paths not found'))
    # ETXOVERFLOW carries trxbufsize
    ok = False
    for p in ps:
        for e in p.calls('send_resp_32'):
            if e.args[2] == C(R.E['RP_RESP_ETXOVERFLOW']) and not backend_calls(p):
                d = L(e.args[3]) - (alloc - FS)
                ok = ok or (d.is_const() and d.c == 0)
    ck.verdict(ok, 'C09.d', 'regp_process:txoverflow', where, 'a read that cannot fit is answered ETXOVERFLOW carrying the buffer size, without a backend call' if ok else 'ETXOVERFLOW reply not found / wrong payload / after a backend call')


def rule_fg(ck, R):
    eng = R.engine({'raw_with_hdcrc', 'raw_with_plcrc'})
    ps = R.paths('parse_header', 'C09.f', eng)
    if ps is not None:
        where = R.where('parse_header')
        raw, n = ('v', 'buf'), ('v', 'n')
        width = {'bf_ref_u16b': 2, 'bf_ref_u32b': 4, 'bf_ref_u16l': 2, 'bf_ref_u32l': 4}
        nacc = 0
        bad = None
        for p in ps:
            facts = eng.path_facts(p)
            for e in p.calls():
                if e.name in width:
                    off = (L(e.args[0]) - L(raw)).scale(2)
                    ext = off + width[e.name]
                elif e.name == 'ufw_buffer_crc16_arc_u16':
                    ext = (L(e.args[0]) - L(raw)).scale(2) + L(e.args[1]).scale(2)
                elif e.name == 'ufw_crc16_arc_u16':
                    ext = (L(e.args[1]) - L(raw)).scale(2) + L(e.args[2]).scale(2)
                else:
                    continue
                nacc += 1
                if not eng.entails(facts, ext - L(n)):
                    bad = '%s at %s reads up to octet %s of a buffer of n octets: not covered by the length guards {%s}' % (
                        e.name, e.where(), ext, '; '.join(fmt(c) for c in p.cond_terms() if sym.contains(c, n)))
        ck.verdict(bad is None and nacc >= 8, 'C09.f', 'parse_header:bounds', where,
                   'all %d header reads on all paths are covered by the n guards' % nacc if bad is None and nacc >= 8 else (bad or 'header reads not found'))
    # parse_frame: raw window inside the used part of the block
    eng2 = R.engine({'payload_plausible', 'check_payload', 'regp_has_hdcrc', 'regp_has_plcrc'})
    ps = R.paths('parse_frame', 'C09.g', eng2)
    if ps is None:
        return
    where = R.where('parse_frame')
    fb = ('v', 'framebuf')
    data = ('f', fb, 'data')
    FS = R.so.get('RPFrame', 64)
    bad = None
    ncrc = 0
    okraw = True
    for p in ps:
        rms = [e_.args[0] for e_ in p.stores() if fmt(e_.name).endswith('raw.memory')]
        rss = [e_.args[0] for e_ in p.stores() if fmt(e_.name).endswith('raw.size')]
        if not rms or not rss:
            okraw = False
            continue
        rm, rs = rms[0], rss[0]
        d1 = L(rm) - L(data)
        d2 = L(rs) - (L(('f', fb, 'used')) - FS)
        if not (d1.is_const() and d1.c == FS and d2.is_const() and d2.c == 0):
            okraw = False
        ph = p.calls('parse_header')
        if not ph:
            continue
        rc = ph[0].result
        psz = sym.mem_read(p.mem, ('f', ('&', ('f', data, 'payload')), 'size'))
        pdt = sym.mem_read(p.mem, ('f', ('&', ('f', data, 'payload')), 'data'))
        facts = eng2.path_facts(p)
        for e in p.calls():
            if e.name in ('ufw_buffer_crc16_arc_u16', 'ufw_buffer_crc16_arc'):
                ncrc += 1
                ws = 2 if e.name.endswith('_u16') else 1
                ext = L(e.args[1]).scale(ws)
                # the header occupies 2*rc octets of the raw frame: payload.size = raw.size - 2*rc >= 0 needs rc*2 <= raw.size (parse_header guards)
                size_l = L(psz) if psz[0] != 'f' else L(psz)
                if not eng2.entails(facts, ext - size_l):
                    ft = None
                    for c in p.cond_terms():
                        if c[0] == 'cmp' and c[1] == '==' and 'header.type' in fmt(c[2]) and sym.is_c(c[3]):
                            ft = c[3][1]
                    bad = ('payload checksum over %s %d-octet units at %s, but only payload.size = %s octets are present (frame type %s): '
                           'the extent is taken from the header\'s block size, which payload_plausible has not tied to the payload for this frame type'
                           % (fmt(e.args[1]), ws, e.where(), fmt(psz)[:60], ft))
                if e.args[0] != pdt and strip_cast(e.args[0]) != strip_cast(pdt):
                    bad = bad or 'checksum not computed over payload.data'
    ck.verdict(okraw, 'C09.f', 'parse_frame:raw-window', where,
               'raw.memory = block + sizeof(RPFrame), raw.size = used - sizeof(RPFrame)' if okraw else 'raw window is not (block + sizeof(RPFrame), used - sizeof(RPFrame))')
    ck.verdict(bad is None and ncrc >= 2, 'C09.g', 'check_payload:crc-extent', R.where('check_payload'),
               'on every path the checksummed extent is proved <= payload.size' if bad is None and ncrc >= 2 else (bad or 'payload checksum calls not found'))


def run(ck):
    ck.rule('C09.a', 'continuable sink: cs_add stores min(n, free space) and reports -ENOMEM iff n exceeds size-used; one allocation at most; always consumes n')
    ck.rule('C09.b', 'ownership in regp_recv: every return after deframing hands the block to the caller (mf->frame) or releases it exactly once under a non-NULL test; regp_free forwards to the allocator')
    ck.rule('C09.c', 'the frame parser runs only with an allocated block; the no-block (empty frame) case is EBADMSG + META EHEADERENC')
    ck.rule('C09.d', 'read capacity: every backend read fits between payload.data and the end of the block (linear entailment incl. header length); ETXOVERFLOW carries the buffer size')
    ck.rule('C09.e', 'early replies read headers from initialised memory only (fallback buffer or block + sizeof(RPFrame)), never from the unparsed frame object')
    ck.rule('C09.f', 'parse_header: every header read is covered by the length guards; parse_frame raw window = (block + sizeof(RPFrame), used - sizeof(RPFrame))')
    ck.rule('C09.h', 'the counted transfer that moves a length-prefixed frame into the receive sink (sts_n and what it steps with) moves exactly n octets, zero for n == 0, and returns the first hard error (C17.f, C17.b-d re-evaluated)')
    ck.rule('C09.g', 'payload checksum extent <= payload.size on every path (per frame type, with the division axiom for 16-bit words)')
    ck.not_decided += ['memory safety for arbitrary streams as a whole (sanitizer/fuzzer territory); these are the obligations visible in the code structure',
                       'allocator and backend callbacks (user code)']
    ck.assumptions += ['ByteBuffer invariant offset <= used <= size (C18)', 'a frame object lives at the start of its block (regp_recv: mf->frame = cs.buffer.data)']
    rule_a(ck)
    rule_init(ck)
    rule_alloc(ck)
    R = Regp(ck)
    rule_bce(ck, R)
    rule_head_store_fresh(ck, R)
    rule_d(ck, R)
    rule_fg(ck, R)
    from .common import reevaluate
    reevaluate(ck, 'C09.h', 'c17', lambda r, k: (r == 'C17.f' and k.startswith(('sts_n', 'sts_atmost', 'sts_drain'))) or
               (r in ('C17.b', 'C17.c', 'C17.d') and k.startswith(('source_get_chunk', 'source_adapt'))),
               'a length-prefixed frame is moved into the receive sink with sts_n(source, sink, length): exactly that many octets, none for an empty frame, whatever the source answers')
    ck.rule('C09.i', 'on a serial channel the receive path learns where a frame ends - an empty frame included - from the SLIP decoder: its transition table (state x input -> next state, result, octet) is the one C12.e decides (re-evaluated): every delimiter in NORMAL state ends a frame, so a frame shorter than a header is seen and answered as bad header encoding')
    reevaluate(ck, 'C09.i', 'c12', lambda r, k: r == 'C12.e',
               'regp_recv gets one frame per call from rfc1055_decode; frame boundaries and resynchronisation are the decoder\'s transition table')
