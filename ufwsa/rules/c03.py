"""C03 Block reads and range iteration follow the flat address-space model.

a ORDER  b WALK + ARM-AGREEMENT  c FOREACH  d AREA-LOOKUP.
Not decided: wrap-around at the top of the 32-bit address space; callbacks."""
from .. import cast, sym, lin
from ..sym import C, fmt, linearize as L
from ..lin import Lin
from .regs import Regs, T, strip_cast, size_facts, scan_rule, for_headers, wrap_free, config_bits_fixture
from .c02 import walker, WalkAccount, code_of, addr_of, ADDR, N, BUF, loop_const_invariant


def rule_a(ck, R):
    eng = sym.Engine(R.u, sizeof=R.so, inline=set())
    ps = R.paths('register_block_read', 'C03.a', eng)
    if ps is None:
        return
    E = R.E
    INIT = E['REG_TF_INITIALISED']
    bad = None
    reached = False
    for p in ps:
        conds = p.cond_terms()
        names = [e.name for e in p.calls()]
        first = conds[0] if conds else None
        if not (first is not None and first[0] == 'cmp' and first[2] == ('&b', ('f', T, 'flags'), C(INIT))):
            bad = 'INITIALISED is not the first decision'
        if any(c == ('cmp', '==', N, C(0)) for c in conds):
            if names or code_of(p.ret) != C(E['REG_ACCESS_SUCCESS']):
                bad = 'zero-length read is not an immediate success'
            continue
        if 'register_block_read_unsafe' in names:
            reached = True
            i = names.index('register_block_read_unsafe')
            if 'register_block_touches_hole' not in names[:i]:
                bad = 'read reached without the hole check'
            else:
                h = p.calls('register_block_touches_hole')[0]
                if tuple(h.args) != (T, ADDR, N):
                    bad = 'hole check over %s' % [fmt(a) for a in h.args]
                if not any(c[0] == 'cmp' and c[1] == '==' and sym.contains(c[2], h.result) and c[3] == C(E['REG_ACCESS_SUCCESS']) for c in conds):
                    bad = 'read reached although the hole check did not report success'
            r = p.calls('register_block_read_unsafe')[0]
            if tuple(r.args) != (T, ADDR, N, BUF) or strip_cast(p.ret) != r.result:
                bad = 'read called with %s / result not returned' % [fmt(a) for a in r.args]
        elif 'register_block_touches_hole' in names:
            h = p.calls('register_block_touches_hole')[0]
            base = p.ret[1] if p.ret is not None and p.ret[0] == 'struct' else p.ret
            if base != h.result:
                bad = 'hole verdict not returned unchanged'
    if not reached and bad is None:
        bad = 'no path reaches the read'
    ck.verdict(bad is None, 'C03.a', 'register_block_read', R.where('register_block_read'),
               'init test, n==0 shortcut, hole check (returned unchanged) before the read' if bad is None else bad)
    # UNINITIALISED answer
    un = [p for p in ps if code_of(p.ret) == C(E['REG_ACCESS_UNINITIALISED'])]
    ck.verdict(bool(un) and all(not p.calls() for p in un), 'C03.a', 'register_block_read:uninit', R.where('register_block_read'),
               'uninitialised tables are answered UNINITIALISED without any access')


def rule_b(ck, R):
    walker(ck, R, 'register_block_read_unsafe', 'C03.b', 'read')
    walker(ck, R, 'register_block_touches_hole', 'C03.b', None)
    ps = R.paths('register_block_read_unsafe', 'C03.b')
    if ps is None:
        return
    eng = R.eng
    atom = R.so.get('RegisterAtom', 2)
    bad = None
    arms = set()
    acct = WalkAccount(ps)
    for p in ps:
        if p.end != 'loopback' or not p.loops:
            continue
        lmap = p.loops[-1][1]
        P, inv, kinds = acct.progress(p)
        if P is None:
            bad = 'buffer cursor / remaining count not loop-carried'
            continue
        facts = eng.path_facts(p) + inv
        BUFCUR = L(BUF) + P                 # buffer cursor, however the code spells it (a walking pointer, &buf[done])
        step = acct.step(p)
        rd = [e for e in p.effects if e.kind == 'icall' and e.name.endswith('read')]
        ms = p.calls('memset')
        if rd and ms:
            bad = 'both arms executed in one iteration'
        RD = R.E.get('REG_AF_READABLE')
        def has(pred):
            return any(pred(c) for c in p.cond_terms())
        cb_nonnull = has(lambda c: c[0] == 'cmp' and c[1] == '!=' and c[3] == C(0) and strip_cast(c[2])[0] == 'f' and strip_cast(c[2])[2] == 'read')
        cb_null = has(lambda c: c[0] == 'cmp' and c[1] == '==' and c[3] == C(0) and strip_cast(c[2])[0] == 'f' and strip_cast(c[2])[2] == 'read')
        flag_set = has(lambda c: c[0] == 'cmp' and c[1] == '==' and sym.is_c(c[3]) and c[3][1] != 0 and strip_cast(c[2])[0] == '&b' and 'flags' in fmt(c[2]) and c[2][2] == C(RD))
        flag_clr = has(lambda c: c[0] == 'cmp' and ((c[1] == '!=' and sym.is_c(c[3]) and c[3][1] != 0) or (c[1] == '==' and c[3] == C(0))) and strip_cast(c[2])[0] == '&b' and 'flags' in fmt(c[2]) and c[2][2] == C(RD))
        if rd:
            arms.add('read')
            # the area's read callback is used exactly for readable areas: callback present AND the READABLE flag set
            if not (cb_nonnull and flag_set):
                bad = bad or ('the area read callback is invoked on a path where %s: a write-only area is read through its callback, or a NULL callback is called'
                              % ('the READABLE flag is not known to be set' if cb_nonnull else 'the callback is not known to be non-NULL'))
        if ms and not (cb_null or flag_clr):
            bad = bad or 'words are zero-filled on a path where the area is not known to be unreadable'
        if ms:
            arms.add('zero')
            m = ms[0]
            d = L(strip_cast(m.args[0])) - BUFCUR
            if not ((d.is_const() and d.c == 0) or (eng.entails(facts, d) and eng.entails(facts, -d))):
                bad = ('words of a non-readable area are zeroed at %s, but this chunk of the caller\'s buffer starts at the buffer cursor %s '
                       '(the readable arm passes exactly that cursor): writes outside the caller\'s n words' % (fmt(m.args[0]), BUFCUR))
            if m.args[1] != C(0):
                bad = 'non-readable words are filled with %s' % fmt(m.args[1])
            dl = L(m.args[2]) - step.scale(atom)
            if not ((dl.is_const() and dl.c == 0) or (eng.entails(facts, dl) and eng.entails(facts, -dl))):
                bad = 'zero fill covers %s octets, the chunk has %s atoms' % (fmt(m.args[2]), step)
    if arms != {'read', 'zero'} and bad is None:
        bad = 'expected a readable and a zero-fill arm, found %s' % sorted(arms)
    ck.verdict(bad is None, 'C03.b', 'register_block_read_unsafe:arms', R.where('register_block_read_unsafe'),
               'readable and zero-fill arms both fill exactly [buffer cursor, +step) of the caller\'s buffer' if bad is None else bad)


def rule_d(ck, R):
    eng = sym.Engine(R.u, sizeof=R.so, inline=set())
    ps = R.paths('ra_addr_is_part_of', 'C03.d', eng)
    if ps is None:
        return
    a = ('v', 'a')
    base, size = L(('f', a, 'base')), L(('f', a, 'size'))
    inside = [lin.le(base, L(ADDR)), lin.lt(L(ADDR), base + size)]
    bad = None
    for p in ps:
        if p.ret is None or p.ret[0] != 'c':
            bad = 'non-constant verdict'
            continue
        facts = eng.path_facts(p)
        if p.ret[1]:
            if not all(eng.entails(facts, g) for g in inside):
                bad = 'accepts without base <= addr < base+size: %s' % p.describe()
        else:
            if eng.feasible(p.cond_terms(), inside):
                bad = 'rejects an address with base <= addr < base+size: %s' % p.describe()
    ck.verdict(bad is None, 'C03.d', 'ra_addr_is_part_of', R.where('ra_addr_is_part_of'),
               'true exactly for base <= addr < base + size' if bad is None else bad)
    # ra_find_area_by_addr: first area containing addr, areas count when none
    ps = R.paths('ra_find_area_by_addr', 'C03.d', eng)
    if ps is not None:
        bad = None
        for p in ps:
            if p.end != 'return':
                # loopback: area does not contain addr
                pa = p.calls('ra_addr_is_part_of')
                if not pa or not any(c == ('cmp', '==', pa[-1].result, C(0)) for c in p.cond_terms()):
                    bad = 'moves on although the area contains the address'
                continue
            pa = p.calls('ra_addr_is_part_of')
            if pa:
                if pa[-1].args[1] != ADDR or not any(c == ('cmp', '!=', pa[-1].result, C(0)) for c in p.cond_terms()):
                    bad = 'returns an index without a positive containment test for addr'
        ck.verdict(bad is None, 'C03.d', 'ra_find_area_by_addr', R.where('ra_find_area_by_addr'),
                   'returns the first area containing addr, or the area count' if bad is None else bad)


def rule_c(ck, R):
    eng = R.eng
    E = R.E
    # (1) find_reg selection predicate
    ps = R.paths('find_reg', 'C03.c')
    if ps is not None:
        bad = None
        sel = skip = 0
        gap_ok = False
        for p in ps:
            facts = eng.path_facts(p)
            facts = facts + size_facts([f_ for f_ in facts if isinstance(f_, Lin)])
            if not p.loops:
                continue
            lmap = p.loops[-1][1]
            hi = [h for k, (h, pre) in lmap.items() if pre == ('v', 'first')]
            if not hi:
                bad = 'search does not start at the first handle given'
                continue
            ent = sym.add(('f', T, 'entry'), hi[0])
            A = L(('f', ent, 'address'))
            Ss = [x for c in p.cond_terms() for x in sym.subterms(c) if x[0] == 'i' and 'rds_size' in fmt(x[1])]
            # size of the register looked at (rds_size[entry.type]), whether or not the code consults it
            Sterm = Ss[0] if Ss else ('i', ('&', ('v', 'rds_size')), ('f', ent, 'type'))
            S = L(Sterm)
            facts = facts + size_facts([S])
            if p.end == 'loopback' and not p.cond_terms():
                continue
            if p.end == 'return' and p.ret is not None and p.ret[0] == 'struct' and dict(p.ret[2]).get('valid') == C(1):
                sel += 1
                if dict(p.ret[2]).get('handle') != hi[0]:
                    bad = 'selected handle is %s' % fmt(dict(p.ret[2]).get('handle'))
                if not eng.entails(facts, lin.lt(L(ADDR), A + S)):
                    bad = 'selects a register that lies wholly below the start address'
                if eng.feasible(p.cond_terms(), [lin.lt(L(ADDR), A)] + size_facts([A + S])):
                    gap_ok = True
            elif p.end == 'loopback':
                skip += 1
                if not eng.entails(facts, lin.le(A + S, L(ADDR))):
                    bad = bad or ('skips a register under {%s} although it may still overlap the range (its end address + size can lie above addr): '
                                  'a range starting inside a multi-word register does not visit that register' % '; '.join(fmt(c) for c in p.cond_terms()[-2:]))
        # range of the search: every handle of [first, last] is examined (inclusive upper bound, step +1);
        # giving up (valid = false) needs the whole range to have been looked at
        for p in ps:
            if not p.loops:
                continue
            lmap = p.loops[-1][1]
            hk = [(k, h) for k, (h, pre) in lmap.items() if pre == ('v', 'first')]
            if not hk:
                continue
            k, h = hk[0]
            LAST = L(('v', 'last'))
            if p.end == 'loopback':
                if not eng.entails(p, L(h) - LAST):
                    bad = bad or 'a register is examined under {%s}: index <= last is not established' % '; '.join(fmt(c) for c in p.cond_terms() if sym.contains(c, h))[:160]
                d = L(p.mem.get(k, h)) - L(h)
                if not (d.is_const() and d.c == 1):
                    bad = bad or 'the search index moves by %s' % d
            elif p.end == 'return' and p.ret is not None and p.ret[0] == 'struct' and dict(p.ret[2]).get('valid') == C(0):
                if not eng.entails(p, LAST + 1 - L(h)):
                    bad = bad or ('the search gives up under {%s} before the handle last has been examined: a range that starts at the last register of the '
                                  'table finds no start register' % '; '.join(fmt(c) for c in p.cond_terms() if sym.contains(c, h))[:160])
        if sel == 0 and bad is None:
            bad = 'no selecting path'
        if sel and not gap_ok and bad is None:
            bad = ('selects the start register only if it contains the start address (register address <= addr): a range starting in a gap '
                   'between registers finds no start register and the iteration visits nothing')
        ck.verdict(bad is None, 'C03.c', 'find_reg', R.where('find_reg'),
                   'selects the first register not wholly below addr (skips only registers ending at or below addr)' if bad is None else bad)
    # (2) register_foreach_in
    if R.u.fn('find_reg') is None or R.u.fn('find_area') is None:
        return          # reported above as vanished anchors; what follows reads register_foreach_in in terms of their calls
    eng2 = sym.Engine(R.u, sizeof=R.so, inline=set())
    # find_area is only a hint for where the register search starts - but a wrong hint that lies *behind* the area of
    # addr makes the search skip registers: a valid result must be an area that contains addr
    ps = R.paths('find_area', 'C03.c', eng2)
    if ps is not None:
        bad = None
        nsel = 0
        for p in ps:
            if p.end != 'return' or p.ret is None or p.ret[0] != 'struct':
                continue
            d_ = dict(p.ret[2])
            if d_.get('valid') == C(0):
                continue
            nsel += 1
            tests = [e for e in p.calls('ra_addr_is_part_of')]
            hnd = d_.get('handle')
            ok = False
            for e in tests:
                truthy = any(c[0] == 'cmp' and c[1] == '!=' and strip_cast(c[2]) == e.result and c[3] == C(0) for c in p.cond_terms())
                a0 = strip_cast(e.args[0])
                if truthy and e.args[1] == ADDR and hnd is not None and a0[0] == '+' and a0[1] == ('f', T, 'area'):
                    # the hint may be that area or any earlier one (areas and registers are sorted): handle <= index tested
                    if eng2.entails(p, L(strip_cast(hnd)) - L(a0[2])):
                        ok = True
            if not ok:
                bad = bad or ('a valid result (handle %s) is returned on a path where that area is not known to contain addr ({%s}): '
                              'the register search then starts behind registers of the range' % (fmt(hnd) if hnd else '?', '; '.join(fmt(c) for c in p.cond_terms()[-2:])[:160]))
        if nsel == 0:
            bad = bad or 'no path returns a valid area'
        ck.verdict(bad is None, 'C03.c', 'find_area', R.where('find_area'),
                   'a valid result is the area for which ra_addr_is_part_of(area, addr) held, or an earlier one' if bad is None else bad)
    ps = R.paths('register_foreach_in', 'C03.c', eng2)
    if ps is not None:
        bad = None
        iterated = False
        entries = ('f', T, 'entries')
        off = ('v', 'off')
        for p in ps:
            names = [e.name for e in p.calls()]
            conds = p.cond_terms()
            if any(c == ('cmp', '==', off, C(0)) for c in conds) or any(c == ('cmp', '==', entries, C(0)) for c in conds):
                if names or code_of(p.ret) != C(E['REG_ACCESS_SUCCESS']):
                    bad = 'empty range / empty table is not an immediate success'
                continue
            if code_of(p.ret) == C(E['REG_ACCESS_UNINITIALISED']):
                if names:
                    bad = 'table accessed before the INITIALISED test'
                continue
            fr = p.calls('find_reg')
            it = p.calls('reg_iterate')
            if it:
                iterated = True
                a = it[0].args
                if a[0] != T or a[3] != ('v', 'f') or a[4] != ('v', 'arg'):
                    bad = 'reg_iterate called with %s' % [fmt(x) for x in a]
                # the last address of the range is min(addr + off - 1, top of the address space), as a mathematical value
                TOP = (1 << 32) - 1
                facts = R.eng.path_facts(p)
                want = L(ADDR) + L(off) - 1
                d = L(a[2]) - want
                exact = d.is_const() and d.c == 0
                inside = R.eng.entails(facts, want - TOP)
                beyond = R.eng.entails(facts, Lin.const(TOP + 1) - want)
                if exact and not inside and not beyond:
                    pass                 # written as the plain sum: whether it can wrap is the matter of C03.e
                elif exact and inside:
                    pass
                elif a[2] == C(TOP) and beyond:
                    pass
                else:
                    bad = 'iteration end is %s under {%s}, expected addr + off - 1 (cut at the top of the address space)' % (
                        fmt(a[2]), '; '.join(fmt(c) for c in conds if sym.contains(c, off))[:160])
                if strip_cast(p.ret) != it[0].result:
                    bad = 'iteration result not returned'
                if not fr or 'handle' not in fmt(a[1]) or not sym.contains(a[1], fr[-1].result):
                    # ... or at the register behind the last one of the area that contains addr, when none of that
                    # area's own registers reaches addr: the table is sorted and linked (C04.e), so that register lies in
                    # a later area, wholly above addr - it is the first register not below addr
                    fa_ = p.calls('find_area')
                    end_ = strip_cast(fr[-1].args[2]) if fr else None
                    has_regs_ = any(c[0] == 'cmp' and c[1] == '!=' and c[3] == C(0) and 'entry.count' in fmt(c[2]) and fa_ and sym.contains(c[2], fa_[-1].result) for c in conds)
                    behind = fr and fa_ and has_regs_ and 'entry.last' in fmt(end_) and sym.contains(end_, fa_[-1].result) and \
                        L(strip_cast(a[1])) == L(end_) + 1 and \
                        any(c[0] == 'cmp' and c[1] == '==' and sym.contains(c[2], fr[-1].result) and 'valid' in fmt(c[2]) and c[3] == C(0) for c in conds) and \
                        R.eng.entails(R.eng.path_facts(p), L(strip_cast(a[1])) + 1 - L(entries))
                    if not behind:
                        bad = 'iteration does not start at the register found'
            elif fr:
                # gave up: the search must have covered the rest of the table
                last = fr[-1].args[2]
                d = L(last) - (L(entries) - 1)
                # (searched to the last register of the table: literally, or because the path knows that the end of the
                #  search is not in front of it)
                if not (d.is_const() and d.c == 0) and not R.eng.entails(R.eng.path_facts(p), (L(entries) - 1) - L(strip_cast(last))):
                    bad = ('gives up after searching only up to %s: registers of later areas that overlap the range are never visited '
                           '(the search must extend to the last register of the table)' % fmt(last))
            for f_ in fr:
                if f_.args[3] != ADDR:
                    bad = 'find_reg searches for %s' % fmt(f_.args[3])
                # where the search starts: at register 0, or at the first register of the area containing addr
                st_ = strip_cast(f_.args[1])
                fa = p.calls('find_area')
                okstart = st_ == C(0) or (fa and 'entry.first' in fmt(st_) and sym.contains(st_, fa[-1].result)) or \
                    (st_[0] in ('h', 'v') and 'first' in fmt(st_))
                if not okstart:
                    bad = bad or 'the start register is searched from handle %s on: registers before it are never candidates' % fmt(f_.args[1])
                d = L(f_.args[2]) - (L(entries) - 1)
                if not (d.is_const() and d.c == 0):
                    # a search confined to the registers of the area that contains addr is complete when the path goes on
                    # with the register behind that area's last one (or knows that there is none): see above
                    end_ = strip_cast(f_.args[2])
                    # (an area without registers has first = last = 0, which names no register of its own: the confined
                    #  search and the register "behind the last one" mean something only where the path knows count != 0)
                    has_regs = any(c[0] == 'cmp' and c[1] == '!=' and c[3] == C(0) and 'entry.count' in fmt(c[2]) and fa and sym.contains(c[2], fa[-1].result) for c in conds)
                    own = fa and has_regs and 'entry.last' in fmt(end_) and sym.contains(end_, fa[-1].result)
                    found = any(c[0] == 'cmp' and c[1] == '!=' and sym.contains(c[2], f_.result) and 'valid' in fmt(c[2]) and c[3] == C(0) for c in conds)
                    it_ = p.calls('reg_iterate')
                    goes_on = it_ and L(strip_cast(it_[0].args[1])) == L(end_) + 1
                    none_left = R.eng.entails(R.eng.path_facts(p), (L(entries) - 1) - L(end_))
                    if not (own and (found or goes_on or none_left)):
                        bad = bad or 'the start register is searched only up to %s, not to the last register of the table' % fmt(f_.args[2])
        if not iterated and bad is None:
            bad = 'no path iterates'
        ck.verdict(bad is None, 'C03.c', 'register_foreach_in', R.where('register_foreach_in'),
                   'init test, empty shortcuts, start register searched up to the end of the table before giving up, iteration over [start, addr+off-1]' if bad is None else bad)
    # (3) reg_iterate
    ps = R.paths('reg_iterate', 'C03.c', eng2)
    if ps is not None:
        bad = None
        seen = set()
        for p in ps:
            if not p.loops:
                continue
            lmap = p.loops[-1][1]
            hk = [(k, h) for k, (h, pre) in lmap.items() if pre == ('v', 'start')]
            cb = [e for e in p.effects if e.kind == 'icall' and e.name == 'f']
            if not cb:
                # leaving the loop without a call: only when the handle is past the table or
                # the register starts above the range end
                hk0 = [(k, h) for k, (h, pre) in lmap.items() if pre == ('v', 'start')]
                if hk0 and p.end == 'return':
                    h0 = hk0[0][1]
                    A0 = L(('f', sym.add(('f', T, 'entry'), h0), 'address'))
                    origin0 = eng2.clobber_origin
                    conds0 = [sym.substitute(c_, origin0) for c_ in p.cond_terms()]
                    if eng2.feasible(conds0, [lin.le(L(h0) + 1, L(('f', T, 'entries'))), lin.le(A0, L(('v', 'end')))]):
                        bad = 'iteration stops although the next register starts at or below the range end (a register beginning exactly at the last address is skipped)'
                continue
            if not hk:
                bad = 'handle variable not loop-carried from start'
                continue
            k, h = hk[0]
            if len(cb) != 1 or tuple(cb[0].args) != (T, h, ('v', 'arg')):
                bad = 'callback called with %s' % [fmt(a) for a in cb[0].args]
            r = cb[0].result
            # table fields read after a callback appear as 'clobbered' atoms; callbacks do not
            # restructure the table (user-code assumption): map them back to the fields
            origin = eng2.clobber_origin
            facts = eng2.path_facts([sym.substitute(c_, origin) for c_ in p.cond_terms()])
            A = L(('f', sym.add(('f', T, 'entry'), h), 'address'))
            if not eng2.entails(facts, A - L(('v', 'end'))):
                bad = 'callback reached for a register starting above the range end'
            if not eng2.entails(facts, L(h) + 1 - L(('f', T, 'entries'))):
                bad = 'callback reached for a handle beyond the table'
            if p.end == 'loopback':
                seen.add('next')
                if not any(c == ('cmp', '==', r, C(0)) for c in p.cond_terms()):
                    bad = 'continues although the callback result is not 0'
                d = L(p.mem.get(k, h)) - L(h)
                if not (d.is_const() and d.c == 1):
                    bad = 'handle advances by %s' % d
            else:
                neg = any(c == ('cmp', '<', r, C(0)) for c in p.cond_terms())
                pos = any(c == ('cmp', '<', C(0), r) or (c == ('cmp', '<=', C(0), r)) for c in p.cond_terms())
                if neg:
                    seen.add('fail')
                    ok = code_of(p.ret) == C(E['REG_ACCESS_FAILURE']) and L(sym.substitute(addr_of(p.ret), origin)) == A
                    if not ok:
                        bad = 'negative callback result gives %s at %s' % (fmt(code_of(p.ret) or C(-1)), fmt(addr_of(p.ret) or C(-1)))
                else:
                    seen.add('stop')
                    cd = code_of(p.ret)
                    hcode = [h2 for k2, (h2, pre2) in lmap.items() if fmt(k2) == 'rv.code'] + \
                            [sym.field_of_value(h2, 'code') for k2, (h2, pre2) in lmap.items() if fmt(k2) == 'rv']
                    inv_ok = loop_const_invariant(ps, 'rv.code', C(E['REG_ACCESS_SUCCESS']))
                    if not (cd == C(E['REG_ACCESS_SUCCESS']) or (hcode and cd == hcode[0] and inv_ok)):
                        bad = 'positive callback result does not stop with success'
        if seen != {'next', 'fail', 'stop'} and bad is None:
            bad = 'callback result arms found: %s' % sorted(seen)
        ck.verdict(bad is None, 'C03.c', 'reg_iterate', R.where('reg_iterate'),
                   'ascending handles while register address <= end; 0 -> next, <0 -> FAILURE at that register, >0 -> stop with success' if bad is None else bad)


def run(ck):
    ck.rule('C03.f', 'the per-area register records (first / last / count) that range iteration starts from are those of the current initialisation, also for areas that hold no register (C04.e re-evaluated)')
    ck.rule('C03.a', 'register_block_read: init test, zero-length success, hole verdict returned unchanged before the read')
    ck.rule('C03.b', 'read walker: cursor/buffer/count advance together; readable arm and zero-fill arm both fill exactly [buffer cursor, +step)')
    ck.rule('C03.c', 'range iteration: start register = first register not wholly below addr, searched to the end of the table; ascending while register address <= addr+off-1; callback result table')
    ck.rule('C03.d', 'ra_addr_is_part_of == base <= addr < base+size; area lookup returns the first containing area')
    ck.rule('C03.e', 'the end of the iteration range (addr + off - 1) cannot wrap around 2^32: a range reaching beyond the last address is cut there, not folded to the bottom of the address space')
    ck.not_decided += ['wrap-around at the top of the 32-bit address space in the block walkers and range tests (areas ending at 2^32, see known findings of C04.g)', 'area read callbacks / iteration callbacks (user code)']
    ck.assumptions += ['table invariants established by register_init (C04)', 'rds_size of a real register is 1, 2 or 4 (C01.a)']
    R = Regs(ck)
    rule_a(ck, R)
    scan_rule(R, 'C03.d', 'ra_find_area_by_addr', 'areas')
    rule_b(ck, R)
    rule_c(ck, R)
    rule_d(ck, R)
    wrap_free(R, 'C03.e', 'register_foreach_in')
    ck.rule('C03.g', 'an area stays readable / not readable as configured: no store into RegisterArea.flags changes REG_AF_READABLE (words of areas that are not readable read as zero - for as long as the library itself does not flip the bit)')
    from .regs import config_bits_rule
    config_bits_rule(R, 'C03.g', ('REG_AF_READABLE',), 'a block read of an area configured write-only hands out its content from then on (or a readable area reads as zeroes)')
    config_bits_fixture(R, 'C03.g')
    ck.rule('C03.h', 'a refused block read / hole test / range iteration leaves nothing behind in the table (no memo, cursor or mark on a refusing path): the answer to a request does not depend on the requests made before it')
    from .regs import refusals_leave_no_trace
    refusals_leave_no_trace(R, 'C03.h', ('register_block_read', 'register_block_touches_hole', 'register_foreach_in'))
    from .common import reevaluate
    reevaluate(ck, 'C03.f', 'c04', lambda r, k: r == 'C04.e',
               'range iteration starts its search at the first register recorded for the area that contains the start address')
