"""C19 Ring buffer is a bounded FIFO with faithful iterators -- narrow structural clause.

Decided (instantiation octet_ring): the index-range invariant
  head < datasize  and  tail <= datasize  (tail == datasize encodes "empty")
is inductive over every operation (a: every data[] access is then in range, the
sentinel is never dereferenced; b: every store to head/tail/index is reduced
modulo the capacity, the sentinel, or head), size() stays within [0, capacity],
iterators are constructed with steps = size() and advance decrements once (c).
NOT decided (genuinely not applicable to this technique): queue semantics --
oldest-first order, drop/evict policy, size/empty/full agreeing with a queue
model, iterator order -- over all histories."""
from .. import cast, sym, lin
from ..sym import C, fmt, linearize as L
from ..lin import Lin

UNIT = 'src/octet-ring.c'
ITER_UNIT = 'src/ring-buffer-iter.c'
CC = ('v', 'c')


def fld(n, base=CC):
    return ('f', base, n)


def strip_cast(t):
    while t is not None and t[0] == 'cast':
        t = t[2]
    return t


def run(ck):
    ck.rule('C19.a', 'every data[] access of the ring operations is proved in range from the invariant and the path guards; data[tail] is read only when tail != datasize (non-empty)')
    ck.rule('C19.b', 'index-range invariant head < datasize, tail <= datasize is preserved by every operation (stores are % capacity, the sentinel, head, or 0); size() is within [0, capacity] and >= 1 when non-empty')
    ck.rule('C19.d', 'single-step transition relation of every operation on (data, head, tail, datasize) equals the queue step it stands for (drop / evict-oldest / append at head / take at tail / clear), size formula by case, predicates exact')
    ck.rule('C19.c', 'iterators: steps = size(), size = capacity, start index tail resp. head-1 (mod capacity); done iff steps == 0; advance decrements steps exactly once and keeps index < size')
    ck.not_decided += ['queue semantics (oldest-first, drop/evict policy, size/full/empty agreeing with a queue model, iterator order) over all histories: '
                       'a data-content property of modular index arithmetic; needs state exploration or a solver (different technique family)',
                       'inspect() on an iterator that is already done (index may be the empty sentinel)']
    ck.assumptions += ['capacity >= 1', 'octet_ring is the instantiation analysed (the macros generate the same code for other element types)']
    u = cast.load(UNIT)
    ck.unit(UNIT)
    so = sym.unit_sizeofs(UNIT, u)
    eng = sym.Engine(u, sizeof=so, inline={'octet_ring_empty', 'octet_ring_full', 'octet_ring_advance_head', 'octet_ring_advance_tail', 'octet_ring_size'})
    eng.record_loads = True
    head, tail, ds = L(fld('head')), L(fld('tail')), L(fld('datasize'))
    inv = [lin.lt(head, ds), lin.le(tail, ds), Lin.const(1) - ds]
    ops = ['octet_ring_get', 'octet_ring_put', 'octet_ring_clear', 'octet_ring_override_if_full', 'octet_ring_size',
           'octet_ring_empty', 'octet_ring_full']
    n_acc = 0
    for fn in ops:
        ck.function(fn)
        if u.fn(fn) is None:
            ck.broken('C19.b', fn, '', 'function missing')
            continue
        try:
            ps = eng.paths(fn)
        except (sym.Unsupported, sym.PathLimit) as e:
            ck.broken('C19.b', fn, cast.where(u.fn(fn)), str(e))
            continue
        ck.analysed['paths'] += len(ps)
        where = cast.where(u.fn(fn))
        bad_a = bad_b = None
        for p in ps:
            facts = eng.path_facts(p) + inv
            for e in p.effects:
                key = None
                if e.kind == 'load':
                    key = e.name
                elif e.kind == 'store' and e.name[0] == 'i':
                    key = e.name
                if key is None or key[0] != 'i' or L(key[1]).t.get(fld('data')) != 1:
                    continue
                n_acc += 1
                idx = L(key[1]) - L(fld('data')) + L(key[2])
                # index expressed in pre-state fields or stored values
                if not (eng.entails(facts, -idx) and eng.entails(facts, idx + 1 - ds)):
                    bad_a = 'data[%s] at %s is not proved inside [0, datasize) (for tail this means the empty sentinel can be dereferenced)' % (idx, e.where())
            h2 = L(sym.mem_read(p.mem, fld('head')))
            t2 = L(sym.mem_read(p.mem, fld('tail')))
            d2 = L(sym.mem_read(p.mem, fld('datasize')))
            if not (eng.entails(facts, lin.lt(h2, d2)) and eng.entails(facts, lin.le(t2, d2)) and eng.entails(facts, -t2) and eng.entails(facts, -h2)):
                bad_b = "after %s: head' = %s, tail' = %s do not provably satisfy head' < datasize, tail' <= datasize" % (p.describe(), h2, t2)
            rr = p.ret
            while rr is not None and rr[0] == 'cast':
                rr = rr[2]
            is_counter = rr is not None and rr[0] == 'f' and rr[1] == ('v', 'c') and rr[2] not in ('head', 'tail', 'datasize', 'data', 'override_if_full')
            if fn == 'octet_ring_size' and p.ret is not None and not is_counter:
                # (a size kept in a counter of its own is the queue length by induction over the operations: C19.d)
                r = L(p.ret)
                if not (eng.entails(facts, r - ds) and eng.entails(facts, -r)):
                    bad_b = 'size() = %s not proved within [0, capacity]' % r
                nonempty = any(c[0] == 'cmp' and c[1] == '!=' and {c[2], c[3]} == {fld('tail'), fld('datasize')} for c in p.cond_terms())
                if nonempty and not eng.entails(facts, Lin.const(1) - r):
                    bad_b = 'size() of a non-empty ring can be %s (< 1)' % r
        ck.verdict(bad_a is None, 'C19.a', fn, where, 'all data[] accesses in range' if bad_a is None else bad_a)
        ck.verdict(bad_b is None, 'C19.b', fn, where, 'index-range invariant preserved' if bad_b is None else bad_b)
    ck.floor('C19.a', 'data[] accesses in ring operations', n_acc, 2)
    rule_shapes(ck, u, so, inv, head, tail, ds)
    # init establishes the invariant
    if u.fn('octet_ring_init'):
        ck.function('octet_ring_init')
        ps = eng.paths('octet_ring_init')
        ok = True
        for p in ps:
            if p.end != 'return' and p.end != 'end':
                continue
            h2, t2, d2 = (sym.mem_read(p.mem, fld(x)) for x in ('head', 'tail', 'datasize'))
            if not (h2 == C(0) and t2 == ('v', 'size') and d2 == ('v', 'size')):
                ok = False
            if sym.mem_read(p.mem, fld('override_if_full')) != C(0) or sym.mem_read(p.mem, fld('data')) != ('v', 'buf'):
                ok = False
        ck.verdict(ok, 'C19.b', 'octet_ring_init', cast.where(u.fn('octet_ring_init')), 'init: data = buf, head = 0, tail = datasize = size (empty), override mode off' if ok else 'init does not establish data = buf, head = 0, tail = datasize = size, override_if_full = false')
        # the clearing loop of init writes only data[0 .. size)
        bad_i = None
        nst = 0
        SZ = L(('v', 'size'))
        for p in ps:
            facts = eng.path_facts(p)
            for e in p.effects:
                if e.kind == 'store' and e.name[0] == 'i' and e.inloop:
                    nst += 1
                    base = strip_cast(e.name[1])
                    if base not in (('v', 'buf'), fld('data')):
                        bad_i = bad_i or 'init writes through %s' % fmt(e.name[1])
                    idx = L(e.name[2])
                    if not (eng.entails(facts, -idx) and eng.entails(facts, idx + 1 - SZ)):
                        bad_i = bad_i or ('init writes element [%s] under {%s}: not proved inside the %s elements handed in (one element beyond the buffer is written)'
                                          % (idx, '; '.join(fmt(c) for c in p.cond_terms()), 'size'))
        if nst:
            ck.verdict(bad_i is None, 'C19.a', 'octet_ring_init', cast.where(u.fn('octet_ring_init')),
                       'the clearing loop writes only elements [0, size)' if bad_i is None else bad_i)
    # iterator construction
    it = ('v', 'iter')
    if u.fn('octet_ring_iter'):
        ck.function('octet_ring_iter')
        eng2 = sym.Engine(u, sizeof=so, inline=set())
        ps = eng2.paths('octet_ring_iter')
        bad = None
        modes = {}
        for p in ps:
            facts = eng2.path_facts(p) + inv
            st = {e.name[2]: e.args[0] for e in p.stores() if e.name[0] == 'f' and e.name[1] == it}
            szc = p.calls('octet_ring_size')
            if not szc or st.get('steps') != szc[0].result or szc[0].args[0] != CC:
                bad = 'steps = %s, expected octet_ring_size(c)' % (fmt(st.get('steps')) if st.get('steps') else None)
            if st.get('size') != fld('datasize'):
                bad = 'iterator size = %s, expected the capacity' % (fmt(st.get('size')) if st.get('size') else None)
            # rb_iter_advance dispatches on iter->mode: the constructor has to record the direction it was asked for
            if strip_cast(st.get('mode') or ('c', -1)) != ('v', 'mode'):
                bad = bad or ('iterator mode = %s, expected the mode parameter: rb_iter_advance steps in the direction stored in the iterator, '
                              'an iterator that does not record it walks in whatever direction the caller\'s memory held' % (fmt(st['mode']) if st.get('mode') else 'not stored'))
            mv = None
            for c in p.cond_terms():
                if c[0] == 'cmp' and c[1] == '==' and c[2] == ('v', 'mode') and sym.is_c(c[3]):
                    mv = c[3][1]
            if mv is None:
                continue
            ix = st.get('index')
            if ix is None:
                bad = 'mode %d: index not set' % mv
                continue
            modes[mv] = ix
            if mv == u.enums.get('RING_BUFFER_ITER_OLD_TO_NEW'):
                if ix != fld('tail'):
                    bad = 'old-to-new iteration starts at %s, expected tail' % fmt(ix)
            elif mv == u.enums.get('RING_BUFFER_ITER_NEW_TO_OLD'):
                # head - 1 modulo capacity
                d = L(ix) - (head - 1)
                d2 = L(ix) - (ds - 1)
                hz = any(c == ('cmp', '==', fld('head'), C(0)) for c in p.cond_terms())
                if not ((hz and d2.is_const() and d2.c == 0) or ((not hz) and d.is_const() and d.c == 0)):
                    bad = 'new-to-old iteration starts at %s, expected head - 1 (mod capacity)' % fmt(ix)
                if not (eng2.entails(facts, L(ix) + 1 - ds) and eng2.entails(facts, -L(ix))):
                    bad = 'start index %s not proved in range' % fmt(ix)
        if len(modes) < 2 and bad is None:
            bad = 'iteration modes found: %s' % sorted(modes)
        ck.verdict(bad is None, 'C19.c', 'octet_ring_iter', cast.where(u.fn('octet_ring_iter')),
                   'steps = size(), size = capacity, start index tail / head-1 mod capacity' if bad is None else bad)
    # generic iterator functions
    ui = cast.load(ITER_UNIT)
    ck.unit(ITER_UNIT)
    engi = sym.Engine(ui, sizeof={})
    if ui.fn('rb_iter_done'):
        ck.function('rb_iter_done')
        ps = engi.paths('rb_iter_done')
        ok = all(p.ret == ('cmp', '==', ('f', it, 'steps'), C(0)) for p in ps) and ps
        ck.verdict(bool(ok), 'C19.c', 'rb_iter_done', cast.where(ui.fn('rb_iter_done')), 'done iff steps == 0' if ok else 'done is not steps == 0')
    if ui.fn('rb_iter_advance'):
        ck.function('rb_iter_advance')
        ps = engi.paths('rb_iter_advance')
        bad = None
        index, size, steps = (('f', it, x) for x in ('index', 'size', 'steps'))
        ivinv = [lin.lt(L(index), L(size)), Lin.const(1) - L(size)]
        for p in ps:
            facts = engi.path_facts(p) + ivinv
            s2 = sym.mem_read(p.mem, steps)
            d = L(s2) - L(steps)
            if not (d.is_const() and d.c == -1):
                bad = 'steps changes by %s per advance (expected -1)' % d
            if len([e for e in p.stores() if e.name == steps]) != 1:
                bad = 'steps stored %d times' % len([e for e in p.stores() if e.name == steps])
            i2 = sym.mem_read(p.mem, index)
            mv = None
            for c in p.cond_terms():
                if c[0] == 'cmp' and c[1] == '==' and c[2] == ('f', it, 'mode') and sym.is_c(c[3]):
                    mv = c[3][1]
            if mv is not None:
                if not (engi.entails(facts, L(i2) + 1 - L(size)) and engi.entails(facts, -L(i2))):
                    bad = "index' = %s not proved inside [0, size)" % fmt(i2)
                if mv == ui.enums.get('RING_BUFFER_ITER_OLD_TO_NEW'):
                    if strip(i2) != ('%', sym.add(index, C(1)), size):
                        bad = "old-to-new advance sets index' = %s, expected (index + 1) %% size" % fmt(i2)
                elif mv == ui.enums.get('RING_BUFFER_ITER_NEW_TO_OLD'):
                    z = any(c == ('cmp', '==', index, C(0)) for c in p.cond_terms())
                    d1 = L(i2) - (L(size) - 1)
                    d2 = L(i2) - (L(index) - 1)
                    if not ((z and d1.is_const() and d1.c == 0) or (not z and d2.is_const() and d2.c == 0)):
                        bad = "new-to-old advance sets index' = %s, expected index - 1 (mod size)" % fmt(i2)
            if strip(p.ret) != strip(i2) and p.ret != i2:
                bad = bad or 'advance does not return the new index'
        ck.verdict(bad is None, 'C19.c', 'rb_iter_advance', cast.where(ui.fn('rb_iter_advance')),
                   'steps - 1 exactly once; index stays in [0, size) and moves by +1 / -1 modulo size' if bad is None else bad)


def strip(t):
    while t is not None and t[0] == 'cast':
        t = t[2]
    return t


def rule_shapes(ck, u, so, inv, head, tail, ds):
    """C19.d: the single-step transition relation of each operation on the
    representation (data, head, tail, datasize) equals the queue step it stands for.
    Representation: queued elements are data[tail], data[tail+1 mod ds], ... up to
    head-1; tail == ds encodes empty; head == tail encodes full."""
    eng = sym.Engine(u, sizeof=so, inline={'octet_ring_empty', 'octet_ring_full', 'octet_ring_advance_head', 'octet_ring_advance_tail'})
    eng.record_loads = True
    H, T, D, DATA, OV = fld('head'), fld('tail'), fld('datasize'), fld('data'), fld('override_if_full')

    def nxt(x):
        return ('%', sym.add(x, C(1)), D)

    def conds_of(p):
        return p.cond_terms()
    # predicates
    for fn, want in (('octet_ring_empty', ('cmp', '==', T, D)), ('octet_ring_full', ('cmp', '==', H, T))):
        e0 = sym.Engine(u, sizeof=so, inline=set())
        ps = e0.paths(fn)
        ok = len(ps) == 1 and ps[0].ret in (want, ('cmp', '==', want[3], want[2]))
        ck.verdict(ok, 'C19.d', fn, cast.where(u.fn(fn)), '%s iff %s' % (fn.split('_')[-1], fmt(want)) if ok else '%s is %s' % (fn, fmt(ps[0].ret) if ps and ps[0].ret else None))
    steps = []          # (operation, queue step, path, change of the element count)
    # get
    ps = eng.paths('octet_ring_get')
    bad = None
    kinds = set()
    for p in ps:
        cs = conds_of(p)
        empty = ('cmp', '==', T, D) in cs
        h2, t2 = sym.mem_read(p.mem, H), sym.mem_read(p.mem, T)
        dst = [e for e in p.stores() if e.name[0] == 'i']
        if dst:
            bad = 'get writes into the element array'
        if empty:
            kinds.add('empty')
            steps.append(('get', 'empty', p, 0))
            if p.ret != C(0) or h2 != H or t2 != T:
                bad = 'get on an empty ring returns %s / changes the indices' % fmt(p.ret)
            continue
        kinds.add('take')
        steps.append(('get', 'take', p, -1))
        if strip(p.ret) != ('i', DATA, T):
            bad = 'get returns %s, the oldest element is data[tail]' % fmt(p.ret)
        if h2 != H:
            bad = 'get moves head'
        becomes_empty = ('cmp', '==', nxt(T), H) in cs
        if becomes_empty:
            if t2 != D:
                bad = 'taking the last element leaves tail = %s, expected the empty encoding' % fmt(t2)
        else:
            if strip(t2) != nxt(T):
                bad = "get sets tail' = %s, expected (tail + 1) %% datasize" % fmt(t2)
            # the path must have excluded that the advanced tail meets head (then the ring is empty and needs the empty
            # encoding) - a capacity of 1 makes it meet head even when the ring was full before the step
            elif eng.feasible(p.cond_terms() + [('cmp', '==', nxt(T), H)], inv):
                bad = bad or ('get advances tail to (tail + 1) %% datasize under {%s} without having excluded that it meets head there: the ring is then empty but '
                              'keeps looking full (with capacity 1 the advanced tail always meets head)' % '; '.join(fmt(c) for c in cs)[:200])
    if kinds != {'empty', 'take'}:
        bad = bad or 'get arms found: %s' % sorted(kinds)
    ck.verdict(bad is None, 'C19.d', 'octet_ring_get', cast.where(u.fn('octet_ring_get')),
               'empty: returns 0 unchanged; else returns data[tail] and advances tail (empty encoding when it meets head)' if bad is None else bad)
    # put
    ps = eng.paths('octet_ring_put')
    bad = None
    kinds = set()
    item = ('v', 'item')
    for p in ps:
        cs = conds_of(p)
        full = ('cmp', '==', H, T) in cs
        st = [e for e in p.stores() if e.name[0] == 'i']
        h2, t2 = sym.mem_read(p.mem, H), sym.mem_read(p.mem, T)
        ovr = any(c[0] == 'cmp' and c[1] == '!=' and c[2] == OV and c[3] == C(0) for c in cs)
        if full and not ovr:
            kinds.add('drop')
            steps.append(('put', 'drop', p, 0))
            if st or h2 != H or t2 != T:
                bad = 'put on a full ring without override modifies the ring (it must be dropped)'
            continue
        if len(st) != 1 or st[0].name != ('i', DATA, H) or strip(st[0].args[0]) != item:
            bad = 'put stores %s, expected data[head] := item' % ([str(e)[:60] for e in st])
            continue
        if strip(h2) != nxt(H):
            bad = "put sets head' = %s, expected (head + 1) %% datasize" % fmt(h2)
        if full and ovr:
            kinds.add('evict')
            steps.append(('put', 'evict', p, 0))
            # the oldest element (at tail == head) is given up: tail advances past it
            evict_empty = ('cmp', '==', nxt(T), H) in cs
            if evict_empty:
                if strip(t2) != H:
                    bad = 'override on a one-element... tail after eviction is %s' % fmt(t2)
            elif strip(t2) != nxt(T):
                bad = "override put leaves tail' = %s, expected (tail + 1) %% datasize (oldest element evicted)" % fmt(t2)
        else:
            was_empty = ('cmp', '==', T, D) in cs
            steps.append(('put', 'first' if was_empty else 'append', p, 1))
            if was_empty:
                kinds.add('first')
                if strip(t2) != H:
                    bad = "first element: tail' = %s, expected the old head" % fmt(t2)
            else:
                kinds.add('append')
                if t2 != T:
                    bad = 'append moves tail'
    if not {'drop', 'evict', 'first', 'append'} <= kinds:
        bad = bad or 'put arms found: %s' % sorted(kinds)
    ck.verdict(bad is None, 'C19.d', 'octet_ring_put', cast.where(u.fn('octet_ring_put')),
               'full: dropped, or with override the oldest element is evicted first; element stored at data[head], head advances; first element sets tail to it' if bad is None else bad)
    # clear: the ring becomes empty and stays the same ring in the same mode - tail' is the empty encoding, head' is any
    # valid position (an empty ring has no content for head to refer to: leaving it or rewinding it are the same queue),
    # storage, capacity and the override mode are what they were, no element is written
    ps = eng.paths('octet_ring_clear')
    bad = None
    for p in ps:
        h2 = sym.mem_read(p.mem, H)
        facts = eng.path_facts(p) + inv
        if sym.mem_read(p.mem, T) != D:
            bad = bad or "clear leaves tail' = %s, the empty encoding is tail == datasize" % fmt(sym.mem_read(p.mem, T))
        if not (eng.entails(facts, lin.lt(L(h2), L(D))) and eng.entails(facts, -L(h2))):
            bad = bad or "clear leaves head' = %s, not proved inside [0, datasize)" % fmt(h2)
        if [e for e in p.stores() if e.name[0] == 'i']:
            bad = bad or 'clear writes into the element array'
        for f_, what in ((D, 'the capacity'), (DATA, 'the storage pointer'), (OV, 'the override mode')):
            if sym.mem_read(p.mem, f_) != f_:
                bad = bad or ("clear changes %s (%s' = %s): %s" % (what, fmt(f_), fmt(sym.mem_read(p.mem, f_)),
                              'a ring switched to override mode is back in drop mode after clear, and a later put on a full ring is dropped instead of evicting the oldest element'
                              if f_ == OV else 'the ring is no longer the one that was set up'))
    ck.verdict(bad is None, 'C19.d', 'octet_ring_clear', cast.where(u.fn('octet_ring_clear')),
               'clear sets the empty encoding; capacity, storage and override mode unchanged, no element written' if bad is None else bad)
    # size: computed from head and tail by case - or kept in a counter of its own, which is the queue's length by induction
    # when every operation changes it by what its queue step changes the length (init / clear: 0)
    ps = eng.paths('octet_ring_size')
    bad = None
    rets = {strip(p.ret) for p in ps if p.ret is not None}
    counter = None
    if len(rets) == 1:
        r0 = list(rets)[0]
        if r0[0] == 'f' and r0[1] == ('v', 'c') and r0 not in (H, T, D, DATA, OV):
            counter = r0
    if counter is not None:
        def after(p_):
            return sym.mem_read(p_.mem, counter)
        for op, kind_, p_, delta in steps:
            d = L(after(p_)) - L(counter) - delta
            if not (d.is_const() and d.c == 0):
                bad = bad or ('size() reports the counter %s; a %s step of %s (%s) leaves it at %s, the queue then holds %s%+d elements: size, the iterators\' step count '
                              'and the queue disagree from there on' % (fmt(counter), kind_, op, '; '.join(fmt(c) for c in p_.cond_terms())[:120], fmt(after(p_)), fmt(counter), delta))
        for fn_, what in (('octet_ring_clear', 'clear'), ('octet_ring_init', 'init')):
            if u.fn(fn_) is None:
                continue
            for p_ in eng.paths(fn_):
                if p_.end == 'loopback':
                    continue
                if strip(after(p_)) != C(0):
                    bad = bad or ('size() reports the counter %s; %s empties the ring but leaves the counter at %s: an empty ring reports elements, and an iterator set up '
                                  'on it walks that many steps over the sentinel index' % (fmt(counter), what, fmt(after(p_))))
        for p_ in eng.paths('octet_ring_override_if_full'):
            if strip(after(p_)) != counter:
                bad = bad or 'the mode change alters the element counter %s' % fmt(counter)
        ck.verdict(bad is None, 'C19.d', 'octet_ring_size', cast.where(u.fn('octet_ring_size')),
                   'size = the counter %s, which every operation moves by its queue step (+1 append, -1 take, 0 drop / evict, 0 at init and clear): the queue length by induction' % fmt(counter)
                   if bad is None else bad)
    else:
        for p in ps:
            cs = conds_of(p)
            if ('cmp', '==', T, D) in cs:
                if p.ret != C(0):
                    bad = 'size of an empty ring is %s' % fmt(p.ret)
            elif ('cmp', '<', T, H) in cs:
                d = L(p.ret) - (head - tail)
                if not (d.is_const() and d.c == 0):
                    bad = 'size with tail < head is %s, expected head - tail' % fmt(p.ret)
            else:
                d = L(p.ret) - (ds - tail + head)
                if not (d.is_const() and d.c == 0):
                    bad = 'size of a wrapped/full ring is %s, expected datasize - tail + head' % fmt(p.ret)
        ck.verdict(bad is None, 'C19.d', 'octet_ring_size', cast.where(u.fn('octet_ring_size')), 'size = 0 / head - tail / datasize - tail + head by case' if bad is None else bad)
    # override flag and inspect
    ps = eng.paths('octet_ring_override_if_full')
    ok = all(sym.mem_read(p.mem, OV) == ('v', 'state') and sym.mem_read(p.mem, T) == T and sym.mem_read(p.mem, H) == H for p in ps)
    ck.verdict(ok, 'C19.d', 'octet_ring_override_if_full', cast.where(u.fn('octet_ring_override_if_full')), 'mode change stores the flag only' if ok else 'mode change touches more than the flag')
    if u.fn('octet_ring_inspect'):
        ps = eng.paths('octet_ring_inspect')
        ok = all(strip(p.ret) == ('i', DATA, ('f', ('v', 'iter'), 'index')) for p in ps)
        ck.verdict(ok, 'C19.d', 'octet_ring_inspect', cast.where(u.fn('octet_ring_inspect')), 'inspect returns data[iter->index]' if ok else 'inspect does not return data[iter->index]')
