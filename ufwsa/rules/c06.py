"""C06 A valid request is executed exactly once and answered faithfully.

a PATH-EFFECTS  b ARGUMENTS  c STATUS-SWITCH  d ECHO  e ACCESS-MAP.
Not decided: what the memory backend does; the wire octets of the reply (C08)."""
from .. import cast, sym, lin
from ..sym import C, fmt, linearize as L
from ..lin import Lin
from .regp import Regp, P, MF, FRAME, hdr, strip_cast, backend_calls, reply_calls
from .c08 import PAYLOAD32, NOPAYLOAD, MSEM_8BIT

EID = ('f', ('&', ('f', MF, 'error')), 'id')


def rule_ab(ck, R):
    E = R.E
    ps = R.paths('regp_process', 'C06.a')
    if ps is None:
        return
    where = R.where('regp_process')
    ck.floor('C06.a', 'paths of regp_process', len(ps), 40)
    READ, WRITE = E['RP_FRAME_READ_REQUEST'], E['RP_FRAME_WRITE_REQUEST']
    M16 = E['RP_MEMTYPE_16']
    W16 = E['RP_OPT_WORD_SIZE_16']
    ftype = hdr('type')
    mtype = ('f', ('&', ('f', P, 'memory')), 'type')
    pay = ('f', ('&', ('f', FRAME, 'payload')), 'data')
    bad_a, bad_b = [], []
    nbe = 0
    for p in ps:
        be = backend_calls(p)
        rp = reply_calls(p)
        conds = p.cond_terms()
        if len(be) > 1:
            bad_a.append('%d backend accesses on one path' % len(be))
        if len(rp) > 1:
            bad_a.append('%d replies on one path' % len(rp))
        stores = [e for e in p.stores() if sym.rooted_at(e.name, P)]
        if stores:
            bad_a.append('processing modifies the session/instance (%s): interleaved requests are not independent' % fmt(stores[0].name))
        is_req = any(c == ('cmp', '==', ftype, C(READ)) or c == ('cmp', '==', ftype, C(WRITE)) for c in conds)
        if be:
            nbe += 1
            e = be[0]
            need = {'frame != NULL': ('cmp', '!=', FRAME, C(0)) in conds,
                    'error.id == 0': ('cmp', '==', EID, C(0)) in conds,
                    'frame is a request': is_req}
            opt16 = ('cmp', '==', ('&b', hdr('options'), C(W16)), C(W16)) in conds
            opt8 = ('cmp', '!=', ('&b', hdr('options'), C(W16)), C(W16)) in conds
            mem16 = ('cmp', '==', mtype, C(M16)) in conds
            need['word size matches the memory'] = (mem16 and opt16) or ((not mem16) and opt8)
            for k, v in need.items():
                if not v:
                    bad_a.append('backend access not dominated by "%s": %s' % (k, e.where()))
            # arguments
            isread = ('cmp', '==', ftype, C(READ)) in conds
            if e.name.endswith('read') != isread:
                bad_b.append('%s called for a %s request' % (e.name, 'read' if isread else 'write'))
            if ('m16' in e.name) != mem16:
                bad_b.append('%s called although memory type is %s' % (e.name, '16-bit' if mem16 else '8-bit'))
            if tuple(map(strip_cast, e.args)) != (hdr('address'), hdr('blocksize'), pay):
                bad_b.append('backend called with (%s, %s, %s), expected (header.address, header.blocksize, payload.data)' % tuple(fmt(a) for a in e.args))
            # reply
            if len(rp) != 1:
                if not (p.ret is not None and p.ret[0] == 'c' and p.ret[1] < 0):
                    bad_a.append('backend access without exactly one reply (and no error return)')
            ack = p.calls('regp_resp_ack')
            for a in ack:
                if a.args[0] != P or a.args[1] != FRAME:
                    bad_b.append('ACK for %s' % fmt(a.args[1]))
                if isread:
                    # (buf, blocksize) unless buffer is NULL (then 0)
                    nz = ('cmp', '!=', pay, C(0)) in conds
                    if strip_cast(a.args[2]) != pay:
                        bad_b.append('read ACK carries %s, not the buffer the backend filled' % fmt(a.args[2]))
                    if nz and strip_cast(a.args[3]) != hdr('blocksize'):
                        bad_b.append('read ACK announces %s words, the backend delivered header.blocksize' % fmt(a.args[3]))
                else:
                    if a.args[2] != C(0) or a.args[3] != C(0):
                        bad_b.append('write ACK carries payload (%s, %s)' % (fmt(a.args[2]), fmt(a.args[3])))
        else:
            # no backend: frames that are no requests must stay unanswered
            if not is_req and rp and ('cmp', '==', EID, C(0)) in conds:
                bad_a.append('non-request frame answered with %s' % rp[0].name)
            if ('cmp', '==', FRAME, C(0)) in conds and (rp or be):
                bad_a.append('missing frame is answered')
    # word size mismatch path
    ews = False
    for p in ps:
        for e in p.calls('send_resp_0'):
            if e.args[2] == C(E['RP_RESP_EWORDSIZE']) and not backend_calls(p):
                conds = p.cond_terms()
                if ('cmp', '==', EID, C(0)) in conds:
                    ews = True
    if not ews:
        bad_a.append('no word-size error path without backend access')
    ck.floor('C06.a', 'paths with a backend access', nbe, 20)
    ck.verdict(not bad_a, 'C06.a', 'regp_process:effects', where,
               'at most one backend access and one reply per path; backend access dominated by frame != NULL, error.id == 0, request type and matching word size; exactly one reply after it; non-requests unanswered; no state stored'
               if not bad_a else '; '.join(sorted(set(bad_a))[:3]))
    ck.verdict(not bad_b, 'C06.b', 'regp_process:arguments', where,
               'backend gets (header.address, header.blocksize, payload.data) through the accessor selected by frame type and memory width; read ACK carries the same buffer and count, write ACK nothing'
               if not bad_b else '; '.join(sorted(set(bad_b))[:3]))


def rule_config(ck, R):
    """C06.b (configuration half): the setters store what the dispatcher later reads.  regp_process selects the
    accessor by memory.type and calls memory.access.m8/m16.read/write; regp_recv / send_memory select the framing by
    ep.type and use ep.source / ep.sink; buffers come from alloc.  A setter that drops one of its arguments leaves the
    previous (default: void memory, empty source, null sink) object in place and the request is answered from that."""
    E = R.E
    eng = R.engine(set())
    table = {
        'regp_use_memory8': {'p->memory.type': C(E['RP_MEMTYPE_8']), 'p->memory.access.m8.read': ('v', 'read'), 'p->memory.access.m8.write': ('v', 'write')},
        'regp_use_memory16': {'p->memory.type': C(E['RP_MEMTYPE_16']), 'p->memory.access.m16.read': ('v', 'read'), 'p->memory.access.m16.write': ('v', 'write')},
        'regp_use_channel': {'p->ep.type': ('v', 'type'), 'p->ep.source': ('v', 'source'), 'p->ep.sink': ('v', 'sink')},
        'regp_use_allocator': {'p->alloc': ('v', 'alloc')},
    }
    for fn, want in sorted(table.items()):
        if R.u.fn(fn) is None:
            if fn == 'regp_use_memory8':
                continue                      # built only WITH_UINT8_T
            ck.broken('C06.b', fn + ':config', '', 'function missing')
            continue
        ps = R.paths(fn, 'C06.b', eng)
        if ps is None:
            continue
        bad = None
        for p in ps:
            got = {}
            for e in p.stores():
                v = e.args[0]
                got[fmt(e.name)] = v
            for k, v in want.items():
                g = got.get(k)
                if g is None and v[0] == 'v':
                    # whole-struct assignment shows up as a struct value or as member stores
                    g = sym.mem_read(p.mem, None) if False else None
                    for kk, vv in got.items():
                        if kk == k or kk.startswith(k + '.'):
                            g = vv if kk == k else v
                if g is None or (strip_cast(g) != v and not (g[0] == 'struct' and g[1] == v)):
                    bad = '%s is %s after the call, expected %s' % (k, 'left unchanged' if g is None else 'set to ' + fmt(g), fmt(v))
            # a setter leaves the OTHER setters' configuration alone (fields this table does not know - bookkeeping the
            # instance may carry besides its configuration - are not judged here)
            others = {w for f2, w2 in table.items() if f2 != fn for w in w2}
            extra = [k for k in got if any(k == w or k.startswith(w + '.') for w in others) and not any(k == w or k.startswith(w + '.') for w in want)]
            if extra:
                bad = bad or 'also modifies %s, which another setter configures' % extra[0]
        ck.verdict(bad is None, 'C06.b', fn + ':config', R.where(fn),
                   'stores %s' % ', '.join(sorted(want)) if bad is None else bad)


def rule_c(ck, R):
    E = R.E
    ps = R.paths('regp_process', 'C06.c')
    if ps is None:
        return
    where = R.where('regp_process')
    resp = dict(R.u.enum_decls.get('RPResponse', []))
    ck.floor('C06.c', 'RPResponse enumerators', len(resp), 12)
    FS = R.so.get('RPFrame', 64)
    alloc = L(('f', ('f', P, 'alloc'), 'blocksize'))
    seen = {}
    uninit = None
    for p in ps:
        # the reply is selected by `ba.status`; on every path that value must come from a backend call or from an
        # assignment of a constant, never from the unassigned local
        for c in p.cond_terms():
            for t in sym.subterms(c):
                if t[0] == 'f' and t[2] == 'status' and t[1][0] == '&' and t[1][1][0] == 'v' and not reply_calls(p) == []:
                    uninit = uninit or ('the reply on path {%s} is selected by %s, which no statement on that path has assigned: '
                                        'the answer to the request depends on stack garbage' % ('; '.join(fmt(x) for x in p.cond_terms()[-4:-1]), fmt(t)))
    ck.verdict(uninit is None, 'C06.c', 'regp_process:status-defined', where,
               'on every path the status that selects the reply comes from the backend or is an assigned constant' if uninit is None else uninit)
    for p in ps:
        be = backend_calls(p)
        st = None
        src = None
        for c in p.cond_terms():
            if c[0] == 'cmp' and c[1] == '==' and sym.is_c(c[3]) and c[2][0] == 'fv' and c[2][2] == 'status':
                st, src = c[3][1], c[2][1]
        # the constant status paths (ETXOVERFLOW without backend)
        if st is None:
            continue
        name = [n for n, v in resp.items() if v == st]
        if not name:
            continue
        name = name[0]
        rp = reply_calls(p)
        d = seen.setdefault(name, [])
        if len(rp) != 1:
            d.append('status %s produces %d replies' % (name, len(rp)))
            continue
        r = rp[0]
        if name == 'RP_RESP_ACK':
            if r.name != 'regp_resp_ack':
                d.append('ACK status answered through %s' % r.name)
            else:
                d.append(None)
            continue
        want32 = name in PAYLOAD32
        if (r.name == 'send_resp_32') != want32 or r.name not in ('send_resp_0', 'send_resp_32'):
            d.append('status %s answered through %s (document: %s)' % (name, r.name, '32-bit payload' if want32 else 'no payload'))
            continue
        code_arg = r.args[2]
        if not sym.is_c(code_arg):
            # the code may be passed as the verdict itself; on this path the switch has pinned it to a constant
            for c in p.cond_terms():
                if c[0] == 'cmp' and c[1] == '==' and strip_cast(c[2]) == strip_cast(code_arg) and sym.is_c(c[3]):
                    code_arg = c[3]
        if code_arg != C(st):
            d.append('backend verdict %s is answered with code %s' % (name, fmt(r.args[2])))
            continue
        if r.args[-1] != C(MSEM_8BIT):
            d.append('%s reply not in octet semantics' % name)
            continue
        if r.args[1] != FRAME:
            d.append('%s reply built for %s' % (name, fmt(r.args[1])))
            continue
        if want32:
            pl = strip_cast(r.args[3])
            if name in ('RP_RESP_ERXOVERFLOW', 'RP_RESP_ETXOVERFLOW'):
                dd = L(pl) - (alloc - FS)
                if not (dd.is_const() and dd.c == 0):
                    d.append('%s carries %s, expected the transfer buffer size' % (name, fmt(pl)))
                    continue
            else:
                if not (pl[0] == 'fv' and pl[2] == 'address' and pl[1] == src):
                    d.append('%s carries %s, expected the address the backend reported' % (name, fmt(pl)))
                    continue
        d.append(None)
    for name in sorted(resp):
        res = seen.get(name)
        if not res:
            ck.violation('C06.c', 'status:' + name, where, 'backend verdict %s has no arm in the status switch' % name)
            continue
        errs = [x for x in res if x]
        ck.verdict(not errs, 'C06.c', 'status:' + name, where,
                   '%s -> %s' % (name, 'acknowledgement' if name == 'RP_RESP_ACK' else ('response %s, %s, octet semantics' % (name, '32-bit payload' if name in PAYLOAD32 else 'no payload')))
                   if not errs else errs[0])
    # unknown verdict: error return, no reply
    okd = False
    for p in ps:
        if p.ret == C(-22) and backend_calls(p) and not reply_calls(p):
            okd = True
    ck.verdict(okd, 'C06.c', 'status:unknown', where, 'a verdict outside the enumeration yields -EINVAL and no reply' if okd else 'no default arm for unknown verdicts')


def rule_e(ck, R):
    """regaccess2blockaccess (header inline)"""
    E = R.E
    eng = R.engine(set())
    ps = R.paths('regaccess2blockaccess', 'C06.e', eng)
    if ps is None:
        return
    want = {'REG_ACCESS_SUCCESS': 'RP_RESP_ACK', 'REG_ACCESS_UNINITIALISED': 'RP_RESP_EUNMAPPED', 'REG_ACCESS_NOENTRY': 'RP_RESP_EUNMAPPED',
            'REG_ACCESS_RANGE': 'RP_RESP_ERANGE', 'REG_ACCESS_INVALID': 'RP_RESP_EINVALID', 'REG_ACCESS_READONLY': 'RP_RESP_EACCESS',
            'REG_ACCESS_FAILURE': 'RP_RESP_EIO', 'REG_ACCESS_IO_ERROR': 'RP_RESP_EIO'}
    codes = dict(R.u.enum_decls.get('RegisterAccessCode', []))
    got = {}
    default = None
    for p in ps:
        st = None
        if p.ret is not None and p.ret[0] == 'struct':
            d = dict(p.ret[2])
            st = d.get('status')
            ad = d.get('address')
            if ad is None or 'address' not in fmt(ad):
                ck.violation('C06.e', 'address', R.where('regaccess2blockaccess'), 'reported address is %s, not the register table\'s' % (fmt(ad) if ad else None))
        cv = None
        for c in p.cond_terms():
            if c[0] == 'cmp' and c[1] == '==' and sym.is_c(c[3]) and 'code' in fmt(c[2]):
                cv = c[3][1]
        if cv is None:
            default = st
        else:
            got[cv] = st
    for nm, wnm in sorted(want.items()):
        cv = codes.get(nm)
        st = got.get(cv, default)
        ok = st == C(E[wnm])
        ck.verdict(ok, 'C06.e', 'map:' + nm, R.where('regaccess2blockaccess'),
                   '%s -> %s' % (nm, wnm) if ok else '%s is mapped to %s, expected %s' % (nm, fmt(st) if st else None, wnm))
    ck.verdict(default == C(E['RP_RESP_EIO']), 'C06.e', 'map:default', R.where('regaccess2blockaccess'), 'any other verdict -> EIO')
    ck.floor('C06.e', 'RegisterAccessCode enumerators', len(codes), 8)


def rule_decoder_state(ck, R, rule='C06.f'):
    """C06.f: a frame that failed reception causes no memory access - including its tail.  After an invalid escape sequence
    the SLIP decoder is in its skip-to-end-of-frame state; that state has to survive the return of regp_recv, or the next
    call starts decoding in the middle of the damaged frame and delivers the rest of it as a frame of its own (with a
    payload that happens to contain a frame image: executed and acknowledged).  So the decoder context regp_recv uses
    belongs to the instance, not to the call; every way of setting up an instance or a channel initialises it."""
    eng = R.engine({'early_ebusy', 'early_erxoverflow'})
    ps = R.paths('regp_recv', rule, eng)
    if ps is None:
        return
    bad = None
    ndec = 0
    for p in ps:
        for e in p.calls('rfc1055_decode'):
            ndec += 1
            ctx = strip_cast(e.args[0])
            if not (ctx[0] == '&' and sym.rooted_at(ctx[1], P)):
                bad = bad or ('the SLIP decoder works on %s, an object of this call: its skip-to-end-of-frame state after an invalid escape is lost on return, '
                              'and the next call parses the tail of the damaged frame as a new frame' % fmt(e.args[0]))
    if ndec == 0:
        return ck.broken(rule, 'regp_recv:decoder-state', R.where('regp_recv'), 'no rfc1055_decode call found')
    # The state is the decoder's.  regp_recv touches it in one situation only: it returns a channel error after part of a
    # frame was received and dropped - then what follows on the channel is the rest of that frame, and the decoder has to
    # skip to its end.  After an invalid escape sequence (-EILSEQ) the decoder has arranged that itself, knowing whether
    # the offending octet was the frame's end; overriding it there, or re-initialising the context, loses that.
    SFE = R.u.enums.get('RFC1055_SEARCH_FOR_END')
    EILSEQ = -84
    sbad = None
    nskip = 0
    flagwhy = {}
    for p in ps:
        d = p.calls('rfc1055_decode')
        inits = [e for e in p.calls('rfc1055_context_init') if sym.rooted_at(strip_cast(e.args[0]), P) or
                 (strip_cast(e.args[0])[0] == '&' and sym.rooted_at(strip_cast(e.args[0])[1], P))]
        if inits:
            sbad = sbad or ('regp_recv re-initialises the instance\'s decoder context (%s): the skip-to-end-of-frame state of a damaged frame is thrown away, '
                            'and the next call parses its tail as a frame' % inits[0].where())
        st = [e for e in p.stores() if 'slip' in fmt(e.name) and sym.rooted_at(e.name, P)]
        if not d:
            if st:
                sbad = sbad or 'the decoder state is written on a path without a decode call'
            continue
        r = d[0].result
        failed = any(c == ('cmp', '<', r, C(0)) for c in p.cond_terms())
        ilseq = any(c == ('cmp', '==', r, C(EILSEQ)) for c in p.cond_terms())
        not_ilseq = any(c == ('cmp', '!=', r, C(EILSEQ)) for c in p.cond_terms())
        block = any(c[0] == 'cmp' and c[1] == '!=' and c[3] == C(0) and fmt(c[2]).endswith('buffer.data') for c in p.cond_terms())
        # -EILSEQ is the decoder's verdict only if the channel did not fail: rfc1055_decode hands a source's own -EILSEQ on
        # with its state unchanged (D55).  The one accepted witness: a flag the path tests, kept by a tap in front of the
        # decoder, checked by channel_octet_count(kind='failed').
        src_failed = src_ok = False
        for c in p.cond_terms():
            if c[0] == 'cmp' and c[1] in ('!=', '==') and c[3] == C(0) and strip_cast(c[2])[0] == 'fv':
                Q = c[2]
                if (Q, 'f') not in flagwhy:
                    flagwhy[(Q, 'f')] = channel_octet_count(R, eng, d[0], Q, kind='failed')
                if flagwhy[(Q, 'f')] is None:
                    src_failed = src_failed or c[1] == '!='
                    src_ok = src_ok or c[1] == '=='
        channel_error = failed and (not_ilseq or src_failed)
        for e in st:
            if not (channel_error and fmt(e.name).endswith('slip.state') and e.args[0] == C(SFE)):
                sbad = sbad or ('the decoder state is set to %s under {%s}: regp_recv may only send the decoder to skip-to-end-of-frame when it drops a partly received '
                                'frame on a channel error - a result other than -EILSEQ, or -EILSEQ with the channel itself established to have failed; the decoder\'s own '
                                '-EILSEQ has arranged the skip, knowing whether the offending octet ended the frame' % (fmt(e.args[0]), '; '.join(fmt(c) for c in p.cond_terms() if sym.contains(c, r))))
        if failed and block and p.end == 'return' and not (ilseq and src_ok):
            nskip += 1
            if not any(fmt(e.name).endswith('slip.state') and e.args[0] == C(SFE) for e in st):
                if ilseq:
                    unread = [w for w in flagwhy.values() if w and w.startswith('?')]
                    if unread:
                        return ck.broken(rule, 'regp_recv:decoder-resync', R.where('regp_recv'), 'a path returning -EILSEQ tests a record this rule cannot read: ' + unread[0][1:])
                    sbad = sbad or ('the call ends with -EILSEQ after part of a frame was received (the block is freed) and leaves the decoder state alone, although nothing on the '
                                    'path establishes that -EILSEQ is the decoder\'s own verdict: a source may answer -EILSEQ itself, rfc1055_decode hands that on with its state '
                                    'unchanged (in-frame), and the next call takes the rest of the dropped frame for a frame - a payload containing a frame image is executed and acknowledged'
                                    + (' [%s]' % '; '.join('%s: %s' % (fmt(q[0]), w) for q, w in flagwhy.items() if w) if any(flagwhy.values()) else ''))
                else:
                    sbad = sbad or ('a channel error ends the call after part of a frame was received (the block is freed), but the decoder stays in its in-frame state: '
                                    'the next call takes the rest of that frame for a frame of its own - a payload containing a frame image is executed and acknowledged')
    if SFE is None:
        ck.broken(rule, 'regp_recv:decoder-resync', R.where('regp_recv'), 'RFC1055_SEARCH_FOR_END not found')
    elif nskip == 0 and sbad is None:
        ck.broken(rule, 'regp_recv:decoder-resync', R.where('regp_recv'), 'no path returns a channel error after receiving part of a frame')
    else:
        ck.verdict(sbad is None, rule, 'regp_recv:decoder-resync', R.where('regp_recv'),
                   'after a channel error with a partly received frame the decoder is sent to skip-to-end-of-frame (%d paths); otherwise regp_recv leaves the decoder state alone' % nskip
                   if sbad is None else sbad)
    ck.verdict(bad is None, rule, 'regp_recv:decoder-state', R.where('regp_recv'),
               'the SLIP decoder context is part of the instance (%d decode sites): a damaged frame is skipped to its end even across calls' % ndec if bad is None else bad)
    # initialisation: regp_init, regp_use_channel and the static initialiser
    for fn in ('regp_init', 'regp_use_channel'):
        psi = R.paths(fn, rule, R.engine(set()))
        if psi is None:
            continue
        ok = all(any(e.name == 'rfc1055_context_init' and sym.rooted_at(strip_cast(e.args[0]), P) or
                     (e.name == 'rfc1055_context_init' and strip_cast(e.args[0])[0] == '&' and sym.rooted_at(strip_cast(e.args[0])[1], P))
                     for e in p.calls()) for p in psi)
        ck.verdict(ok, rule, fn + ':decoder-state', R.where(fn),
                   'initialises the instance\'s SLIP decoder context' if ok else 'leaves the instance\'s SLIP decoder context as it was (uninitialised, or in the state of the previous channel)')


def _deep_strip(t):
    """the term without integer conversions, at every level"""
    if not isinstance(t, tuple):
        return t
    t = strip_cast(t)
    if t and isinstance(t[0], str) and t[0] not in ('c', 'v', 'h', 'str', 'fn', 'flt'):
        return (t[0],) + tuple(_deep_strip(x) if isinstance(x, tuple) else x for x in t[1:])
    return t


def channel_octet_count(R, eng, d, Q, kind='count'):
    """Is Q (a term met in a path condition after the decode call d) the number of octets the channel delivered during
    that call?  It is when: Q is field f of a local object K whose address the caller stored as the driver context of
    the source object S handed to the decode call; K.f was 0 before the call; K also holds the address of the instance's
    channel source; and the driver function stored in S is a transparent tap - on each of its paths it reads once from
    that source with its own buffer and count, returns the result unchanged, and adds the result to context->f on every
    path on which the result may be positive (no other store to the count).  -> None if so, else the reason; a reason
    that starts with '?' says the form could not be read (analysis-broken, not a violation).
    kind='failed': Q is instead the record "the channel answered its last request with an error" - same object, same
    driver, and every path of the driver stores into the field whether the result of its read is negative (a path that
    leaves the field alone would keep the answer to an earlier request)."""
    Q = strip_cast(Q)
    if not (isinstance(Q, tuple) and Q[0] == 'fv' and Q[1] in eng.call_clobbered):
        return 'not a field of an object the decode call may have written'
    K, fld = eng.call_clobbered[Q[1]], Q[2]
    pre = d.pointees.get(K)
    if pre is None or pre[0] != 'struct':
        return '?%s is not handed to the decode call with known contents' % fmt(K)
    pf = dict(pre[2])
    if strip_cast(pf.get(fld, ('?',))) != C(0):
        return '%s.%s is not 0 before the decode call' % (fmt(K), fld)
    chan = ('&', ('f', ('&', ('f', P, 'ep')), 'source'))
    srcf = [f for f, v in pf.items() if strip_cast(v) == chan]
    if len(srcf) != 1:
        return '%s does not hold the address of the instance\'s channel source' % fmt(K)
    S = si = None
    for i_, a_ in enumerate(d.args):
        a_ = strip_cast(a_)
        if a_[0] == '&' and a_[1] in d.pointees and d.pointees[a_[1]][0] == 'struct' \
                and any(strip_cast(v) == ('&', K) for _, v in d.pointees[a_[1]][2]):
            S, si = a_, i_
    if S is None:
        return 'no source handed to the decode call carries &%s as its driver context' % fmt(K)
    drivers = set()
    # the declaration of the source object, through the call's own argument (two branches may each have a `channel`)
    sid = None
    for y in cast.walk(d.node['inner'][1 + si]) if d.node is not None and len(d.node.get('inner', [])) > 1 + si else ():
        if cast.kind(y) == 'DeclRefExpr' and y.get('referencedDecl', {}).get('kind') == 'VarDecl':
            sid = y['referencedDecl'].get('id')
            break
    for fn_, fd in R.u.functions.items():
        if sid is None:
            break
        for x in cast.walk(fd):
            if cast.kind(x) == 'VarDecl' and x.get('id') == sid:
                for y in cast.walk(x):
                    rd = y.get('referencedDecl') if cast.kind(y) == 'DeclRefExpr' else None
                    if rd and rd.get('kind') == 'FunctionDecl' and R.u.fn(rd.get('name')) is not None:
                        drivers.add(rd['name'])
    if len(drivers) != 1:
        return '?the driver function of %s is not a single function of this unit (%s)' % (fmt(S[1]), ', '.join(sorted(drivers)) or 'none found')
    drv = drivers.pop()
    ps = R.paths(drv, 'C06.f', R.engine(set()))
    if not ps:
        return '?driver %s: no paths' % drv
    params = [x.get('name') for x in R.u.fn(drv).get('inner', []) if cast.kind(x) == 'ParmVarDecl']
    if len(params) not in (2, 3):
        return 'driver %s has neither the chunk-driver nor the octet-driver signature' % drv
    ctx = ('v', params[0])
    rest_params = [('v', a) for a in params[1:]]
    cnt = ('f', ctx, fld)
    for p in ps:
        rd = [e for e in p.calls() if e.kind == 'call' and e.name.startswith('source_get')]
        if len(p.calls()) != 1 or len(rd) != 1:
            return 'driver %s: a path does not consist of exactly one read from the channel source' % drv
        e = rd[0]
        if [_deep_strip(a) for a in e.args] != [('f', ctx, srcf[0])] + rest_params:
            return 'driver %s: reads (%s), not (context->%s, its own arguments)' % (drv, ', '.join(fmt(a) for a in e.args), srcf[0])
        if p.end != 'return' or _deep_strip(p.ret) != e.result:
            return 'driver %s: does not return the result of the read unchanged' % drv
        st = [x for x in p.stores() if _deep_strip(x.name) == cnt]
        if kind == 'failed':
            if len(st) != 1:
                return 'driver %s: a path does not record in context->%s whether this read failed (the flag would answer for an earlier request)' % (drv, fld)
            v = _deep_strip(st[0].args[0])
            neg = eng.entails(p, L(e.result) + 1)
            nonneg = eng.entails(p, -L(e.result))
            if not (v == ('cmp', '<', e.result, C(0)) or (v == C(1) and neg) or (v == C(0) and nonneg)):
                return 'driver %s: context->%s := %s is not "the read answered an error"' % (drv, fld, fmt(st[0].args[0]))
            continue
        if not st:
            if not eng.entails(p, L(e.result)):
                return 'driver %s: a path on which the read may have delivered octets leaves context->%s as it was' % (drv, fld)
        elif len(st) != 1 or _deep_strip(st[0].name) != cnt or L(_deep_strip(st[0].args[0])) != L(cnt) + L(e.result):
            return 'driver %s: context->%s := %s is not "plus the octets delivered"' % (drv, fld, fmt(st[0].args[0]))
        elif not eng.entails(p, -L(e.result)):
            return 'driver %s: a negative result is added to context->%s' % (drv, fld)
    return None


def rule_tcp_desync(ck, R, rule='C06.f'):
    """The length-prefixed (TCP) twin of decoder-resync.  When reception fails after part of a frame was taken from the
    channel - be it one octet of its length prefix -, what the channel delivers next is the REST of that frame.  A SLIP
    decoder can skip to the next delimiter; a length-prefixed stream has no delimiter, it is out of step for good.  So:
    (1) a path of regp_recv that returns a channel error on the TCP branch records that in the instance - it stores a
    non-zero constant into a field of the endpoint - unless the path has established that the channel delivered NO octet
    during the call (channel_octet_count == 0; that a block was or was not obtained says nothing: the prefix never
    reaches the sink, and the sink may have failed to get a block - D59); (2) every path that decodes from a TCP channel
    has tested that field to be clear; (3) binding a channel (regp_init / regp_use_channel) clears it.  Otherwise the
    next call takes octets of the dropped frame for a length prefix and a frame - an embedded frame image is executed
    and acknowledged: a frame that failed reception causes a memory access."""
    eng = R.engine({'early_ebusy', 'early_erxoverflow'})
    ps = R.paths('regp_recv', rule, eng)
    if ps is None:
        return
    bad = None
    marks = set()
    nfail = ndec = nzero = 0
    why = {}
    for p in ps:
        d = p.calls('lenp_decode_source_to_sink')
        if not d:
            continue
        ndec += 1
        r = d[0].result
        failed = any(c[0] == 'cmp' and c[1] == '<' and strip_cast(c[2]) == r and c[3] == C(0) for c in p.cond_terms())
        if failed and p.end == 'return':
            st = [e for e in p.stores() if sym.rooted_at(e.name, P) and sym.is_c(strip_cast(e.args[0])) and strip_cast(e.args[0])[1] != 0]
            if st:
                nfail += 1
                marks |= {e.name for e in st}
                continue
            # no record: only where no octet of a frame has left the channel
            zero = False
            for c in p.cond_terms():
                Q = None
                if c[0] == 'cmp' and c[1] in ('<=', '==') and c[3] == C(0):
                    Q = c[2]
                elif c[0] == 'cmp' and c[1] == '<' and c[3] == C(1):
                    Q = c[2]
                if Q is None or strip_cast(Q) == r or strip_cast(Q)[0] != 'fv':
                    continue
                if Q not in why:
                    why[Q] = channel_octet_count(R, eng, d[0], Q)
                if why[Q] is None:
                    zero = True
            if zero:
                nzero += 1
                continue
            unread = [w for w in why.values() if w and w.startswith('?')]
            if unread:
                return ck.broken(rule, 'regp_recv:tcp-desync', R.where('regp_recv'), 'a failing path without a mark tests a count this rule cannot read: ' + unread[0][1:])
            reasons = '; '.join('%s: %s' % (fmt(q), w) for q, w in why.items() if w)
            bad = bad or ('a channel error ends the call on the length-prefixed branch under {%s} and nothing in the instance remembers it, although part of a frame may '
                          'have been taken from the channel (an octet of its length prefix is enough; whether the sink obtained a block says nothing)%s: the next call reads '
                          'the rest of that frame as a length prefix and a frame - a payload containing a frame image is executed and acknowledged (a length-prefixed '
                          'stream cannot resynchronise; the instance has to refuse further reception until a channel is bound again)'
                          % ('; '.join(fmt(c) for c in p.cond_terms() if not sym.contains(c, ('f', ('&', ('f', P, 'ep')), 'type'))),
                             ' [%s]' % reasons if reasons else ''))
    if ndec == 0:
        return ck.broken(rule, 'regp_recv:tcp-desync', R.where('regp_recv'), 'no length-prefix decode call found')
    if nfail == 0 and bad is None:
        return ck.broken(rule, 'regp_recv:tcp-desync', R.where('regp_recv'), 'no path returns a channel error after receiving part of a length-prefixed frame')
    if bad is None:
        for p in ps:
            for d in p.calls('lenp_decode_source_to_sink'):
                ok = any(c[0] == 'cmp' and c[1] == '==' and strip_cast(c[2]) in marks and c[3] == C(0) for c in p.cond_terms())
                if not ok:
                    bad = bad or ('the mark %s set after a mid-frame channel error is not tested before the next decode from the length-prefixed channel' % ', '.join(sorted(fmt(m) for m in marks)))
        for fn in ('regp_init', 'regp_use_channel'):
            psi = R.paths(fn, rule, R.engine(set()))
            for p in psi or []:
                for m in marks:
                    if strip_cast(sym.mem_read(p.mem, m)) != C(0):
                        bad = bad or '%s does not clear %s: an instance bound to a fresh channel keeps refusing' % (fn, fmt(m))
    ck.verdict(bad is None, rule, 'regp_recv:tcp-desync', R.where('regp_recv'),
               'after a channel error inside a length-prefixed frame the instance refuses to decode from that channel until a channel is bound again '
               '(%d marking paths; %d paths without a mark, each with the channel\'s octet count of this call established as 0)' % (nfail, nzero)
               if bad is None else bad)


def rule_decoder_owners(ck, R, rule='C06.f'):
    """Who else touches the instance's decoder context.  Its state is knowledge about the CHANNEL (is the stream inside a
    damaged frame that still has to be skipped?), so it may be reset only together with the channel: a function that
    initialises or writes RegP.ep.slip also binds the channel (stores ep.source) on that path - regp_init, regp_use_channel.
    Anything else (a session reset, an error handler, a statistics call) that re-initialises it makes the next receive
    call parse the tail of a damaged frame as a frame of its own.  regp_recv itself is judged by decoder-resync."""
    u = R.u
    cands = []
    known = sym.KNOWN_FUNCTIONS()
    for fn, fd in sorted(u.functions.items()):
        if fn == 'regp_recv' or not (cast.node_file(fd) or '').endswith(('register-protocol.c', 'register-protocol.h')):
            continue
        if known and fn not in known:
            continue        # a helper newer than the rules (a piece split off regp_recv, say) is read where it is called from
        txt = False
        for x in cast.walk(fd):
            if cast.kind(x) == 'MemberExpr' and x.get('name') == 'slip':
                txt = True
                break
        if txt:
            cands.append(fn)
    bad = None
    nown = 0
    for fn in cands:
        ps = R.paths(fn, rule, R.engine(set()))
        if ps is None:
            continue
        for p in ps:
            touched = [e for e in p.calls('rfc1055_context_init')
                       if 'slip' in fmt(e.args[0])] + [e for e in p.stores() if '.slip' in fmt(e.name) or '->slip' in fmt(e.name)]
            if not touched:
                continue
            nown += 1
            binds = [e for e in p.stores() if fmt(e.name).endswith(('ep.source', 'ep.sink')) or '.ep.source.' in fmt(e.name) or '.ep.sink.' in fmt(e.name)]
            if not binds:
                bad = bad or ('%s (re)initialises or writes the instance\'s SLIP decoder context at %s without binding a channel on that path: the decoder\'s '
                              'skip-to-end-of-frame state after a damaged frame belongs to the channel\'s stream, and is lost - the next regp_recv parses the tail of '
                              'the damaged frame as a frame (a payload containing a frame image is executed and acknowledged)' % (fn, touched[0].where()))
    if nown == 0:
        return ck.broken(rule, 'decoder-owners', R.where('regp_init'), 'no function initialises the decoder context (anchor vanished)')
    ck.verdict(bad is None, rule, 'decoder-owners', R.where('regp_init'),
               'outside regp_recv the decoder context is written only where a channel is bound (%d paths in %s)' % (nown, ', '.join(cands)) if bad is None else bad)


def run(ck):
    ck.rule('C06.h', 'the numeric response, type, option and meta codes behind the enumerators are those of the protocol document (C08.a re-evaluated): the error response prescribed for a verdict carries the prescribed code')
    ck.rule('C06.i', 'the transfer calls under the protocol (sink_put_chunk, source_get_chunk, their adaptors, sts_n) keep their position and retry discipline (C17.a-d, C17.f re-evaluated): a response reaches the sink octet for octet also when the driver interrupts')
    ck.rule('C06.g', 'the receive sink (continuable sink) stores min(n, free space), reports an overflow exactly when octets were dropped, and always consumes what it is given (C09.a re-evaluated)')
    ck.rule('C06.f', 'the SLIP decoder context of regp_recv belongs to the instance (its skip-to-end state after a damaged frame survives the call) and is initialised by regp_init / regp_use_channel')
    ck.rule('C06.a', 'on every path of regp_process: <= 1 backend access, <= 1 reply; a backend access is dominated by frame != NULL, error.id == 0, request type, matching word size and followed by exactly one reply; responses/meta/failed frames cause neither; nothing is stored in the instance')
    ck.rule('C06.b', 'the backend is called with the request\'s address, block size and payload through the accessor selected by frame type and memory width; read ACK = same buffer and count, write ACK = no payload')
    ck.rule('C06.c', 'every RPResponse verdict has an arm answering with that code, the payload class of the document, octet semantics, and the reported address resp. the buffer size')
    ck.rule('C06.d', 'replies echo the request\'s sequence number and address and use the matching response type (decided on send_resp_0/32, regp_resp_ack, req2resp: see C08.g/h which are re-evaluated here)')
    ck.rule('C06.e', 'regaccess2blockaccess maps register-table verdicts to response codes per the document')
    ck.not_decided += ['behaviour of the memory backend', 'wire octets of the reply (C08)']
    R = Regp(ck)
    rule_ab(ck, R)
    rule_config(ck, R)
    rule_c(ck, R)
    rule_decoder_state(ck, R)
    rule_decoder_owners(ck, R)
    rule_tcp_desync(ck, R)
    ck.rule('C06.j', 'marks an operation sets in the instance while it works (busy / in-progress flags) are taken back on every way out of it: a request that follows a failed send or receive is served like any other')
    from .common import bracket_rule
    bracket_rule(ck, 'C06.j', R.u, lambda: R.engine(set()), ('register-protocol.c', 'register-protocol.h'))
    # d: echo rules live in c08.rule_h / rule_fg; re-evaluate under this property
    from . import c08
    orig_v, orig_viol, orig_floor = ck.verdict, ck.violation, ck.floor
    ck.verdict = lambda ok, rule, key, where='', detail='', **kw: orig_v(ok, 'C06.d', rule + ':' + key, where, detail, **kw) \
        if key in ('send_resp_0', 'send_resp_32', 'req2resp', 'regp_resp_ack', 'make_motv:layout') else None
    ck.violation = lambda rule, key, where='', detail='', **kw: orig_viol('C06.d', rule + ':' + key, where, detail, **kw)
    ck.floor = lambda *a, **k: True
    try:
        c08.rule_h(ck, R)
        c08.rule_fg(ck, R)
        c08.rule_bc(ck, R)      # the response code travels in the 4-bit meta field of word 0: all four bits must arrive
        # what is echoed is what parse_header kept: sequence number and address must be stored at their wire width
        engw = R.engine({'raw_with_hdcrc', 'raw_with_plcrc'})
        psw = R.paths('parse_header', 'C06.d', engw)
        if psw is not None:
            ns = engw.narrowing_stores(psw)
            orig_v(not ns, 'C06.d', 'parse_header:field-widths', R.where('parse_header'),
                   'sequence number, address and block size are kept at their wire width' if not ns else
                   '%s <- %s: %s (a reply echoes the truncated value)' % (fmt(ns[0][0].name), ns[0][1], ns[0][2]))
    finally:
        ck.verdict, ck.violation, ck.floor = orig_v, orig_viol, orig_floor
    # a request whose answer fits must reach the backend (block sizes 0..capacity): the
    # exactness half of C09.d is an obligation of this property too
    from . import c09
    ck.verdict = lambda ok, rule, key, where='', detail='', **kw: orig_v(ok, 'C06.a', rule + ':' + key, where, detail, **kw) \
        if key == 'regp_process:read-exact' else None
    try:
        c09.rule_d(ck, R)
    finally:
        ck.verdict = orig_v
    rule_e(ck, R)
    from .common import reevaluate
    reevaluate(ck, 'C06.g', 'c09', lambda r, k: r == 'C09.a',
               'the receive sink stores exactly what arrived: a request is executed with the payload that was received')
    reevaluate(ck, 'C06.h', 'c08', lambda r, k: r == 'C08.a',
               'the response code on the wire is the enumerator\'s value')
    reevaluate(ck, 'C06.i', 'c17', lambda r, k: (r in ('C17.a', 'C17.b', 'C17.c', 'C17.d') and k.startswith(('sink_put_chunk', 'source_get_chunk', 'sink_adapt', 'source_adapt'))) or
               (r == 'C17.f' and k.startswith(('sts_n', 'sts_atmost'))),
               'requests arrive and responses leave through the exact transfer calls: every octet of a response is offered to the sink until it is taken, a retry signal drops or repeats none')
    ck.rule('C06.k', 'a valid request is RECEIVED as one: acceptance of a frame depends on the checksums it declares and on nothing the frame memory held before (C07.a gating re-evaluated) - a request without the optional header checksum is not refused because a recycled block still holds an earlier frame\'s checksum field')
    ck.rule('C06.l', 'on a serial channel the answer reaches the peer as the words the backend delivered only if the SLIP encoder escapes every delimiter / escape octet of the payload - whatever its position - and nothing else (C12.a escape tables re-evaluated)')
    reevaluate(ck, 'C06.l', 'c12', lambda r, k: r == 'C12.a',
               'send_memory frames serial answers with rfc1055_encode')
    reevaluate(ck, 'C06.k', 'c07', lambda r, k: r == 'C07.a',
               'exactly-once execution starts with reception: the gating of the checksum comparisons decides which valid requests reach regp_process')
