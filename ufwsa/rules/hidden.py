"""Hidden state (all properties): every property speaks of what an operation does given its arguments and the objects
they designate (table, instance, buffer, context).  The path rules read exactly that.  An object with static storage
duration that a function of the property's code writes with data derived from a call's arguments - a scratch buffer
shared between calls, a one-entry cache keyed by addresses, a prefix kept in file scope - is state the caller cannot see:
what a later (or a nested, re-entrant) call does then depends on earlier calls.  On the confirmed tree no function of the
library keeps such state (the static objects are constant tables, the trivial endpoints, the default allocator and the
printer hook of the utilities); this rule holds every property's code to that.

Not every static store is hidden state: a table filled on first use from constants (lazy initialisation) gives every call
the same result.  The rule therefore asks for ARGUMENT-DERIVED data: the stored value, the index or the stored-through
pointer depends on a parameter of the function (directly, through locals, through memory the parameter designates), or
the object's address is handed to code that may write it (a non-const pointer parameter, a pointer field).  The
resolved program decides, not names: declarations by id, types from the AST."""
from .. import cast

UNITS = {
    'C01': ['src/registers/core.c'], 'C02': ['src/registers/core.c'], 'C03': ['src/registers/core.c'],
    'C04': ['src/registers/core.c'], 'C05': ['src/registers/core.c'],
    'C06': ['src/register-protocol.c', 'src/endpoints/continuable-sink.c', 'src/rfc1055.c'],
    'C07': ['src/register-protocol.c', 'src/endpoints/continuable-sink.c', 'src/crc-16-arc.c'],
    'C08': ['src/register-protocol.c', 'src/rfc1055.c', 'src/length-prefix.c'],
    'C09': ['src/register-protocol.c', 'src/endpoints/continuable-sink.c'],
    'C10': ['src/persistent-storage.c'], 'C11': ['src/persistent-storage.c'],
    'C12': ['src/rfc1055.c'], 'C13': ['src/length-prefix.c'], 'C14': ['src/variable-length-integer.c'],
    'C15': ['src/registers/core.c'], 'C16': ['src/crc-16-arc.c'],
    'C17': ['src/endpoints/core.c', 'src/endpoints/buffer.c'], 'C18': ['src/byte-buffer.c'],
    'C19': ['src/octet-ring.c'], 'C20': ['src/sx.c'],
}
# C15's code is the header binary-format.h (seen through the register unit): only functions defined there count
ONLY_FILES = {'C15': ('binary-format.h',)}


def _in_repo(n):
    f = cast.node_file(n) or ''
    return bool(f) and not f.startswith(('/usr/', '/lib/', '/opt/')) and '/lib/clang/' not in f


def _is_const_object(qt):
    """top-level const (element type const for arrays): the object cannot be written"""
    q = qt.strip()
    if '[' in q:
        q = q[:q.index('[')].strip()
    if q.endswith('*'):
        return False                      # a mutable pointer (whatever it points at)
    if '*const' in q.replace(' ', '') and q.replace(' ', '').endswith('*const'):
        return True
    return q.startswith('const ') or q.endswith(' const')


def _pointee_const(qt):
    q = qt.replace(' ', '')
    if '(*' in q:                          # function pointer
        return True
    if '*' not in q:
        return True
    head = q[:q.rindex('*')]
    while head.endswith('*const') or head.endswith('*'):
        break
    last = head.split('*')[-1]
    return 'const' in last


def static_objects(u):
    """{decl id: (name, where, kind)} of the mutable objects with static storage duration defined in the unit's own code"""
    out = {}
    for name, g in u.globals.items():
        if not _in_repo(g) or g.get('storageClass') == 'extern' and not g.get('inner'):
            continue
        if _is_const_object(cast.qual_type(g)):
            continue
        out[g['id']] = (name, cast.where(g), 'file scope')
    for fn, fd in u.functions.items():
        if not _in_repo(fd):
            continue
        for x in cast.walk(fd):
            if cast.kind(x) == 'VarDecl' and x.get('storageClass') == 'static' and not _is_const_object(cast.qual_type(x)):
                out[x['id']] = (x.get('name'), cast.where(x), 'static local of %s' % fn)
    # extern declarations of the same object in this unit share the name, not the id: map by name too
    return out


def _refs(n, ids):
    return [x for x in cast.walk(n) if cast.kind(x) == 'DeclRefExpr' and x.get('referencedDecl', {}).get('id') in ids]


def _tainted_locals(fd):
    """ids of parameters and of the locals whose value may derive from a parameter (assignment / initialisation from an
    expression that mentions a parameter, a tainted local, memory reached through one, or a call with such an argument);
    flow-insensitive fixpoint.  A counter that only ever gets constants and its own increments stays clean."""
    params = {p['id'] for p in cast.inner(fd) if cast.kind(p) == 'ParmVarDecl'}
    tainted = set(params)
    body = [c for c in cast.inner(fd) if cast.kind(c) == 'CompoundStmt']
    if not body:
        return tainted
    assigns = []            # (target decl id or None, rhs node)
    for x in cast.walk(body[0]):
        k = cast.kind(x)
        if k == 'VarDecl' and x.get('inner') and x.get('storageClass') != 'static':
            assigns.append((x['id'], x['inner'][-1]))
        elif k == 'BinaryOperator' and x.get('opcode') == '=':
            t = _root_var(x['inner'][0])
            assigns.append((t, x['inner'][1]))
        elif k == 'CompoundAssignOperator':
            t = _root_var(x['inner'][0])
            assigns.append((t, x['inner'][1]))
        elif k == 'CallExpr':
            # a local whose address is handed to a call with a tainted argument may come back tainted
            args = x['inner'][1:]
            if any(_mentions(a, tainted) for a in args):
                for a in args:
                    s = cast.strip_all_casts(a)
                    if cast.kind(s) == 'UnaryOperator' and s.get('opcode') == '&':
                        t = _root_var(s['inner'][0])
                        if t:
                            assigns.append((t, args[0] if args else x))
    changed = True
    while changed:
        changed = False
        for t, rhs in assigns:
            if t is not None and t not in tainted and _mentions(rhs, tainted):
                tainted.add(t)
                changed = True
        # re-evaluate the address-taken case with the grown set
        if not changed:
            break
    return tainted


def _root_var(n):
    """decl id of the variable an lvalue expression is rooted at (a, a.f, a[i], *a is NOT rooted at a's storage)"""
    n = cast.strip_all_casts(n)
    while cast.kind(n) in ('MemberExpr', 'ArraySubscriptExpr', 'ParenExpr'):
        if cast.kind(n) == 'MemberExpr' and n.get('isArrow'):
            return None
        n = cast.strip_all_casts(n['inner'][0])
    if cast.kind(n) == 'DeclRefExpr':
        return n.get('referencedDecl', {}).get('id')
    return None


def _mentions(n, ids):
    return any(cast.kind(x) == 'DeclRefExpr' and x.get('referencedDecl', {}).get('id') in ids for x in cast.walk(n))


def _param_types_of_call(u, call):
    """declared parameter types of a call (direct: the callee's prototype; indirect: the function pointer's type)"""
    callee = call['inner'][0]
    qt = cast.qual_type(cast.strip_all_casts(callee)) or cast.qual_type(callee) or ''
    # "ret (args)" or "ret (*)(args)"
    depth, start = 0, None
    for i in range(len(qt) - 1, -1, -1):
        if qt[i] == ')':
            depth += 1
            if depth == 1:
                end = i
        elif qt[i] == '(':
            depth -= 1
            if depth == 0:
                start = i
                break
    if start is None:
        return None
    inside = qt[start + 1:end]
    parts, d, cur = [], 0, ''
    for ch in inside:
        if ch == ',' and d == 0:
            parts.append(cur.strip())
            cur = ''
        else:
            d += ch == '('
            d -= ch == ')'
            cur += ch
    if cur.strip():
        parts.append(cur.strip())
    return parts


def uses(u, fd, ids):
    """classify every use of a static object in function fd: list of (decl id, kind, node, detail)
    kind: 'read' | 'write' (detail: tainted?) | 'expose' (its address reaches code that may write it)"""
    out = []
    tainted = None
    body = [c for c in cast.inner(fd) if cast.kind(c) == 'CompoundStmt']
    if not body:
        return out

    order = {id(x): i for i, x in enumerate(cast.walk(body[0]))}
    exits = None        # [(order index, where)] of the return / goto statements that sit under a condition on argument-derived data

    def cond_of(p, child):
        """the controlling expression of statement p if `child` is one of its controlled parts"""
        k = cast.kind(p)
        inn = p.get('inner', []) or []
        if k == 'IfStmt' and inn and child is not inn[0]:
            return inn[0]
        if k == 'WhileStmt' and len(inn) > 1 and child is inn[-1]:
            return inn[0]
        if k == 'DoStmt' and len(inn) > 1 and child is inn[0]:
            return inn[1]
        if k == 'ForStmt' and len(inn) >= 5 and child is inn[4]:
            return inn[2] or None
        if k == 'SwitchStmt' and inn and child is inn[-1]:
            return inn[0]
        if k == 'ConditionalOperator' and inn and child is not inn[0]:
            return inn[0]
        if k == 'BinaryOperator' and p.get('opcode') in ('&&', '||') and len(inn) == 2 and child is inn[1]:
            return inn[0]
        return None

    def controlled(node, chain):
        """where the execution of `node` depends on argument-derived data: an enclosing condition, or an earlier
        conditional way out of the function; None if it does not"""
        nonlocal exits
        tl = tainted
        child = node
        for p in reversed(chain):
            c = cond_of(p, child)
            if c is not None and _mentions(c, tl):
                return 'under the condition at %s' % cast.where(c)
            child = p
        if exits is None:
            exits = []

            def scan(n, ch):
                if not isinstance(n, dict):
                    return
                if cast.kind(n) in ('ReturnStmt', 'GotoStmt', 'BreakStmt', 'ContinueStmt'):
                    child_ = n
                    for p in reversed(ch):
                        c = cond_of(p, child_)
                        if c is not None and _mentions(c, tl):
                            exits.append((order.get(id(n), 0), cast.where(n)))
                            break
                        child_ = p
                for c in n.get('inner', []) or []:
                    scan(c, ch + [n])
            scan(body[0], [])
        me = order.get(id(node), 0)
        for o, w in exits:
            if o < me:
                return 'behind the conditional way out at %s' % w
        return None

    def visit(n, chain):
        nonlocal tainted
        if not isinstance(n, dict):
            return
        if cast.kind(n) == 'DeclRefExpr' and n.get('referencedDecl', {}).get('id') in ids:
            did = n['referencedDecl']['id']
            # climb to the access expression
            i = len(chain) - 1
            cur = n
            decayed = False
            addr = False
            while i >= 0:
                p = chain[i]
                k = cast.kind(p)
                if k in ('ParenExpr',) or (k == 'MemberExpr' and not p.get('isArrow')) or \
                        (k == 'ArraySubscriptExpr' and cast.strip_all_casts(p['inner'][0]) is cast.strip_all_casts(cur)) or \
                        (k == 'ArraySubscriptExpr' and _is_same(p['inner'][0], cur)):
                    cur = p
                    i -= 1
                    decayed = False if k == 'ArraySubscriptExpr' else decayed
                    continue
                if k in ('ImplicitCastExpr', 'CStyleCastExpr') and p.get('castKind') in ('ArrayToPointerDecay',):
                    decayed = True
                    cur = p
                    i -= 1
                    continue
                if k in ('ImplicitCastExpr', 'CStyleCastExpr') and p.get('castKind') in ('NoOp', 'BitCast') and (decayed or addr):
                    cur = p
                    i -= 1
                    continue
                if k == 'UnaryOperator' and p.get('opcode') == '&':
                    addr = True
                    cur = p
                    i -= 1
                    continue
                break
            parent = chain[i] if i >= 0 else None
            pk = cast.kind(parent)
            if tainted is None:
                tainted = _tainted_locals(fd)
            if decayed or addr:
                # the object's address is in hand: where does it go?
                if pk == 'CallExpr':
                    args = parent['inner'][1:]
                    pos = [j for j, a in enumerate(args) if a is cur or _contains(a, cur)]
                    ptypes = _param_types_of_call(u, parent)
                    j = pos[0] if pos else None
                    pt = ptypes[j] if (ptypes and j is not None and j < len(ptypes)) else None
                    if pt is not None and _pointee_const(pt):
                        out.append((did, 'read', n, 'passed to a parameter of type %s' % pt))
                    else:
                        out.append((did, 'expose', n, 'its address is passed to %s (parameter type %s)' % (
                            cast.callee_name(parent) or 'a call through a pointer', pt or 'unknown')))
                elif pk in ('BinaryOperator',) and parent.get('opcode') == '=' and _contains(parent['inner'][1], cur):
                    lt = cast.qual_type(parent['inner'][0])
                    if _pointee_const(lt):
                        out.append((did, 'read', n, 'address stored as %s' % lt))
                    else:
                        out.append((did, 'expose', n, 'its address is stored into an object of type %s' % lt))
                elif pk == 'VarDecl':
                    lt = cast.qual_type(parent)
                    out.append((did, 'read' if _pointee_const(lt) else 'expose', n, 'its address initialises a %s' % lt))
                elif pk == 'ReturnStmt':
                    out.append((did, 'expose', n, 'its address is returned'))
                elif pk in ('ImplicitCastExpr',) and parent.get('castKind') == 'LValueToRValue':
                    out.append((did, 'read', n, ''))
                elif pk == 'UnaryOperator' and parent.get('opcode') == '*':
                    out.append((did, 'read', n, 'dereferenced'))     # *(g + i) as rvalue or lvalue: refined below
                else:
                    out.append((did, 'expose', n, 'its address is used in a %s' % pk))
                return
            if pk in ('BinaryOperator',) and parent.get('opcode') == '=' and _is_same(parent['inner'][0], cur):
                dep = _mentions(parent['inner'][1], tainted) or _mentions(cur, tainted - {did})
                out.append((did, 'write', n, dep))
                if not dep:
                    # not data of a call - but WHETHER it is written may be: a mark, a mode, a count kept across calls
                    ctl = controlled(parent, chain[:i])
                    if _mentions(parent['inner'][1], {did}):
                        out.append((did, 'update', n, 'its new value is computed from its old one' + (', ' + ctl if ctl else '')))
                    elif ctl:
                        out.append((did, 'mark', n, ctl))
            elif pk == 'CompoundAssignOperator' and _is_same(parent['inner'][0], cur):
                dep = _mentions(parent['inner'][1], tainted) or _mentions(cur, tainted - {did})
                out.append((did, 'write', n, dep))
                if not dep:
                    ctl = controlled(parent, chain[:i])
                    out.append((did, 'update', n, 'it is updated in place (%s)' % parent.get('opcode') + (', ' + ctl if ctl else '')))
            elif pk == 'UnaryOperator' and parent.get('opcode') in ('++', '--'):
                dep = _mentions(cur, tainted - {did})
                out.append((did, 'write', n, dep))
                if not dep:
                    ctl = controlled(parent, chain[:i])
                    out.append((did, 'update', n, 'it is counted %s' % ('up' if parent.get('opcode') == '++' else 'down') + (', ' + ctl if ctl else '')))
            else:
                out.append((did, 'read', n, ''))
            return
        for c in n.get('inner', []) or []:
            visit(c, chain + [n])
    visit(body[0], [])
    return out


def _is_same(a, b):
    a = cast.strip_all_casts(a)
    b = cast.strip_all_casts(b)
    return a is b or (isinstance(a, dict) and isinstance(b, dict) and a.get('id') and a.get('id') == b.get('id'))


def _contains(a, b):
    return any(x is b or (x.get('id') and x.get('id') == b.get('id')) for x in cast.walk(a))


def _written_record_types(u):
    """names of the record types some function of the unit stores into through a pointer (p->f = .., *p = .., memcpy/memset
    with p as destination): an object of such a type whose address is handed out may be modified through it"""
    c = u.__dict__.get('_hidden_wr')
    if c is not None:
        return c
    out = set()

    def tyname(qt):
        q = (qt or '').replace('const ', '').replace('struct ', '').replace('union ', '').replace('*', '').strip()
        return q
    for fn, fd in u.functions.items():
        if not _in_repo(fd):
            continue
        for x in cast.walk(fd):
            k = cast.kind(x)
            tgt = None
            if k == 'BinaryOperator' and x.get('opcode') == '=':
                tgt = x['inner'][0]
            elif k == 'CompoundAssignOperator':
                tgt = x['inner'][0]
            elif k == 'UnaryOperator' and x.get('opcode') in ('++', '--'):
                tgt = x['inner'][0]
            elif k == 'CallExpr' and (cast.callee_name(x) or '') in ('memcpy', 'memset', 'memmove', '__builtin_memcpy', '__builtin_memset') and len(x['inner']) > 1:
                a = cast.strip_all_casts(x['inner'][1])
                out.add(tyname(cast.qual_type(a)))
                continue
            if tgt is None:
                continue
            t0 = cast.strip_all_casts(tgt)
            while cast.kind(t0) in ('MemberExpr', 'ArraySubscriptExpr', 'ParenExpr'):
                if cast.kind(t0) == 'MemberExpr' and t0.get('isArrow'):
                    out.add(tyname(cast.qual_type(t0['inner'][0])))
                    break
                if cast.kind(t0) == 'ArraySubscriptExpr':
                    b = cast.strip_all_casts(t0['inner'][0])
                    if '*' in (cast.qual_type(b) or ''):
                        out.add(tyname(cast.qual_type(b)))
                        break
                t0 = cast.strip_all_casts(t0['inner'][0])
            if cast.kind(t0) == 'UnaryOperator' and t0.get('opcode') == '*':
                out.add(tyname(cast.qual_type(t0['inner'][0])))
    u.__dict__['_hidden_wr'] = out
    return out


def _elem_type(qt):
    q = (qt or '').replace('const ', '').replace('struct ', '').replace('union ', '').strip()
    if '[' in q:
        q = q[:q.index('[')].strip()
    return q.replace('*', '').strip()


def _attr_violations(u, only=None):
    """functions whose declared optimisation contract does not hold for their body: `const` (result depends on the argument
    VALUES only: no memory read through a pointer argument, no read of non-constant objects) or `pure` (no store).  The
    compiler acts on the declaration: it merges or hoists calls across stores, so `x = load(p); store(p, v); y = load(p)`
    yields the old value - the function is right, its callers are compiled wrong."""
    decls = {}
    for n in cast.inner(u.root):
        if cast.kind(n) == 'FunctionDecl' and _in_repo(n):
            decls.setdefault(n.get('name'), []).append(n)
    out = []
    for fn, fd in sorted(u.functions.items()):
        if not _in_repo(fd):
            continue
        if only and not (cast.node_file(fd) or '').endswith(only):
            continue
        attrs = set()
        for d in decls.get(fn, []) + [fd]:
            for c in cast.inner(d):
                k = cast.kind(c) or ''
                if k in ('ConstAttr', 'PureAttr'):
                    attrs.add(k)
        if not attrs:
            continue
        params = {p['id']: p for p in cast.inner(fd) if cast.kind(p) == 'ParmVarDecl'}
        ptr_params = {i for i, p in params.items() if '*' in cast.qual_type(p) or '[' in cast.qual_type(p)}
        body = [c for c in cast.inner(fd) if cast.kind(c) == 'CompoundStmt']
        if not body:
            continue
        # aliases: pointer-typed locals whose value derives from a pointer argument (`const unsigned char *src = ptr;`)
        tl = _tainted_locals(fd)
        for x in cast.walk(body[0]):
            if cast.kind(x) == 'VarDecl' and x.get('id') in tl and '*' in cast.qual_type(x) and x.get('inner') and _mentions(x['inner'][-1], ptr_params):
                ptr_params.add(x['id'])
        reads = stores = None
        for x in cast.walk(body[0]):
            k = cast.kind(x)
            if k in ('UnaryOperator',) and x.get('opcode') == '*' or k == 'ArraySubscriptExpr' or (k == 'MemberExpr' and x.get('isArrow')):
                if _mentions(x, ptr_params):
                    reads = reads or x
            if k == 'CallExpr' and any(_mentions(a, ptr_params) for a in x['inner'][1:]):
                reads = reads or x            # the memory is handed on (memcpy, a loader): read by the callee
            tgt = None
            if k == 'BinaryOperator' and x.get('opcode') == '=':
                tgt = x['inner'][0]
            elif k == 'CompoundAssignOperator' or (k == 'UnaryOperator' and x.get('opcode') in ('++', '--')):
                tgt = x['inner'][0]
            if tgt is not None and _mentions(tgt, ptr_params) and cast.kind(cast.strip_all_casts(tgt)) != 'DeclRefExpr':
                stores = stores or x
        if 'ConstAttr' in attrs and reads is not None:
            out.append((fn, cast.where(fd), '`%s` is declared __attribute__((const)) but reads memory through a pointer argument (%s): the compiler may reuse an earlier '
                        'call\'s result across a store to that memory - store, load, store, load through the same pointer returns the FIRST value in an optimised build'
                        % (fn, cast.where(reads))))
        if stores is not None:
            out.append((fn, cast.where(fd), '`%s` is declared %s but stores through a pointer (%s): the compiler may drop or merge calls whose result is unused'
                        % (fn, 'const' if 'ConstAttr' in attrs else 'pure', cast.where(stores))))
    return out


def _reporter(u, fn_):
    """a function that does nothing but hand a static object's value out: `return object;` (casts, a member or an element
    of it) - no parameter, no other operand takes part"""
    b_ = [c for c in cast.inner(u.functions[fn_]) if cast.kind(c) == 'CompoundStmt']
    st_ = [c for c in cast.inner(b_[0])] if b_ else []
    if len(st_) != 1 or cast.kind(st_[0]) != 'ReturnStmt' or not cast.inner(st_[0]):
        return False
    e = cast.strip_all_casts(cast.inner(st_[0])[0])
    while cast.kind(e) in ('MemberExpr', 'ParenExpr', 'ImplicitCastExpr', 'CStyleCastExpr'):
        e = cast.strip_all_casts(e['inner'][0])
    return cast.kind(e) == 'DeclRefExpr' and e.get('referencedDecl', {}).get('kind') == 'VarDecl'


def run(ck, pid):
    rule = pid + '.s'
    rels = UNITS.get(pid)
    if not rels:
        return
    ck.rule(rule, 'no hidden state: no function of the property\'s code keeps argument-derived data in an object with static storage duration '
                  '(a later or nested call would depend on earlier ones); lazily initialised constant tables are not state')
    only = ONLY_FILES.get(pid)
    nfun = nobj = 0
    for rel in rels:
        u = cast.load(rel)
        objs = static_objects(u)
        nobj += len(objs)
        ids = set(objs)
        otypes = {}
        for name_, g_ in u.globals.items():
            otypes[g_['id']] = cast.qual_type(g_)
        for fd_ in u.functions.values():
            for x_ in cast.walk(fd_):
                if cast.kind(x_) == 'VarDecl' and x_.get('id') in ids:
                    otypes[x_['id']] = cast.qual_type(x_)
        found = {}
        reads = {}
        fillers = {}       # object -> functions that fill it with data that is no call's
        updaters = set()   # (object, function) pairs where the write is an update in place (a count), not a fill
        pending = []       # writes that carry no data of a call but whose happening depends on one: state if somebody reads it
        for fn, fd in sorted(u.functions.items()):
            if not _in_repo(fd):
                continue
            if only and not (cast.node_file(fd) or '').endswith(only):
                continue
            nfun += 1
            if not ids:
                continue
            for did, kind_, node, detail in uses(u, fd, ids):
                if kind_ == 'read':
                    reads.setdefault(did, []).append((fn, cast.where(node)))
                elif kind_ == 'write' and detail:
                    found.setdefault((did, fn), ('%s assigns it data derived from its arguments' % fn, cast.where(node)))
                elif kind_ == 'write':
                    fillers.setdefault(did, set()).add(fn)
                elif kind_ in ('update', 'mark'):
                    pending.append((did, fn, kind_, detail, cast.where(node)))
                    if kind_ == 'update':
                        updaters.add((did, fn))
                elif kind_ == 'expose':
                    # handing out the address matters when something may store through it: scalar memory (octets, words)
                    # always may; a record only if this code stores through pointers to that record type somewhere
                    et = _elem_type(otypes.get(did, ''))
                    if u.typedefs.get(et) is not None or et in u.records:
                        if et not in _written_record_types(u):
                            reads.setdefault(did, []).append((fn, cast.where(node)))
                            continue
                    found.setdefault((did, fn), (detail, cast.where(node)))
        # lazily filled objects: a static object the unit's code fills at run time with data that is no call's (a table
        # computed on first use) gives every call the same result - PROVIDED every function that reads it has made sure it
        # is filled.  A public function that reads it (directly or through internal helpers) without calling the function
        # that fills it works only after some other call has run: what it answers depends on the calls made before.
        callees = {}
        for fn_, fd_ in u.functions.items():
            callees[fn_] = {cast.callee_name(c) for c in cast.walk(fd_) if cast.kind(c) == 'CallExpr' and cast.callee_name(c)}
        for did in sorted(fillers, key=lambda d: objs[d][0]):
            S = {f_ for f_ in fillers[did] if (did, f_) not in updaters}
            if not S:
                continue
            readers_ = {r[0] for r in reads.get(did, [])} - S - {r[0] for r in reads.get(did, []) if _reporter(u, r[0])}
            if not readers_:
                continue

            def covered(f_, seen):
                if f_ in S or callees.get(f_, set()) & S:
                    return None
                fd_ = u.functions.get(f_)
                if fd_ is not None and fd_.get('storageClass') == 'static' and f_ not in seen:
                    callers = [g for g, cs_ in callees.items() if f_ in cs_ and g != f_]
                    if callers:
                        for g in callers:
                            w = covered(g, seen | {f_})
                            if w:
                                return w
                        return None
                return f_
            for f_ in sorted(readers_):
                w = covered(f_, set())
                if w and (did, w) not in found:
                    found[(did, w)] = ('%s reads it%s without making sure it has been filled (%s fills it at run time): the function works only once some other call has done '
                                       'so - its answer depends on the calls made before it' % (w, '' if w == f_ else ' through ' + f_, ', '.join(sorted(S))), cast.where(u.functions[w]))
        reporter = lambda fn_: _reporter(u, fn_)
        for did, fn, kind_, detail, where in pending:
            if not [r for r in reads.get(did, []) if not reporter(r[0])]:
                continue            # written, never consulted: a statistic, not state the operations depend on
            if kind_ == 'mark':
                # a flag set once under a condition on the static object itself is lazy initialisation; `controlled` only
                # reports conditions on argument-derived data, so what arrives here is a mark that records something
                # about THIS call's arguments
                what = '%s writes it %s: whether the write happens records something about this call\'s arguments' % (fn, detail)
            else:
                what = '%s: %s - it accumulates over calls' % (fn, detail)
            found.setdefault((did, fn), (what, where))
        for (did, fn), (what, where) in sorted(found.items(), key=lambda kv: (objs[kv[0][0]][0], kv[0][1])):
            name, dwhere, okind = objs[did]
            rd = reads.get(did, [])
            ck.violation(rule, 'static:%s:%s' % (name, fn), where,
                         '%s object `%s` (%s): %s; it outlives the call, so what a later call - or a nested call through a callback - does depends on '
                         'this one (%s); every property here is stated for an operation given its arguments and the objects they designate'
                         % (okind, name, dwhere, what, ('read back in %s at %s' % rd[0]) if rd else 'reachable through the pointer handed out'))
        if not found:
            ck.holds(rule, 'static:%s' % rel, rel, 'no function of %s keeps argument-derived data in static storage (%d mutable static objects: %s)'
                     % (rel, len(objs), ', '.join(sorted(v[0] for v in objs.values())) or 'none'))
    # declared optimisation contracts (const / pure) of the property's functions hold for their bodies
    nattr = 0
    for rel in rels:
        u = cast.load(rel)
        for fn, where, msg in _attr_violations(u, only):
            nattr += 1
            ck.violation(rule, 'attribute:%s' % fn, where, msg)
    if nattr == 0:
        ck.holds(rule, 'attributes', ', '.join(rels), 'no function of the property\'s code carries a const / pure attribute its body does not honour')
    ck.floor(rule, 'functions looked at', nfun, 3)
