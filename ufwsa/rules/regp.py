"""Shared context for the register-protocol properties C06-C09."""
from .. import cast, sym, front

UNIT = 'src/register-protocol.c'
P, MF = ('v', 'p'), ('v', 'mf')
FRAME = ('f', MF, 'frame')

RESP_WRAPPERS = {'regp_resp_ewordsize', 'regp_resp_epayloadcrc', 'regp_resp_epayloadsize', 'regp_resp_erxoverflow',
                 'regp_resp_etxoverflow', 'regp_resp_ebusy', 'regp_resp_eunmapped', 'regp_resp_eaccess',
                 'regp_resp_erange', 'regp_resp_einvalid', 'regp_resp_eio'}
PREDICATES = {'regp_is_request', 'regp_is_read_request', 'regp_is_write_request', 'regp_is_response',
              'regp_is_read_response', 'regp_is_write_response', 'regp_is_meta_message', 'regp_is_16bitsem',
              'regp_has_hdcrc', 'regp_has_plcrc', 'raw_with_hdcrc', 'raw_with_plcrc', 'memtype_valid', 'trxbufsize',
              'byte_buffer_rest', 'byte_buffer_avail', 'early_ebusy', 'early_erxoverflow', 'msem_size', 'req2resp'}
REPLIES = ('send_resp_0', 'send_resp_32', 'regp_resp_ack', 'regp_resp_meta', 'send_early_response')


def strip_cast(t):
    while t is not None and t[0] == 'cast':
        t = t[2]
    return t


def hdr(field, frame=FRAME):
    return ('f', ('&', ('f', frame, 'header')), field)


class Regp:
    def __init__(self, ck, inline=None):
        self.ck = ck
        self.u = cast.load(UNIT)
        self.ub = cast.load('src/byte-buffer.c')
        ck.unit(UNIT)
        self.so = sym.unit_sizeofs(UNIT, self.u)
        self.E = dict(self.u.enums)
        macros = ['RP_OPT_WORD_SIZE_16', 'RP_OPT_WITH_HEADER_CRC', 'RP_OPT_WITH_PAYLOAD_CRC', 'RP_IMPLEMENTATION_VERSION',
                  'RP_DEFAULT_BUFFER_SIZE', 'EBADMSG', 'EILSEQ', 'EFAULT', 'EINVAL', 'EPROTO', 'EBUSY', 'ENOMEM']
        try:
            self.E.update(zip(macros, front.probe_values(UNIT, macros)))
        except front.FrontError as e:
            ck.broken('regp.front', 'macros', '', str(e))
        self.P = {}
        self.eng = self.engine(inline if inline is not None else (PREDICATES | RESP_WRAPPERS))

    def engine(self, inline):
        return sym.Engine(self.u, sizeof=self.so, inline=set(inline), other_units=[self.ub])

    def paths(self, fn, rule, eng=None):
        eng = eng or self.eng
        if not hasattr(eng, '_cache_uid'):
            Regp._n = getattr(Regp, '_n', 0) + 1
            eng._cache_uid = Regp._n
            self.__dict__.setdefault('_keep', []).append(eng)
        key = (fn, eng._cache_uid)
        if key in self.P:
            return self.P[key]
        self.ck.function(fn)
        if self.u.fn(fn) is None:
            self.ck.broken(rule, fn, '', 'function missing (anchor vanished)')
            self.P[key] = None
            return None
        try:
            ps = eng.paths(fn)
            self.ck.analysed['paths'] += len(ps)
        except (sym.Unsupported, sym.PathLimit) as e:
            self.ck.broken(rule, fn, cast.where(self.u.fn(fn)), 'path enumeration: %s' % e)
            ps = None
        self.P[key] = ps
        return ps

    def where(self, fn):
        f = self.u.fn(fn)
        return cast.where(f) if f else ''

    def errno(self, name):
        """errno constants as the unit sees them"""
        c = self.__dict__.setdefault('_errno', {})
        if name not in c:
            c[name] = front.probe_values(UNIT, [name])[0]
        return c[name]


def backend_calls(p):
    return [e for e in p.effects if e.kind == 'icall' and 'memory.access' in e.name]


def reply_calls(p):
    return [e for e in p.effects if e.kind == 'call' and e.name in REPLIES]
