"""C02 Block writes are validated as a whole and are all-or-nothing.

a ORDER  b OVERLAY (linear case analysis of ra_malformed_write)  c REPORT-ADDRESS
d WALK (block walkers)  e TOUCH.  Not decided: first-error precedence between
failure classes of mixed requests; callback areas."""
from .. import cast, sym, lin
from .common import distinct_enums
from ..sym import C, fmt, linearize as L
from ..lin import Lin
from .regs import Regs, T, strip_cast, size_facts, scan_rule, for_headers, touch_helpers, callback_guard, config_bits_rule, config_bits_fixture

ADDR, N, BUF = ('v', 'addr'), ('v', 'n'), ('v', 'buf')


def code_of(ret):
    if ret is not None and ret[0] == 'struct':
        return dict(ret[2]).get('code')
    return None


def addr_of(ret):
    if ret is not None and ret[0] == 'struct':
        return dict(ret[2]).get('address')
    return None


def rule_a(ck, R):
    eng = sym.Engine(R.u, sizeof=R.so, inline=set())
    ps = R.paths('register_block_write', 'C02.a', eng)
    if ps is None:
        return
    where = R.where('register_block_write')
    E = R.E
    SUCCESS = E['REG_ACCESS_SUCCESS']
    INIT = E['REG_TF_INITIALISED']
    checks = ['ra_writeable', 'register_block_touches_hole', 'ra_malformed_write']
    bad = None
    full = 0
    for p in ps:
        names = [e.name for e in p.calls()]
        conds = p.cond_terms()
        first = conds[0] if conds else None
        if not (first is not None and first[0] == 'cmp' and first[2] == ('&b', ('f', T, 'flags'), C(INIT))):
            bad = 'INITIALISED is not the first decision'
        if any(c == ('cmp', '==', N, C(0)) for c in conds):
            if names or code_of(p.ret) != C(SUCCESS):
                bad = 'zero-length write is not an immediate success without effects'
            continue
        if 'register_block_write_unsafe' in names:
            full += 1
            iw = names.index('register_block_write_unsafe')
            for cn in checks:
                if cn not in names[:iw]:
                    bad = '%s does not precede the write' % cn
                else:
                    ce = p.calls(cn)[0]
                    ok = any(c[0] == 'cmp' and c[1] == '==' and sym.contains(c[2], ce.result) and c[3] == C(SUCCESS) for c in conds)
                    if not ok:
                        bad = 'write reached without %s having reported success' % cn
                    want_args = (T, ADDR, N) + ((BUF,) if cn == 'ra_malformed_write' else ())
                    if tuple(ce.args) != want_args:
                        bad = '%s called with %s' % (cn, [fmt(a) for a in ce.args])
            w = p.calls('register_block_write_unsafe')[0]
            if tuple(w.args) != (T, ADDR, N, BUF):
                bad = 'write called with %s' % [fmt(a) for a in w.args]
            wok = any(c[0] == 'cmp' and c[1] == '==' and sym.contains(c[2], w.result) and c[3] == C(SUCCESS) for c in conds)
            if 'reg_taint_in_range' in names:
                if not wok or names.index('reg_taint_in_range') < iw:
                    bad = 'registers marked touched without a successful write'
                tt = p.calls('reg_taint_in_range')[0]
                if tuple(tt.args) != (T, ADDR, N):
                    bad = 'taint range is %s' % [fmt(a) for a in tt.args]
            elif wok:
                bad = 'successful write does not mark the overlapped registers touched'
        else:
            # failing path: the failing check's result is returned unchanged, no write
            if names:
                last = p.calls(names[-1])[0]
                if names[-1] in checks and p.ret is not None:
                    base = p.ret[1] if p.ret[0] == 'struct' else p.ret
                    if strip_cast(base) != last.result and p.ret != last.result:
                        bad = 'failure of %s is not returned unchanged' % names[-1]
    if full == 0 and bad is None:
        bad = 'no path reaches the write'
    ck.verdict(bad is None, 'C02.a', 'register_block_write', where,
               'init test, n==0 shortcut, writable -> mapped -> well-formed checks (each returned unchanged on failure) before the only write; taint only after a successful write'
               if bad is None else bad)


def loop_const_invariant(paths, keyname, value):
    """K == value holds at the loop head by induction: the value before the loop
    and the final value on every loopback path are `value` (literally or by a
    path condition).  keyname 'x.f' also matches a loop-carried whole struct x."""
    ok = True
    seen = False
    parent, _, field = keyname.rpartition('.')
    for p in paths:
        if not p.loops:
            continue
        lmap = p.loops[-1][1]
        exact = any(fmt(k) == keyname for k in lmap)
        for k, (h, pre) in lmap.items():
            if fmt(k) == keyname:
                fk, hv, prev = k, h, pre
            elif parent and fmt(k) == parent and not exact:        # the field's own entry is the value read at the head
                fk = ('f', ('&', k), field)
                hv = sym.field_of_value(h, field)
                prev = sym.field_of_value(pre, field) if pre is not None else None
            else:
                continue
            seen = True
            if prev is not None and prev != value:
                ok = False
            if p.end == 'loopback':
                fin = sym.mem_read(p.mem, fk, hv)
                if fin == value or fin == hv:
                    continue
                if any(c == ('cmp', '==', fin, value) for c in p.cond_terms()):
                    continue
                ok = False
    return ok and seen


def rule_b(ck, R):
    eng = R.eng
    eng.pure = {'rv_validate'} if getattr(R, 'validate_pure', True) else set()
    ps = R.paths('ra_malformed_write', 'C02.b')
    if ps is None:
        return
    where = R.where('ra_malformed_write')
    E = R.E
    ncase = 0
    seen_cases = set()
    for p in ps:
        mc = [e for e in p.calls('memcpy')]
        if not mc:
            continue
        m = mc[0]
        facts = eng.path_facts(p) + [Lin.const(1) - L(N)]       # n >= 1 (caller's n == 0 shortcut, C02.a)
        facts = facts + size_facts([f_ for f_ in facts if isinstance(f_, Lin)] + [L(m.args[2])])
        # identify entry address A and size S from the area read of this iteration
        rd = [e for e in p.effects if e.kind == 'icall' and e.name.endswith('read')]
        if not rd or p.effects.index(rd[0]) > p.effects.index(m):
            ck.violation('C02.b', 'read-before-overlay', m.where(), 'the entry is not read before the overlay')
            continue
        S = strip_cast(rd[0].args[3])
        eptr = rd[0].args[0][1] if rd[0].args[0][0] == 'f' else None      # (entry+i)->area -> entry+i
        if eptr is None:
            ck.broken('C02.b', 'entry', rd[0].where(), 'entry pointer not recognised')
            continue
        A = ('f', eptr, 'address')
        if rd[0].args[1] != m.args[0] and L(m.args[0]).t.get(rd[0].args[1]) != 1:
            ck.violation('C02.b', 'overlay-target', m.where(), 'overlay does not target the buffer the entry was read into')
        rs = L(m.args[0]) - L(rd[0].args[1])
        bs = L(m.args[1]) - L(BUF)
        ln = L(m.args[2])
        atom_sz = R.so.get('RegisterAtom', 2)
        rlen = ln.scale(lin.Fraction(1, atom_sz)) if hasattr(lin, 'Fraction') else ln.scale(0.5)
        LA, LS, Laddr, Ln = L(A), L(S), L(ADDR), L(N)
        # case by the path's ordering conditions
        first_inside = eng.entails(facts, lin.lt(LA, Laddr))         # addr > A
        last_inside = eng.entails(facts, lin.lt(Laddr + Ln, LA + LS))   # A+S > addr+n
        case = ('tail' if first_inside else 'head', 'cut' if last_inside else 'full')
        seen_cases.add(case)
        lo = Laddr if first_inside else LA            # max(A, addr)
        hi = (Laddr + Ln) if last_inside else (LA + LS)   # min(A+S, addr+n)
        want_rs = (Laddr - LA) if first_inside else Lin.const(0)
        want_bs = Lin.const(0) if first_inside else (LA - Laddr)
        want_len = hi - lo

        def same(a, b):
            d = a - b
            return (d.is_const() and d.c == 0) or (eng.entails(facts, d) and eng.entails(facts, -d))
        key = 'overlay:%s-%s:%s' % (case[0], case[1], p.end if p.end != 'return' else 'fail%s' % fmt(code_of(p.ret) or C(-1)))
        probs = []
        if not same(rs, want_rs):
            probs.append('register offset is %s, expected %s' % (rs, want_rs))
        if not same(bs, want_bs):
            probs.append('block offset is %s, expected %s' % (bs, want_bs))
        if not same(rlen, want_len):
            probs.append('copies %s atoms, the overlap [max(A,addr), min(A+S,addr+n)) has %s' % (rlen, want_len))
        # memory safety of the overlay
        if not eng.entails(facts, rs + rlen - LS):
            probs.append('overlay writes past the %s atoms of the register image (raw[])' % fmt(S))
        if not eng.entails(facts, bs + rlen - Ln):
            probs.append('overlay reads past the caller\'s n atoms')
        if not eng.entails(facts, Lin.const(1) - rlen):
            probs.append('overlap length can be zero or negative')
        ncase += 1
        ck.verdict(not probs, 'C02.b', key, m.where(),
                   'case %s/%s: copies exactly the overlap (%s atoms from block offset %s to register offset %s), inside both buffers' % (case + (want_len, want_bs, want_rs))
                   if not probs else 'case %s: ' % '/'.join(case) + '; '.join(probs))
        # des + validate on the overlaid image
        des = [e for e in p.effects if e.kind == 'icall' and e.name.endswith('.des')]
        val = p.calls('rv_validate')
        okd = des and des[0].args[0] == rd[0].args[1] and p.effects.index(des[0]) > p.effects.index(m)
        if not okd:
            ck.violation('C02.b', key + ':decode', m.where(), 'the overlaid image is not passed to the type\'s deserialiser')
        if des:
            dfail = any(c[0] == 'cmp' and c[1] == '==' and sym.contains(c[2], des[0].result) and c[3] == C(0) for c in p.cond_terms())
            if dfail:
                if code_of(p.ret) != C(E['REG_ACCESS_INVALID']):
                    ck.violation('C02.b', key + ':invalid', m.where(), 'undecodable overlay does not end in REG_ACCESS_INVALID')
                continue
            if not val or val[0].args[1] != eptr:
                ck.violation('C02.b', key + ':validate', m.where(), 'decoded overlay is not validated against its entry')
            elif any(c[0] == 'cmp' and c[1] == '==' and sym.contains(c[2], val[0].result) and c[3] == C(0) for c in p.cond_terms()):
                if code_of(p.ret) != C(E['REG_ACCESS_RANGE']):
                    ck.violation('C02.b', key + ':range', m.where(), 'constraint violation does not end in REG_ACCESS_RANGE')
    ck.verdict(seen_cases == {('tail', 'full'), ('tail', 'cut'), ('head', 'full'), ('head', 'cut')}, 'C02.b', 'overlay:cases', where,
               'all four orderings of (block start vs register start, block end vs register end) are handled' if len(seen_cases) == 4 else
               'orderings found: %s' % sorted(seen_cases))
    ck.floor('C02.b', 'overlay instances', ncase, 8)
    # skip / stop predicates of the entry walk
    skip = stop = False
    for p in ps:
        if p.calls() or not p.loops:
            continue
        conds = p.cond_terms()
        txt = [fmt(c) for c in conds]
        if p.end == 'loopback' and len(conds) >= 2:
            c = conds[-1]
            # entry end < addr :  (A + S - 1) < addr
            d = L(c[2]) - L(c[3])
            at = sorted(fmt(a) for a in d.atoms())
            if c[1] == '<' and any('address' in a for a in at) and d.t.get(ADDR) == -1 and d.c == -1:
                skip = True
        if p.end == 'return' and len(conds) >= 3:
            c = conds[-1]
            d = L(c[2]) - L(c[3])
            if c[1] == '<' and d.t.get(ADDR) == 1 and d.t.get(N) == 1 and d.c == -1:
                stop = True
    ck.verdict(skip, 'C02.b', 'walk:skip', where, 'entries ending below the block start are skipped (A+S-1 < addr)' if skip else 'skip test is not "entry ends below addr"')
    ck.verdict(stop, 'C02.b', 'walk:stop', where, 'the walk stops at the first entry starting above the last address (addr+n-1 < A)' if stop else 'stop test is not "entry starts above the last address"')
    inv = loop_const_invariant(ps, 'rv.code', C(E['REG_ACCESS_SUCCESS']))
    ck.verdict(inv, 'C02.b', 'result:success', where,
               'when no entry objects, the result is SUCCESS (rv.code == SUCCESS is a loop invariant)' if inv else
               'rv.code == SUCCESS at the end of the walk is not established')


def rule_c(ck, R):
    """failure address inside request and offending object"""
    eng = R.eng
    E = R.E
    # ra_malformed_write: addr + bs  where bs = max(0, A - addr): first overlapped address
    ps = R.paths('ra_malformed_write', 'C02.c')
    if ps is not None:
        bad = None
        nrep = 0
        for p in ps:
            cd = code_of(p.ret)
            if cd in (C(E['REG_ACCESS_INVALID']), C(E['REG_ACCESS_RANGE'])):
                nrep += 1
                facts = eng.path_facts(p) + [Lin.const(1) - L(N)]      # n >= 1: the only caller returns early for n == 0 (C02.a)
                facts = facts + size_facts([f_ for f_ in facts if isinstance(f_, Lin)])
                if addr_of(p.ret) is None:
                    bad = bad or 'a failure is returned under {%s} without naming an address (the address field is never assigned on that path)' % '; '.join(fmt(c) for c in p.cond_terms()[-2:])[:160]
                    continue
                a = L(addr_of(p.ret))
                rd = [e for e in p.effects if e.kind == 'icall' and e.name.endswith('read')]
                if rd:
                    eptr, sz = rd[0].args[0][1], strip_cast(rd[0].args[3])
                else:
                    # a path that did not fetch the old content (the block replaces the register as a whole): the
                    # register is the one whose address the walk's tests speak about, its size the table entry of its type
                    ads = [x for c in p.cond_terms() for x in sym.subterms(c) if x[0] == 'f' and x[2] == 'address' and x[1] != ('v', 'rv')]
                    szs = [x for c in p.cond_terms() for x in sym.subterms(c) if x[0] == 'i' and 'rds_size' in fmt(x)]
                    if not ads or not szs:
                        bad = bad or 'a failure is reported on a path on which the register concerned cannot be identified'
                        continue
                    eptr, sz = ads[-1][1], szs[-1]
                A, S = L(('f', eptr, 'address')), L(sz)
                ok = (eng.entails(facts, L(ADDR) - a) and eng.entails(facts, a + 1 - L(ADDR) - L(N)) and
                      eng.entails(facts, A - a) and eng.entails(facts, a + 1 - A - S))
                first = eng.entails(facts, a - L(ADDR)) or eng.entails(facts, a - A)
                if not (ok and first):
                    bad = 'reported address %s not proved to be the first address of request and register' % fmt(addr_of(p.ret))
        ck.verdict(bad is None and nrep >= 8, 'C02.c', 'ra_malformed_write', R.where('ra_malformed_write'),
                   'INVALID/RANGE report max(addr, register address): inside the request and the offending register' if bad is None and nrep >= 8 else (bad or 'failure reports not found'))
    # ra_writeable
    ps = R.paths('ra_writeable', 'C02.c')
    if ps is not None:
        bad = None
        nrep = 0
        for p in ps:
            if code_of(p.ret) == C(E['REG_ACCESS_READONLY']):
                nrep += 1
                facts = eng.path_facts(p)
                if addr_of(p.ret) is None:
                    bad = bad or 'a failure is returned without naming an address'
                    continue
                a = L(addr_of(p.ret))
                # area of this iteration
                bases = [x for c in p.cond_terms() for x in sym.subterms(c) if x[0] == 'f' and x[2] == 'base']
                if not bases:
                    bad = 'area base not found on the refusing path'
                    continue
                base = L(bases[0])
                size = L(('f', bases[0][1], 'size'))
                facts = facts + [Lin.const(1) - size, Lin.const(1) - L(N)]     # areas are non-empty; n >= 1
                ok = (eng.entails(facts, L(ADDR) - a) and eng.entails(facts, a + 1 - L(ADDR) - L(N)) and
                      eng.entails(facts, base - a) and eng.entails(facts, a + 1 - base - size))
                if not ok:
                    bad = ('READONLY reports %s; it must be the first address inside both the request [addr, addr+n) and the '
                           'read-only area [base, base+size): for a request starting in a writable area below, addr itself is not in the read-only area'
                           % fmt(addr_of(p.ret)))
        ck.verdict(bad is None and nrep >= 1, 'C02.c', 'ra_writeable', R.where('ra_writeable'),
                   'READONLY reports the first requested address that lies in the read-only area' if bad is None and nrep else (bad or 'no READONLY report found'))
    # ra_range_touches: exact three-way classification, and its use in ra_writeable
    eng0 = sym.Engine(R.u, sizeof=R.so, inline=set())
    ps0 = R.paths('ra_range_touches', 'C02.a', eng0)
    if ps0 is not None:
        a_ = ('v', 'a')
        B, SZ = L(('f', a_, 'base')), L(('f', a_, 'size'))
        bad = None
        seen = set()
        for p in ps0:
            if p.ret is None or not sym.is_c(p.ret):
                bad = bad or 'returns %s' % (fmt(p.ret) if p.ret else None)
                continue
            v = p.ret[1]
            facts = eng0.path_facts(p) + [Lin.const(1) - SZ, Lin.const(1) - L(N)]
            if v < 0:
                seen.add('below')
                if not eng0.entails(facts, B + SZ - L(ADDR)):
                    bad = bad or 'a negative result (area below the range) is returned under {%s}, which does not imply base + size <= addr' % '; '.join(fmt(c) for c in p.cond_terms())
            elif v > 0:
                seen.add('above')
                if not eng0.entails(facts, L(ADDR) + L(N) - B):
                    bad = bad or 'a positive result (area above the range) is returned under {%s}, which does not imply addr + n <= base' % '; '.join(fmt(c) for c in p.cond_terms())
            else:
                seen.add('overlap')
                if not (eng0.entails(facts, lin.lt(B, L(ADDR) + L(N))) and eng0.entails(facts, lin.lt(L(ADDR), B + SZ))):
                    bad = bad or 'result 0 does not imply that [base, base+size) and [addr, addr+n) overlap'
        if seen != {'below', 'above', 'overlap'}:
            bad = bad or 'result classes found: %s' % sorted(seen)
        ck.verdict(bad is None, 'C02.a', 'ra_range_touches', R.where('ra_range_touches'),
                   '<0 exactly for areas wholly below the range, >0 wholly above, 0 for overlap' if bad is None else bad)
    psw = R.paths('ra_writeable', 'C02.a', eng0)
    if psw is not None:
        bad = None
        nro = 0
        for p in psw:
            rt = p.calls('ra_range_touches')
            wr = p.calls('register_area_is_writeable')
            if not rt:
                continue
            r = rt[-1].result
            if tuple(rt[-1].args[1:]) != (ADDR, N):
                bad = bad or 'overlap test uses %s' % [fmt(a) for a in rt[-1].args]
            below = eng0.entails(p, L(r) + 1)
            above = eng0.entails(p, Lin.const(1) - L(r))
            zero = eng0.entails(p, L(r)) and eng0.entails(p, -L(r))
            last_wr = [e for e in wr if p.effects.index(e) > p.effects.index(rt[-1])]
            if below and (last_wr or p.end != 'loopback'):
                bad = bad or 'an area below the request is not simply skipped'
            elif above and (last_wr or p.end == 'loopback' or code_of(p.ret) != C(E['REG_ACCESS_SUCCESS'])):
                bad = bad or 'an area above the request does not end the scan with success'
            elif zero:
                if len(last_wr) != 1 or last_wr[0].args[0] != rt[-1].args[0]:
                    bad = bad or 'an overlapped area is not tested for writeability'
                else:
                    w = last_wr[0].result
                    refused = any(c[0] == 'cmp' and c[1] == '==' and strip_cast(c[2]) == w and c[3] == C(0) for c in p.cond_terms())
                    if refused:
                        nro += 1
                        if p.end != 'return' or code_of(p.ret) != C(E['REG_ACCESS_READONLY']):
                            bad = bad or 'an overlapped area that is not writeable does not end the check with READONLY'
                    elif p.end != 'loopback':
                        bad = bad or 'a writeable overlapped area ends the scan'
            elif not (below or above):
                bad = bad or 'the scan acts on an overlap result that is not decided: {%s}' % '; '.join(fmt(c) for c in p.cond_terms() if sym.contains(c, r))
        if nro == 0:
            bad = bad or 'no refusing path'
        ck.verdict(bad is None, 'C02.a', 'ra_writeable:use', R.where('ra_writeable'),
                   'below -> next area, above -> done, overlap -> must be writeable else READONLY' if bad is None else bad)
    # register_block_touches_hole: NOENTRY at the cursor which is unmapped
    ps = R.paths('register_block_touches_hole', 'C02.c')
    if ps is not None:
        bad = None
        nrep = 0
        for p in ps:
            if code_of(p.ret) == C(E['REG_ACCESS_NOENTRY']):
                nrep += 1
                a = addr_of(p.ret)
                fa = [e for e in p.calls('ra_find_area_by_addr')]
                if not fa or fa[-1].args[1] != a:
                    bad = 'NOENTRY reports %s, not the cursor that was looked up' % fmt(a)
                elif not any(c[0] == 'cmp' and c[1] == '==' and sym.contains(c, fa[-1].result) and sym.contains(c, ('f', T, 'areas')) for c in p.cond_terms()):
                    bad = 'NOENTRY not conditioned on "no area found"'
        ck.verdict(bad is None and nrep >= 1, 'C02.c', 'register_block_touches_hole', R.where('register_block_touches_hole'),
                   'reports the first cursor position for which no area is found' if bad is None and nrep else (bad or 'no NOENTRY report'))


class WalkAccount:
    """progress variables of a block walker's loop (see walker)"""

    def __init__(self, ps):
        self.track = track = {}
        candidates = self.candidates
        for p in ps:
            if p.end != 'loopback' or not p.loops:
                continue
            node, lmap = p.loops[-1]
            deltas = {}
            for k, (sg, what) in candidates(lmap).items():
                h = lmap[k][0]
                d = (L(strip_cast(p.mem.get(k, h))) - L(h)).scale(sg)
                if d.is_const() and d.c == 0 and what == '0':
                    continue                       # a local that starts at 0 and does not move is no account
                deltas[k] = d
            vals = list(deltas.values())
            agree = {k: sg_w for k, sg_w in candidates(lmap).items() if k in deltas and all((deltas[k] - v).is_const() and (deltas[k] - v).c == 0 for v in vals)}
            if vals and not agree:
                # take the majority step (the one most candidates share)
                best = max(vals, key=lambda v: sum(1 for w in vals if (w - v).is_const() and (w - v).c == 0))
                agree = {k: sg_w for k, sg_w in candidates(lmap).items() if k in deltas and (deltas[k] - best).is_const() and (deltas[k] - best).c == 0}
            t = track.get(id(node))
            track[id(node)] = agree if t is None else {k: v for k, v in t.items() if k in agree}

    @staticmethod
    def candidates(lmap):
        out = {}
        for k, (h, pre) in lmap.items():
            if pre is None or h[0] != 'h':         # declared in the body / shown to keep its pre-loop value
                continue
            pr = strip_cast(pre)
            if pr == C(0) and k[0] != 'v':
                continue                           # an account is a scalar local, not a field that happens to start at 0
            if pr == N:
                out[k] = (-1, 'n')
            elif pr == ADDR:
                out[k] = (1, 'addr')
            elif pr == BUF:
                out[k] = (1, 'buf')
            elif pr == C(0):
                out[k] = (1, '0')
        return out

    def progress(self, p):
        node, lmap = p.loops[-1]
        tr = self.track.get(id(node)) or {}
        Ps = []
        kinds = set()
        for k, (sg, what) in sorted(tr.items(), key=lambda kv: fmt(kv[0])):
            if k in lmap:
                Ps.append((L(lmap[k][0]) - L(strip_cast(lmap[k][1]))).scale(sg))
                kinds.add(what)
        if not Ps:
            return None, [], kinds
        inv = []
        for q in Ps[1:]:
            inv += [Ps[0] - q, q - Ps[0]]
        inv += [Lin.const(0) - Ps[0], Ps[0] - L(N)]
        return Ps[0], inv, kinds

    def step(self, p):
        node, lmap = p.loops[-1]
        k0 = sorted(self.track[id(node)].items(), key=lambda kv: fmt(kv[0]))[0]
        h0 = lmap[k0[0]][0]
        return (L(strip_cast(p.mem.get(k0[0], h0))) - L(h0)).scale(k0[1][0])


def walker(ck, R, fn, rule, cb):
    """register_block_{read,write}_unsafe / register_block_touches_hole, in whatever way the walk keeps its account.

    The octets walked so far, P, are read off the *progress variables* of the loop: variables that start at one of
    addr / buf / 0 and move up by the step, or start at n and move down by it (P = +-(value at the loop head - start
    value)); they agree by induction, which is added as a fact, as is 0 <= P <= n.  Cursor = addr + P, buffer cursor =
    buf + P, remaining = n - P - however the code spells them."""
    eng = R.eng
    ps = R.paths(fn, rule)
    if ps is None:
        return
    where = R.where(fn)
    nit = 0
    bad = None

    acct = WalkAccount(ps)
    candidates, track, progress = acct.candidates, acct.track, acct.progress
    # the end of the block is never formed as addr + n in the address type: a block that reaches the top of the address
    # space makes that sum wrap to a small number, and a walk "while cursor < end" then covers nothing
    for p in ps:
        terms = list(p.cond_terms())
        for e in p.effects:
            terms += [a_ for a_ in e.args if isinstance(a_, tuple)]
        for t_ in terms:
            for x in sym.subterms(t_):
                if x[0] == '+' and len(x) == 3 and {strip_cast(x[1]), strip_cast(x[2])} == {ADDR, N}:
                    qt = (eng.optype.get(x) or '').replace('const ', '').strip()
                    if qt in eng.INT_MAX_OF and qt.startswith('unsigned') and eng.INT_MAX_OF[qt] <= (1 << 32) - 1:
                        bad = bad or ('the end of the block is computed as %s in %s: for a block that reaches the top of the address space the sum wraps '
                                      'around and the walk that is bounded by it ends at once (or never)' % (fmt(x), qt))

    def same(facts, e):
        return (e.is_const() and e.c == 0) or (eng.entails(facts, e) and eng.entails(facts, -e))

    for p in ps:
        if p.end != 'loopback' or not p.loops:
            continue
        lmap = p.loops[-1][1]
        P, inv, kinds = progress(p)
        if P is None:
            bad = 'walk variables do not start at (addr, n)'
            continue
        nit += 1
        facts = eng.path_facts(p) + inv
        post = {h: p.mem.get(k, h) for k, (h, pre) in lmap.items()}
        step = acct.step(p)
        CUR = L(ADDR) + P
        REST = L(N) - P
        # every candidate has to move with the others: a cursor that starts at addr but does not advance by the step
        for k, (sg, what) in candidates(lmap).items():
            if k not in track[id(p.loops[-1][0])] and what != '0':
                h = lmap[k][0]
                d = (L(strip_cast(p.mem.get(k, h))) - L(h)).scale(sg)
                bad = bad or ('%s advances by %s while the others move by %s' % (fmt(k), d, step))
        if cb is not None and 'buf' not in kinds and not any(what in ('0',) for what in kinds):
            bad = bad or 'buffer cursor is not loop-carried from buf'
        # area of this iteration: a = &t->area[an], looked up for the cursor
        fa = p.calls('ra_find_area_by_addr')
        if not fa or not same(facts, L(strip_cast(fa[-1].args[1])) - CUR):
            bad = 'area looked up for %s, not for the cursor' % (fmt(fa[-1].args[1]) if fa else None)
            continue
        ar = sym.add(('f', T, 'area'), fa[-1].result)
        if not eng.entails(facts, step - REST):
            bad = 'step %s not bounded by the remaining count' % step
        calls = [e for e in p.effects if e.kind == 'icall' and e.name.endswith(cb)] if cb else []
        if cb and fn.endswith('write_unsafe') and len(calls) != 1:
            bad = 'expected exactly one area %s per iteration' % cb
        for e in calls:
            # (a, buf, offset, count)
            try:
                db = L(strip_cast(e.args[1])) - (L(BUF) + P)
            except Exception:      # noqa: BLE001 - not a linear pointer expression
                db = None
            if db is None or not same(facts, db):
                if same(facts, L(strip_cast(e.args[1])) - L(BUF)) if db is not None else False:
                    bad = 'the buffer pointer handed to the area %s never advances: every area chunk gets the start of the caller\'s buffer' % cb
                else:
                    bad = 'area %s gets %s, expected the buffer cursor' % (cb, fmt(e.args[1]))
            off, cnt = L(strip_cast(e.args[2])), L(strip_cast(e.args[3]))
            area_ptr = e.args[0]
            if strip_cast(area_ptr) != ar:
                bad = bad or ('area %s is invoked on %s, not on the area that was looked up for the cursor (%s)' % (cb, fmt(area_ptr), fmt(ar)))
            base, size = L(('f', area_ptr, 'base')), L(('f', area_ptr, 'size'))
            if not same(facts, off - (CUR - base)):
                bad = 'offset passed is %s, expected cursor - base' % off
            if not same(facts, cnt - step):
                bad = 'count passed is %s, step is %s' % (cnt, step)
            if not eng.entails(facts + [lin.le(base, CUR)], off + cnt - size):
                bad = 'offset + count <= area size not entailed'
            # size_t differences inside offset/count must have ordered operands (cursor inside the area that was looked up:
            # established by the hole check before the unsafe walkers run), otherwise the count wraps to a huge value
            inarea = [lin.le(base, CUR), lin.le(CUR + 1, base + size)]
            for tname, tt in (('count', strip_cast(e.args[3])), ('offset', strip_cast(e.args[2]))):
                for st_ in sym.subterms(tt):
                    if st_[0] == '-' and not eng.entails(facts + inarea, L(st_[2]) - L(st_[1])):
                        bad = bad or ('the %s handed to the area %s contains the unsigned difference %s whose operands are not ordered for a cursor inside the area: it wraps'
                                      % (tname, cb, fmt(st_)))
            if not eng.entails(facts + inarea, Lin.const(1) - cnt):
                bad = bad or 'the step %s may be 0: the walk makes no progress' % cnt
            # the callback's verdict: anything but success ends the walk and is returned
            CODE = ('fv', e.result, 'code')
            fail_possible = eng.feasible(p.cond_terms() + [('cmp', '!=', CODE, C(0))])
            if fail_possible:
                bad = bad or 'the walk continues after area %s although its result may be a failure (result code not tested against success)' % cb
    # in-loop returns hand back the callback's failure; completion needs rest == 0 and reports success
    ndone = 0
    for p in ps:
        if p.end not in ('return', 'end') or not p.loops:
            continue
        lmap = p.loops[-1][1]
        calls = [e for e in p.effects if e.kind == 'icall' and cb and e.name.endswith(cb)]
        if calls:
            r = calls[-1].result
            if strip_cast(p.ret) != r or not any(c[0] == 'cmp' and c[1] == '!=' and sym.contains(c[2], r) and c[3] == C(0) for c in p.cond_terms()):
                bad = bad or 'the walk is left from inside an iteration with %s under {%s}: only a failure of the area %s may end it, and that failure is what is returned' % (
                    fmt(p.ret), '; '.join(fmt(c) for c in p.cond_terms()[-2:])[:160], cb)
            continue
        P, inv, kinds = progress(p)
        if P is not None and not p.calls('ra_find_area_by_addr'):
            ndone += 1
            z = L(N) - P
            facts = eng.path_facts(p) + inv
            if not (eng.entails(facts, z) and eng.entails(facts, -z)):
                bad = bad or 'the walk completes under {%s} while atoms may remain' % '; '.join(fmt(c) for c in p.cond_terms()[-2:])
            code = dict(p.ret[2]).get('code') if p.ret is not None and p.ret[0] == 'struct' else None
            if cb is not None and code != C(0):
                bad = bad or 'completion does not report success (%s)' % fmt(p.ret)
    if cb is not None and ndone == 0:
        bad = bad or 'no completion path'
    ck.verdict(bad is None and nit >= 1, rule, fn + ':walk', where,
               'cursor, buffer and remaining count advance together by min(area end - cursor, rest); the area callback gets (area, buffer cursor, cursor - base, step) inside the area'
               if bad is None and nit else (bad or 'no walk iteration recognised'))


def rule_e(ck, R):
    eng = sym.Engine(R.u, sizeof=R.so, inline=set())
    ps = R.paths('reg_range_touches', 'C02.e', eng)
    if ps is not None:
        e = ('v', 'e')
        A = L(('f', e, 'address'))
        res = {}
        for p in ps:
            if p.ret is not None and p.ret[0] == 'c':
                res.setdefault(p.ret[1], []).append(p)
        bad = None
        for p in res.get(0, []):
            facts = eng.path_facts(p)
            S = [x for c in p.cond_terms() for x in sym.subterms(c) if x[0] == 'cast' or (x[0] == 'i' and 'rds_size' in fmt(x))]
            if not S:
                bad = 'size term not found'
                continue
            LS = L(S[0])
            # overlap: A < addr + n  and addr < A + S
            if not (eng.entails(facts, lin.lt(A, L(ADDR) + L(N))) and eng.entails(facts, lin.lt(L(ADDR), A + LS))):
                bad = 'result 0 does not imply overlap of [A, A+S) with [addr, addr+n)'
        for r, txt in ((-1, 'below'), (1, 'above')):
            if r not in res:
                bad = 'no result %d' % r
        # the other two classes, so that the three results partition the inputs exactly
        for p in res.get(-1, []):
            S = [x for c in p.cond_terms() for x in sym.subterms(c) if x[0] == 'cast' or (x[0] == 'i' and 'rds_size' in fmt(x))]
            if not S or not eng.entails(eng.path_facts(p), A + L(S[0]) - L(ADDR)):
                bad = bad or 'result -1 (below) is returned under {%s}, which does not imply A + S <= addr' % '; '.join(fmt(c) for c in p.cond_terms())
        for p in res.get(1, []):
            if not eng.entails(eng.path_facts(p), L(ADDR) + L(N) - A):
                bad = bad or 'result 1 (above) is returned under {%s}, which does not imply addr + n <= A' % '; '.join(fmt(c) for c in p.cond_terms())
        others = [p for p in ps if p.ret is None or p.ret[0] != 'c' or p.ret[1] not in (-1, 0, 1)]
        if others:
            bad = bad or 'returns %s' % fmt(others[0].ret)
        ck.verdict(bad is None, 'C02.e', 'reg_range_touches', R.where('reg_range_touches'),
                   '0 exactly for registers overlapping the range, -1 below, 1 above' if bad is None else bad)
    ps = R.paths('reg_taint_in_range', 'C02.e', eng)
    if ps is not None:
        bad = None
        touched = False
        for p in ps:
            tc = p.calls('register_touch')
            rt = p.calls('reg_range_touches')
            if tc:
                touched = True
                ok = rt and any(c == ('cmp', '==', rt[-1].result, C(0)) or
                                (c[0] == 'cmp' and sym.contains(c, rt[-1].result)) for c in p.cond_terms())
                zero = rt and not any(c == ('cmp', '<', C(0), rt[-1].result) or c == ('cmp', '<', rt[-1].result, C(0)) for c in p.cond_terms())
                if not (ok and zero):
                    bad = 'register touched although it does not overlap'
                if rt and tuple(rt[-1].args[1:]) != (ADDR, N):
                    bad = 'touch test uses %s' % [fmt(a) for a in rt[-1].args]
            # the three-way use of the result: above -> stop (table sorted), below -> next register, overlap -> mark
            if rt:
                r = rt[-1].result
                above = eng.entails(p, Lin.const(1) - L(r))
                below = eng.entails(p, L(r) + 1)
                zero = eng.entails(p, L(r)) and eng.entails(p, -L(r))
                idx = rt[-1].args[0]
                if above and (tc or p.end == 'loopback'):        # left by return or by break: nothing follows the loop but the end
                    bad = bad or 'a register above the range does not end the walk'
                elif below and (tc or p.end != 'loopback'):
                    bad = bad or 'a register below the range is not simply skipped (the walk %s)' % ('marks it' if tc else 'ends')
                elif zero and (len(tc) != 1 or p.end != 'loopback'):
                    bad = bad or 'an overlapped register is not marked, or the walk ends after it'
                elif not (above or below or zero):
                    bad = bad or 'the walk acts on a result that is not decided to be <0, 0 or >0: {%s}' % '; '.join(fmt(c) for c in p.cond_terms() if sym.contains(c, r))
                if zero and tc and not sym.contains(idx, strip_cast(tc[0].args[1])):
                    bad = bad or 'marks register %s, tested register %s' % (fmt(tc[0].args[1]), fmt(idx))
        if not touched and bad is None:
            bad = 'no register is ever marked'
        ck.verdict(bad is None, 'C02.e', 'reg_taint_in_range', R.where('reg_taint_in_range'),
                   'marks exactly the registers whose range test gives 0' if bad is None else bad)


def run(ck):
    ck.rule('C02.g', 'validation depends on the table flag REG_TF_DURING_INIT (always-fail registers accept their default during initialisation only): the flag is written by register_init alone and is clear on every exit of it (C04.a re-evaluated)')
    ck.rule('C02.a', 'register_block_write: init test; n == 0 succeeds without effect; writable, mapped and well-formed checks each precede the only write and are returned unchanged on failure; touched marks only after a successful write')
    ck.rule('C02.b', 'ra_malformed_write: in each of the four orderings the overlay copies exactly the overlap [max(A,addr), min(A+S,addr+n)) (linear entailment), inside raw[] and the caller\'s n atoms; whole entry read first; overlaid image decoded and validated, INVALID/RANGE on failure; skip/stop predicates')
    ck.rule('C02.c', 'every failure result names an address inside both the request and the offending object (first such address)')
    ck.rule('C02.d', 'block walkers: cursor, buffer and remaining count advance together; area callbacks get (cursor - base, step) inside the area')
    ck.rule('C02.e', 'reg_range_touches = overlap test; reg_taint_in_range marks exactly the overlapped registers')
    ck.not_decided += ['first-error precedence between failure classes for mixed requests', 'callback-backed areas (user code)',
                       'address arithmetic wrap-around at the top of the 32-bit address space']
    ck.assumptions += ['table invariants established by register_init (C04): sorted, non-overlapping areas/entries, entries inside areas', 'areas have at least one atom; rds_size of a real register is 1, 2 or 4 (C01.a); n >= 1 inside the helpers (n == 0 is answered before they run)',
                       'rv_validate has no side effects (checked in C01.b)']
    R = Regs(ck)
    ck.rule('C02.i', 'a refused block write leaves nothing behind in the table - not in its memory (C02.a) and not in the table object either (no memo, resume cursor or mark on a refusing path of the write or of its malformed-write / hole / writeable tests)')
    from .regs import refusals_leave_no_trace
    refusals_leave_no_trace(R, 'C02.i', ('register_block_write', 'ra_malformed_write', 'register_block_touches_hole', 'ra_writeable'))
    distinct_enums(ck, R.u, 'C02.a', ('REG_ACCESS_',), 'include/ufw/register-table.h')
    R.validate_pure = True
    rule_a(ck, R)
    # the validation helpers look at the whole table (a scan that starts late / stops early lets a write through unchecked)
    scan_rule(R, 'C02.b', 'ra_malformed_write', 'entries')
    scan_rule(R, 'C02.a', 'ra_writeable', 'areas')
    scan_rule(R, 'C02.e', 'reg_taint_in_range', 'entries')
    ck.rule('C02.j', 'the overlay reads a register\'s current content through (area, offset) as register_init linked it, the commit goes by address: both describe the same words only if init links every register wholly inside one area with offset = address - base, anew at every initialisation (C04.d / C04.e / C04.g re-evaluated)')
    from .common import reevaluate
    reevaluate(ck, 'C02.j', 'c04', lambda r, k: r in ('C04.d', 'C04.g', 'C04.e'),
               'ra_malformed_write validates the merged image of (stored content, block): the stored content is read at entry->area / entry->offset')
    rule_b(ck, R)
    rule_c(ck, R)
    walker(ck, R, 'register_block_write_unsafe', 'C02.d', 'write')
    rule_e(ck, R)
    touch_helpers(R, 'C02.e', ('register_touch', 'register_was_touched'))
    ck.rule('C02.h', 'an area stays writeable / read-only as configured: no store into RegisterArea.flags changes REG_AF_WRITEABLE (the refusal of a block that touches a read-only area rests on that bit)')
    config_bits_rule(R, 'C02.h', ('REG_AF_WRITEABLE',), 'a block write into an area configured read-only is accepted from then on (or a writeable area refuses)')
    config_bits_fixture(R, 'C02.h')
    callback_guard(R, 'C02.b', 'ra_malformed_write', inline={'reg_read_entry'})
    from .common import reevaluate
    reevaluate(ck, 'C02.g', 'c04', lambda r, k: r == 'C04.a' and k.startswith('flags:'),
               'the always-fail constraint is lifted only while REG_TF_DURING_INIT is set: nothing but register_init sets that flag, and register_init clears it on every exit')
