"""C05 Register constraints are an invariant of every checked-operation history.

The static form of a history invariant is its inductive step: every library
write reachable from a checked operation is gated by validation of the
post-state of every register it changes.
a WHO-MAY-WRITE (call graph)  b BITOPS  c SANITISE  d = C01.b/e + C02.a/b as
obligations of this property.  Not decided: the invariant over arbitrary
histories with callbacks as such; out-of-band corruption patterns beyond the
decode -> validate -> default structure."""
from .. import cast, sym
from ..sym import C, fmt, linearize as L
from .regs import Regs, T, TYPE_SUFFIX, strip_cast, scan_rule, touch_helpers
from . import c01, c02

CHECKED = ('register_set', 'register_bit_set', 'register_bit_clear', 'register_block_write', 'register_sanitise')
UNCHECKED = ('register_set_unsafe', 'register_set_from_hexstr', 'register_mcopy')


def call_graph(u):
    g = {}
    writers = {}
    for name, f in u.functions.items():
        fl = cast.node_file(f) or ''
        if '/src/registers/' not in fl:
            continue
        callees = set()
        for x in cast.walk(f):
            if cast.kind(x) != 'CallExpr':
                continue
            cn = cast.callee_name(x)
            if cn:
                callees.add(cn)
            else:
                ch = cast.member_chain(cast.strip(x['inner'][0]))
                if ch[-1] == 'write':
                    writers.setdefault(name, []).append(cast.where(x))
        g[name] = callees
    # helpers that did not exist when the rule was written are part of their callers (the gate is looked for where the
    # rule knows it: in the functions of the frozen table)
    known = sym.KNOWN_FUNCTIONS()
    new = set(n for n in g if n not in known)

    def expand(name, seen=()):
        cs, ws = set(), []
        for c in g.get(name, ()):
            if c in new and c not in seen:
                c2, w2 = expand(c, seen + (c,))
                cs |= c2
                ws += w2
            else:
                cs.add(c)
        return cs, ws + writers.get(name, [])
    g2, w2 = {}, {}
    for name in g:
        if name in new:
            continue
        cs, ws = expand(name)
        g2[name] = cs
        if ws:
            w2[name] = ws
    g, writers = g2, w2
    return g, writers


def code_of(ret):
    return dict(ret[2]).get('code') if ret is not None and ret[0] == 'struct' else None


def rule_a(ck, R):
    g, writers = call_graph(R.u)
    ck.floor('C05.a', 'functions with an area write call', len(writers), 4)
    callers = {}
    for f, cs in g.items():
        for c in cs:
            callers.setdefault(c, set()).add(f)
    for entry in CHECKED:
        if entry not in g:
            ck.broken('C05.a', entry, '', 'entry point missing')
            continue
        ck.function(entry)
        seen = set()
        stack = [(entry, (entry,))]
        bad = None
        reach_w = set()
        while stack:
            f, path = stack.pop()
            if f in seen:
                continue
            seen.add(f)
            if f in UNCHECKED:
                bad = 'unchecked writer %s is reachable: %s' % (f, ' -> '.join(path))
            if f in writers:
                reach_w.add(f)
                if f == 'register_setx':
                    if path[-2] != 'register_set':
                        bad = 'register_setx reached from %s (only register_set passes withvalidator=true)' % path[-2]
                elif f == 'register_block_write_unsafe':
                    if path[-2] != 'register_block_write':
                        bad = 'register_block_write_unsafe reached from %s, not from the validating register_block_write' % path[-2]
                else:
                    bad = 'area write in %s reachable without a validation gate: %s' % (f, ' -> '.join(path))
            for c in g.get(f, ()):
                if c in g:
                    stack.append((c, path + (c,)))
        ck.verdict(bad is None and reach_w, 'C05.a', entry, R.where(entry),
                   'every area write reachable from %s is in %s, entered through its validating caller' % (entry, sorted(reach_w)) if bad is None and reach_w else
                   (bad or 'no area write reachable (anchor changed)'))
    # a positive example for the zero-expected part: the unchecked writers do contain/reach writes
    for f in UNCHECKED + ('register_block_write_unsafe',):
        if f not in g:
            ck.broken('C05.a', 'unchecked:' + f, '', 'function missing')
            continue
        seen, stack, hit = set(), [f], False
        while stack:
            x = stack.pop()
            if x in seen:
                continue
            seen.add(x)
            if x in writers:
                hit = True
            stack += [c for c in g.get(x, ()) if c in g]
        ck.verdict(hit, 'C05.a', 'unchecked:' + f, R.where(f), 'known unchecked writer (reaches an area write without validation): must stay unreachable from checked entries')


def rule_b(ck, R):
    E = R.E
    eng = sym.Engine(R.u, sizeof=R.so, inline=set())
    types = R.types()
    unsigned = {v: TYPE_SUFFIX[n.replace('REG_TYPE_', '')][0] for n, v in types.items() if TYPE_SUFFIX[n.replace('REG_TYPE_', '')][2] == 'u'}
    for fn, opname in (('register_bit_set', '|b'), ('register_bit_clear', '&b')):
        ps = R.paths(fn, 'C05.b', eng)
        if ps is None:
            continue
        where = R.where(fn)
        bad = None
        arms = {}
        v, idx = ('v', 'v'), ('v', 'idx')
        for p in ps:
            g = p.calls('register_get')
            if len(g) != 1 or g[0].args[0] != T or g[0].args[1] != idx:
                bad = 'does not start by reading the register'
                continue
            if code_of(p.ret) is None and p.ret is not None and strip_cast(p.ret) == g[0].result:
                continue      # read failure propagated
            if p.ret is not None and p.ret[0] == 'struct' and p.ret[1] == g[0].result and not p.calls('register_set') and not code_of(p.ret):
                continue
            st = p.calls('register_set')
            # type of the register as read
            tv = None
            for c in p.cond_terms():
                if c[0] == 'cmp' and c[1] == '==' and sym.is_c(c[3]) and 'type' in fmt(c[2]) and 'reg' in fmt(c[2]):
                    tv = c[3][1]
            mism = any(c[0] == 'cmp' and c[1] == '!=' and 'type' in fmt(c[2]) and 'type' in fmt(c[3]) for c in p.cond_terms())
            nes = {c[3][1] for c in p.cond_terms() if c[0] == 'cmp' and c[1] == '!=' and sym.is_c(c[3]) and 'type' in fmt(c[2]) and 'reg' in fmt(c[2])}
            if st and tv is None and nes >= set(types.values()) | {E['REG_TYPE_INVALID']}:
                # no enumerator matches (cannot come out of register_get): value passed on unchanged to the checked setter
                if [e_ for e_ in p.stores() if 'reg.value' in fmt(e_.name)]:
                    bad = 'value modified for an unknown register type'
                continue
            if st:
                if tv not in unsigned:
                    bad = 'write-back for register type %s (only unsigned types support bit operations)' % tv
                    continue
                if mism:
                    bad = 'write-back although operand and register types differ'
                m = unsigned[tv]
                a = st[0].args
                if a[0] != T or a[1] != idx:
                    bad = 'write-back to %s' % fmt(a[1])
                val = a[2]
                # value.<m> of the struct passed
                newv = None
                if val[0] == 'struct':
                    for f_, x_ in val[2]:
                        pass
                for e_ in p.stores():
                    if fmt(e_.name).endswith('value.' + m) and 'reg' in fmt(e_.name):
                        newv = e_.args[0]
                if newv is None:
                    bad = 'no update of reg.value.%s before the write-back' % m
                    continue
                nv = strip_cast(newv)
                operand = ('f', ('&', ('f', ('&', v), 'value')), m)
                ok = False
                if nv[0] == opname:
                    x, y = nv[1], nv[2]
                    xs, ys = strip_cast(x), strip_cast(y)
                    if opname == '|b':
                        ok = (ys == operand and fmt(xs).endswith('value.' + m)) or (xs == operand and fmt(ys).endswith('value.' + m))
                    else:
                        inv = ys if ys[0] == '~' else xs
                        other = xs if inv is ys else ys
                        ok = inv[0] == '~' and strip_cast(inv[1]) == operand and fmt(other).endswith('value.' + m)
                if not ok:
                    bad = 'type %s: new value is %s, expected reg.%s %s v.%s' % (tv, fmt(newv), m, '| ' if opname == '|b' else '& ~', m)
                arms[tv] = 'write'
                if strip_cast(p.ret) != st[0].result:
                    bad = 'result of the checked write-back not returned'
            else:
                cd = code_of(p.ret)
                if cd == C(E['REG_ACCESS_INVALID']):
                    arms.setdefault(tv if not mism else 'mismatch', 'invalid')
                    if dict(p.ret[2]).get('address') is not None and strip_cast(dict(p.ret[2]).get('address')) != idx:
                        bad = 'INVALID reports %s' % fmt(dict(p.ret[2]).get('address'))
        for tv, m in unsigned.items():
            if arms.get(tv) != 'write':
                bad = bad or 'no bit operation arm for unsigned type %s' % tv
        for tn, tv in types.items():
            if tv not in unsigned and arms.get(tv) != 'invalid':
                bad = bad or 'type %s is not refused with INVALID' % tn
        if arms.get('mismatch') != 'invalid':
            bad = bad or 'type mismatch is not refused with INVALID'
        ck.verdict(bad is None, 'C05.b', fn, where,
                   'unsigned types: reg.m %s v.m on the same union member, written back through the checked register_set; signed, float, invalid types and type mismatch refused with INVALID and no write'
                   % ('|=' if opname == '|b' else '&= ~') if bad is None else bad)


def rule_c(ck, R):
    E = R.E
    eng = sym.Engine(R.u, sizeof=R.so, inline=set())
    ps = R.paths('register_sanitise', 'C05.c', eng)
    if ps is not None:
        where = R.where('register_sanitise')
        bad = None
        seen = set()
        for p in ps:
            if not p.loops:
                continue
            lmap = p.loops[-1][1]
            idx = [(h, pre) for k, (h, pre) in lmap.items() if fmt(k) == 'i']
            sane = p.calls('reg_entry_sane')
            if not sane:
                # exit path
                if p.end == 'return' and code_of(p.ret) not in (C(E['REG_ACCESS_SUCCESS']),):
                    pass
                continue
            if not idx or sane[0].args != (T, idx[0][0]) or idx[0][1] != C(0):
                bad = 'sanity check over %s (loop must start at handle 0)' % [fmt(a) for a in sane[0].args]
            r = sane[0].result
            code = None
            for c in p.cond_terms():
                if c[0] == 'cmp' and c[1] == '==' and sym.contains(c[2], r) and sym.is_c(c[3]):
                    code = c[3][1]
            ld = p.calls('reg_entry_load_default')
            ut = p.calls('register_untouch')
            if code == E['REG_ACCESS_SUCCESS']:
                seen.add('keep')
                if ld:
                    bad = 'a sane register is reset'
            elif code in (E['REG_ACCESS_INVALID'], E['REG_ACCESS_RANGE']):
                seen.add('reset%d' % code)
                if len(ld) != 1 or ld[0].args != (T, idx[0][0]):
                    bad = 'register with verdict %d is not reset to its default' % code
            else:
                if ld:
                    bad = 'default loaded for verdict %s' % code
                if p.end == 'loopback':
                    bad = 'unexpected verdict does not abort'
            if p.end == 'loopback':
                if len(ut) != 1 or ut[0].args != (T, idx[0][0]):
                    bad = 'touched mark of a processed register is not cleared'
                k = [k for k, (h, pre) in lmap.items() if fmt(k) == 'i'][0]
                d = L(p.mem.get(k, idx[0][0])) - L(idx[0][0])
                if not (d.is_const() and d.c == 1):
                    bad = 'handle advances by %s' % d
        # loop bound = all entries
        lb = [p for p in ps if p.loops and p.end == 'return' and not p.calls('reg_entry_sane')]
        origin = eng.clobber_origin
        if not any(any(c[0] == 'cmp' and sym.contains(sym.substitute(c, origin), ('f', T, 'entries')) for c in p.cond_terms()) for p in lb):
            bad = bad or 'loop does not run up to t->entries'
        if seen != {'keep', 'reset%d' % E['REG_ACCESS_INVALID'], 'reset%d' % E['REG_ACCESS_RANGE']} and bad is None:
            bad = 'verdict arms found: %s' % sorted(seen)
        ck.verdict(bad is None, 'C05.c', 'register_sanitise', where,
                   'all handles 0..entries-1: sane registers keep their value, INVALID/RANGE verdicts reset to default, touched mark cleared for each' if bad is None else bad)
    ps = R.paths('reg_entry_sane', 'C05.c', eng)
    if ps is not None:
        bad = None
        for p in ps:
            g = p.calls('register_get')
            v = p.calls('rv_validate')
            if len(g) != 1 or g[0].args[0] != T or g[0].args[1] != ('v', 'reg'):
                bad = 'does not decode the register first'
                continue
            ok_get = any(c[0] == 'cmp' and c[1] == '==' and sym.contains(c[2], g[0].result) and c[3] == C(E['REG_ACCESS_SUCCESS']) for c in p.cond_terms())
            if not ok_get:
                if v:
                    bad = 'validates although decoding failed'
                continue
            if len(v) != 1 or L(sym.substitute(v[0].args[1], eng.clobber_origin)) != L(sym.add(('f', T, 'entry'), ('v', 'reg'))):
                bad = 'decoded value is not validated against its own entry'
                continue
            accepted = any(c == ('cmp', '!=', v[0].result, C(0)) for c in p.cond_terms())
            cd = code_of(p.ret)
            if accepted and cd != C(E['REG_ACCESS_SUCCESS']):
                bad = 'valid content reported as %s' % fmt(cd or C(-1))
            if not accepted and cd != C(E['REG_ACCESS_RANGE']):
                bad = 'constraint violation reported as %s' % fmt(cd or C(-1))
        ck.verdict(bad is None, 'C05.c', 'reg_entry_sane', R.where('reg_entry_sane'),
                   'decode (register_get) then validate: SUCCESS / RANGE, decode failures propagated' if bad is None else bad)
    ps = R.paths('reg_entry_load_default', 'C05.c', eng)
    if ps is not None:
        bad = None
        for p in ps:
            s = p.calls('register_set')
            if len(s) != 1 or s[0].args[0] != T or s[0].args[1] != ('v', 'reg') or strip_cast(p.ret) != s[0].result:
                bad = 'default not loaded through the checked register_set(t, reg, ..)'
                continue
            txt = fmt(s[0].args[2])
            if 'default_value' not in txt or '->type' not in txt:
                bad = 'value loaded is %s' % txt[:80]
        ck.verdict(bad is None, 'C05.c', 'reg_entry_load_default', R.where('reg_entry_load_default'),
                   'loads {default_value, type} of the entry through the checked setter' if bad is None else bad)


def run(ck):
    ck.rule('C05.e', 'validation depends on the table flag REG_TF_DURING_INIT (always-fail registers accept their default during initialisation only): the flag is written by register_init alone and is clear on every exit of it (C04.a re-evaluated)')
    ck.rule('C05.a', 'who-may-write: from every checked entry point each reachable area write is in register_setx (entered via register_set = validator on) or register_block_write_unsafe (entered via the validating register_block_write); unchecked writers are unreachable')
    ck.rule('C05.b', 'bit set/clear: unsigned arms combine the same union member with | / & ~ and write back through the checked setter; all other types and type mismatch are refused without a write')
    ck.rule('C05.c', 'sanitise: decode -> validate per handle; sane keeps, INVALID/RANGE resets to default via the checked setter; touched marks cleared')
    ck.rule('C05.d', 'the gates themselves: C01.b (validator relation), C01.e (set path), C02.a/b (block write order and overlay) re-evaluated as obligations of this property')
    ck.not_decided += ['the invariant over arbitrary histories with user callbacks as such', 'out-of-band corruption patterns beyond decode -> validate -> default']
    R = Regs(ck)
    ck.rule('C05.f', 'a refused checked operation (bit set / clear, block write, sanitise) leaves nothing behind in the table object: the constraint verdict of a later operation does not depend on earlier refusals')
    from .regs import refusals_leave_no_trace
    refusals_leave_no_trace(R, 'C05.f', ('register_bit_set', 'register_bit_clear', 'register_block_write', 'ra_malformed_write', 'register_sanitise'))
    R.validate_pure = True
    rule_a(ck, R)
    scan_rule(R, 'C05.c', 'register_sanitise', 'entries')
    rule_b(ck, R)
    rule_c(ck, R)
    touch_helpers(R, 'C05.c', ('register_untouch', 'register_was_touched'))
    # d: re-run the gate rules under this property's id
    orig_v, orig_viol, orig_holds, orig_floor = ck.verdict, ck.violation, ck.holds, ck.floor

    def remap(rule):
        return 'C05.d' if rule.startswith(('C01.', 'C02.')) else rule
    ck.verdict = lambda ok, rule, key, where='', detail='', **kw: orig_v(ok, remap(rule), rule + ':' + key, where, detail, **kw)
    ck.violation = lambda rule, key, where='', detail='', **kw: orig_viol(remap(rule), rule + ':' + key, where, detail, **kw)
    ck.floor = lambda rule, what, count, minimum: orig_floor(remap(rule), what, count, minimum)
    try:
        c01.rule_b(ck, R)
        c01.rule_e(ck, R)
        c02.rule_a(ck, R)
        c02.rule_b(ck, R)
        scan_rule(R, 'C02.b', 'ra_malformed_write', 'entries')      # every register the block overlaps is looked at (scan from entry 0 to the end)
    finally:
        ck.verdict, ck.violation, ck.floor = orig_v, orig_viol, orig_floor
    from .common import reevaluate
    ck.rule('C05.g', 'every checked operation reaches a register as register_init linked it (area, offset): the register lies wholly inside that area and the stored offset is address - base at full width - otherwise an accepted write lands on ANOTHER register, whose constraint nobody tested (C04.d / C04.e / C04.g re-evaluated)')
    reevaluate(ck, lambda r, k: 'C05.e' if r == 'C04.a' else 'C05.g', 'c04',
               lambda r, k: (r == 'C04.a' and k.startswith('flags:')) or r in ('C04.d', 'C04.g', 'C04.e'),
               {'C05.e': 'the always-fail constraint is lifted only while REG_TF_DURING_INIT is set: nothing but register_init sets that flag, and register_init clears it on every exit',
                'C05.g': 'set, bit operations, sanitise and the overlay of a block write use entry->area / entry->offset: init admits a register only wholly inside one area and links it there'})
