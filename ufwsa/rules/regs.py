"""Shared front matter for the register-table properties C01-C05."""
from .. import cast, sym, front
from ..sym import C

UNIT = 'src/registers/core.c'
T = ('v', 't')

TYPE_SUFFIX = {'UINT16': ('u16', 16, 'u'), 'UINT32': ('u32', 32, 'u'), 'UINT64': ('u64', 64, 'u'),
               'SINT16': ('s16', 16, 's'), 'SINT32': ('s32', 32, 's'), 'SINT64': ('s64', 64, 's'),
               'FLOAT32': ('f32', 32, 'f'), 'FLOAT64': ('f64', 64, 'f')}

INLINE_SMALL = {'reg_min', 'register_area_can_write', 'register_area_is_writeable', 'register_area_is_readable',
                'ra_addr_is_part_of', 'ra_reg_is_part_of', 'ra_reg_fits_into', 'reg_range_touches',
                'ra_range_touches', 'need_to_load_default', 'is_end_of_areas', 'is_end_of_entries',
                'register_entry_size', 'reg_read_entry'}


def strip_cast(t):
    while t is not None and t[0] == 'cast':
        t = t[2]
    return t


class Regs:
    def __init__(self, ck, inline=None, record_loads=False):
        self.ck = ck
        self.u = cast.load(UNIT)
        ck.unit(UNIT)
        self.so = sym.unit_sizeofs(UNIT, self.u)
        self.eng = sym.Engine(self.u, sizeof=self.so, inline=set(INLINE_SMALL) | set(inline or ()))
        self.eng.record_loads = record_loads
        self.E = self.u.enums
        self.P = {}
        self._probe = None

    def paths(self, fn, rule, eng=None):
        if eng is not None and not hasattr(eng, '_cache_uid'):
            Regs._n = getattr(Regs, '_n', 0) + 1
            eng._cache_uid = Regs._n
            self.__dict__.setdefault('_keep', []).append(eng)
        key = (fn, eng._cache_uid if eng else 0)
        if key in self.P:
            return self.P[key]
        self.ck.function(fn)
        if self.u.fn(fn) is None:
            self.ck.broken(rule, fn, '', 'function missing (anchor vanished)')
            self.P[key] = None
            return None
        try:
            ps = (eng or self.eng).paths(fn)
            self.ck.analysed['paths'] += len(ps)
        except (sym.Unsupported, sym.PathLimit) as e:
            self.ck.broken(rule, fn, cast.where(self.u.fn(fn)), 'path enumeration: %s' % e)
            ps = None
        self.P[key] = ps
        return ps

    def where(self, fn):
        f = self.u.fn(fn)
        return cast.where(f) if f else ''

    def types(self):
        """RegisterType enumerators (name -> value) except INVALID"""
        return {n: v for n, v in self.u.enum_decls.get('RegisterType', []) if n != 'REG_TYPE_INVALID'}

    def probe_table(self):
        """(RegisterType value -> union member initialised by the REG_<X> macro):
        the association the library's own macros make (DESIGN section 2, probe tables)."""
        if self._probe is not None:
            return self._probe
        rows = []
        names = []
        for i, (tn, (m, w, k)) in enumerate(sorted(TYPE_SUFFIX.items())):
            mac = 'REG_%s' % m.upper()
            rows.append('%s(%d, %d, 1)' % (mac, i, i * 4))
            names.append(tn)
        src = '#include <ufw/register-table.h>\nRegisterEntry vp_probe_tab[] = { %s };\n' % ', '.join(rows)
        try:
            pu = cast.load(UNIT, source_text=src)
        except front.FrontError as e:
            self.ck.broken('C01.a', 'probe-table', '', str(e))
            self._probe = {}
            return self._probe
        g = pu.globals.get('vp_probe_tab')
        out = {}
        il = cast.strip(g['inner'][0])
        for row in cast.inner(il):
            row = cast.strip(row)
            cells = cast.inner(row)
            tval = pu.const_value(cells[0])
            dv = cast.strip(cells[1])
            member = dv.get('field', {}).get('name') if cast.kind(dv) == 'InitListExpr' else None
            out[tval] = member
        self._probe = out
        return out


def size_facts(lins):
    """background fact (C01.a): rds_size[type] of a real register is 1, 2 or 4 atoms"""
    from ..lin import Lin
    out = []
    atoms = set()
    for l in lins:
        atoms |= l.atoms()
    for a in atoms:
        if isinstance(a, tuple) and a[0] == 'i' and 'rds_size' in sym.fmt(a[1]):
            out.append(Lin.const(1) - Lin.atom(a))
            out.append(Lin.atom(a) - 4)
    return out


def scan_rule(R, rule, fn, field, start=('c', 0), nth=0, eng=None):
    """Table-scan range of one loop: the index starts at `start`, every iteration is guarded by index < t-><field>,
    steps by one, and the loop is left normally only with t-><field> <= index.  (field: 'entries' | 'areas'; nth: which
    loop over that field inside fn, in source order.)  A scan that starts late, stops early, runs one too far or not at
    all skips registers/areas the operation has to look at, or reads beyond the table."""
    from ..sym import fmt, linearize as L
    ck = R.ck
    ps = R.paths(fn, rule, eng)
    if ps is None:
        return
    count = ('f', T, field)

    def is_count(x):
        x = strip_cast(x)
        return x == count or (x[0] == 'h' and str(x[1]) == 'clobbered:t->%s' % field)

    def count_in(p, h):
        for c in p.cond_terms():
            if c[0] == 'cmp':
                a, b = strip_cast(c[2]), strip_cast(c[3])
                if a == h and is_count(b):
                    return b
                if b == h and is_count(a):
                    return a
        return count
    key = '%s:scan:%s%s' % (fn, field, '#%d' % nth if nth else '')
    # loops of fn over this field, in source order
    loops = {}
    for p in ps:
        for node, lmap in p.loops:
            for k, (h, pre) in lmap.items():
                if any(c[0] == 'cmp' and ((strip_cast(c[2]) == h and is_count(c[3])) or (strip_cast(c[3]) == h and is_count(c[2]))) for c in p.cond_terms()):
                    loops.setdefault(id(node), (cast.node_line(node), node, k))
    order = sorted(loops.values(), key=lambda x: x[0])
    if nth >= len(order):
        return ck.broken(rule, key, R.where(fn), 'loop over t->%s not found (%d such loops)' % (field, len(order)))
    line, node, k = order[nth]
    bad = None
    nit = nexit = 0
    for p in ps:
        ent = [lm for nd, lm in p.loops if nd is node]
        if not ent or k not in ent[-1]:
            continue
        h, pre = ent[-1][k]
        cnt = count_in(p, h)
        if pre is None or strip_cast(pre) != start:
            bad = bad or 'the scan starts at index %s, expected %s' % (fmt(pre) if pre else '?', fmt(start))
        is_last = p.loops[-1][0] is node
        if p.end == 'loopback' and is_last:
            nit += 1
            if not (eng or R.eng).entails(p, L(h) + 1 - L(cnt)):
                bad = bad or ('an iteration runs under {%s}: index < t->%s is not established (the scan reads beyond the table or never runs)'
                              % ('; '.join(fmt(c) for c in p.cond_terms() if sym.contains(c, h))[:200], field))
            d = L(p.mem.get(k, h)) - L(h)
            if not (d.is_const() and d.c == 1):
                bad = bad or 'the index moves by %s per iteration, expected +1' % d
        else:
            e_ = eng or R.eng
            inside = e_.entails(p, L(h) + 1 - L(cnt))
            left = e_.entails(p, L(cnt) - L(h))
            if left:
                nexit += 1
            if not inside and not left:
                bad = bad or ('a path continues after the scan under {%s}: neither index < t->%s (inside) nor t->%s <= index (finished) is established'
                              % ('; '.join(fmt(c) for c in p.cond_terms() if sym.contains(c, h))[:200], field, field))
    if bad is None and nit == 0:
        bad = 'no iteration of the scan found'
    ck.verdict(bad is None, rule, key, '%s:%d' % (UNIT, line),
               'index from %s while index < t->%s, step 1; left only when the whole table has been looked at or from inside an iteration' % (fmt(start), field)
               if bad is None else bad)


def _var_id(n):
    n = cast.strip_all_casts(n) if n else None
    if n is not None and cast.kind(n) == 'DeclRefExpr':
        return n['referencedDecl']['id']
    return None


def _step_of(R, n, var):
    """+1 / -1 / other constant if statement/expression n advances variable `var`, None if it does not touch it"""
    n = cast.strip_all_casts(n)
    k = cast.kind(n)
    if k == 'UnaryOperator' and n.get('opcode') in ('++', '--') and _var_id(n['inner'][0]) == var:
        return 1 if n['opcode'] == '++' else -1
    if k == 'CompoundAssignOperator' and n.get('opcode') in ('+=', '-=') and _var_id(n['inner'][0]) == var:
        v = R.u.const_value(n['inner'][1])
        return None if v is None else (v if n['opcode'] == '+=' else -v)
    if k == 'BinaryOperator' and n.get('opcode') == '=' and _var_id(n['inner'][0]) == var:
        r = cast.strip_all_casts(n['inner'][1])
        if cast.kind(r) == 'BinaryOperator' and r.get('opcode') in ('+', '-'):
            x, y = r['inner']
            if _var_id(x) == var and R.u.const_value(y) is not None:
                return R.u.const_value(y) if r['opcode'] == '+' else -R.u.const_value(y)
            if r['opcode'] == '+' and _var_id(y) == var and R.u.const_value(x) is not None:
                return R.u.const_value(x)
        return 'assigned'
    return None


def _loop_descriptor(R, fbody, n):
    """(start, op, field, step, line) of a loop that runs an index against t-><field>; None for other loops.
    Understands for / while / do-while with the advance anywhere it is executed exactly once per iteration: as the for
    increment, or as the last statement of the body with every `continue` directly preceded by the same advance."""
    k = cast.kind(n)
    parts = n.get('inner', [])
    init = inc = None
    if k == 'ForStmt':
        if len(parts) < 5:
            return None
        init, cond, inc, body = parts[0], parts[2], parts[3], parts[4]
    elif k == 'WhileStmt':
        cond, body = parts[0], parts[1]
    elif k == 'DoStmt':
        body, cond = parts[0], parts[1]
    else:
        return None
    c = cast.strip_all_casts(cond) if cond else None
    # a merged condition `index < t->field && ...` : the bound is the first conjunct
    while c is not None and cast.kind(c) == 'BinaryOperator' and c.get('opcode') == '&&':
        c = cast.strip_all_casts(c['inner'][0])
    if c is None or cast.kind(c) != 'BinaryOperator' or c.get('opcode') not in ('<', '<=', '!=', '>', '>='):
        return None
    lhs, rhs = cast.strip_all_casts(c['inner'][0]), cast.strip_all_casts(c['inner'][1])
    op = c['opcode']
    if _var_id(lhs) is None and _var_id(rhs) is not None and cast.kind(lhs) == 'MemberExpr':
        lhs, rhs = rhs, lhs
        op = {'<': '>', '>': '<', '<=': '>=', '>=': '<=', '!=': '!='}[op]
    var = _var_id(lhs)
    # a walk by pointer: `p < t->list + t->count` is `index < t->count` for p = t->list + index
    ptr_base = None
    if var is not None and cast.kind(rhs) == 'BinaryOperator' and rhs.get('opcode') == '+' and '*' in cast.qual_type(rhs):
        x, y = (cast.strip_all_casts(z) for z in rhs['inner'])
        if cast.kind(y) == 'MemberExpr' and '*' in cast.qual_type(y):
            x, y = y, x
        if cast.kind(x) == 'MemberExpr' and x.get('name') in ('entry', 'area') and cast.kind(y) == 'MemberExpr' \
                and y.get('name') == {'entry': 'entries', 'area': 'areas'}[x.get('name')]:
            ptr_base, rhs = x.get('name'), y
    if var is None or cast.kind(rhs) != 'MemberExpr' or rhs.get('name') not in ('entries', 'areas'):
        return None
    field = rhs.get('name')

    def start_of(e):
        # start index of a pointer walk: t->list -> 0, t->list + c / &t->list[c] -> c
        e = cast.strip_all_casts(e)
        if cast.kind(e) == 'MemberExpr' and e.get('name') == ptr_base:
            return 0
        if cast.kind(e) == 'BinaryOperator' and e.get('opcode') == '+':
            a, b = (cast.strip_all_casts(z) for z in e['inner'])
            if cast.kind(b) == 'MemberExpr' and b.get('name') == ptr_base:
                a, b = b, a
            if cast.kind(a) == 'MemberExpr' and a.get('name') == ptr_base:
                return R.u.const_value(b)
        if cast.kind(e) == 'UnaryOperator' and e.get('opcode') == '&':
            s_ = cast.strip_all_casts(e['inner'][0])
            if cast.kind(s_) == 'ArraySubscriptExpr':
                a, b = (cast.strip_all_casts(z) for z in s_['inner'])
                if cast.kind(a) == 'MemberExpr' and a.get('name') == ptr_base:
                    return R.u.const_value(b)
        return None
    cval = R.u.const_value if ptr_base is None else start_of
    # start value: the for-init, else the last constant given to the variable before the loop (declaration or assignment)
    startv = None
    line = cast.node_line(n)
    if init is not None and cast.kind(init) == 'DeclStmt':
        d = cast.inner(init)[0]
        if d.get('id') == var and d.get('inner'):
            startv = cval(d['inner'][0])
    elif init is not None and _step_of(R, init, var) == 'assigned':
        startv = cval(cast.strip_all_casts(init)['inner'][1])
    if startv is None:
        for x in cast.walk(fbody):
            if x is n:
                break
            if cast.kind(x) == 'VarDecl' and x.get('id') == var and x.get('inner'):
                startv = cval(x['inner'][-1])
            elif cast.kind(x) == 'BinaryOperator' and x.get('opcode') == '=' and _var_id(x['inner'][0]) == var:
                startv = cval(x['inner'][1])
            elif _step_of(R, x, var) not in (None, 'assigned') and cast.kind(x) != 'BinaryOperator':
                startv = None
    # the advance
    step = None
    if inc is not None:
        step = _step_of(R, inc, var)
        if any(_step_of(R, x, var) is not None for x in cast.walk(body)):
            step = 'also-in-body'
    else:
        stmts = cast.inner(body) if cast.kind(body) == 'CompoundStmt' else [body]
        adv = [(i, _step_of(R, x, var)) for i, x in enumerate(stmts) if _step_of(R, x, var) is not None]
        nested = [x for x in cast.walk(body) if _step_of(R, x, var) is not None]
        conts = [x for x in cast.walk(body) if cast.kind(x) == 'ContinueStmt']
        if len(adv) == 1 and adv[0][0] == len(stmts) - 1 and len(nested) == 1 and not conts:
            step = adv[0][1]
        elif len(adv) == 1 and adv[0][0] == 0 and len(nested) == 1 and k != 'DoStmt':
            step = 'advance-first'      # index moves before the item is looked at: not this rule's shape
        else:
            step = 'unknown'
    return (startv, op, field, step, line)


def for_headers(R, rule, fn, expected):
    """For functions whose path set is too large to carry every loop (register_init): the range of its loops over the
    table, in source order, against the confirmed table [(start, field)].  Start value, bound (`index < t->field`) and
    advance (+1, once per iteration) are resolved through the AST; for / while / do-while forms and loops moved into a
    helper that did not exist when the table was confirmed are all read the same way."""
    ck = R.ck
    f = R.u.fn(fn)
    if f is None:
        return ck.broken(rule, fn + ':scans', '', 'function missing')
    got = []
    known = sym.KNOWN_FUNCTIONS()

    def visit(name, depth):
        body = R.u.body(name)
        for n in cast.walk(body):
            if cast.kind(n) in ('ForStmt', 'WhileStmt', 'DoStmt'):
                d = _loop_descriptor(R, body, n)
                if d is not None:
                    got.append(d)
            elif cast.kind(n) == 'CallExpr' and depth < 3:
                cn = cast.callee_name(n)
                if cn and cn not in known and R.u.fn(cn) is not None and R.u.body(cn) is not None:
                    visit(cn, depth + 1)
    visit(fn, 0)
    bad = None
    if len(got) != len(expected):
        return ck.broken(rule, fn + ':scans', R.where(fn), '%d loops over the table found, the confirmed table has %d' % (len(got), len(expected)))
    # the scans are matched with the confirmed table by what they run over and where they start, not by their position:
    # a loop that decides nothing for its neighbours (zeroing memory, linking) may be moved between them
    rest = list(expected)
    paired = []
    for g in got:
        cand = [e_ for e_ in rest if e_[1] == g[2] and e_[0] == g[0]] or [e_ for e_ in rest if e_[1] == g[2]]
        if not cand:
            return ck.broken(rule, fn + ':scans', '%s:%d' % (UNIT, g[4]), 'a scan over t->%s more than the confirmed table has' % g[2])
        rest.remove(cand[0])
        paired.append((g, cand[0]))
    for (startv, op, field, step, line), (es, ef) in paired:
        if field != ef:
            return ck.broken(rule, fn + ':scans', '%s:%d' % (UNIT, line), 'loop bound is %s, the confirmed table says t->%s' % (field, ef))
        if step in ('unknown', 'also-in-body', 'advance-first') or startv is None and es is not None and step == 1 and op == '<':
            return ck.broken(rule, fn + ':scans', '%s:%d' % (UNIT, line),
                             'the scan over t->%s is written in a form this rule cannot read (advance: %s, start: %s)' % (ef, step, startv))
        if startv != es or op != '<' or step != 1:
            bad = bad or ('the scan over t->%s at line %d runs from %s while index %s t->%s with step %s; it has to run from %d while index < t->%s with step +1'
                          % (ef, line, startv, op, ef, step, es, ef))
    ck.verdict(bad is None, rule, fn + ':scans', R.where(fn),
               'all %d table scans of %s have the confirmed range' % (len(expected), fn) if bad is None else bad)


def touch_helpers(R, rule, which):
    """The touched mark of a register is the REG_EF_TOUCHED bit of its entry's flags: `register_touch` sets exactly that bit
    of entry[reg].flags, `register_untouch` clears exactly that bit, `register_was_touched` tests it; nothing else is stored.
    The walkers (C02.e, C05.c) are decided in terms of calls of these helpers, so the helpers have to do what their names say.
    `which` selects the helpers a property relies on."""
    from .. import sym as _sym
    ck, u = R.ck, R.u
    eng = _sym.Engine(u, sizeof=R.so, inline=set())
    T = u.enums.get('REG_EF_TOUCHED')
    if T is None:
        return ck.broken(rule, 'touch:flag', 'include/ufw/register-table.h', 'REG_EF_TOUCHED not found')
    FL = ('f', ('+', ('f', ('v', 't'), 'entry'), ('v', 'reg')), 'flags')
    ok_bit = T > 0 and T & (T - 1) == 0
    ck.verdict(ok_bit, rule, 'touch:flag', 'include/ufw/register-table.h',
               'REG_EF_TOUCHED = %#x is one bit' % T if ok_bit else
               'REG_EF_TOUCHED = %#x is not a single non-zero bit: setting it marks nothing (or more than the mark)' % T)
    for fn in which:
        ps = R.paths(fn, rule, eng)
        if ps is None:
            continue
        bad = None
        if len(ps) != 1:
            bad = '%d paths, expected straight-line code' % len(ps)
        for p in ps[:1]:
            st = p.stores()
            if p.calls():
                bad = 'calls %s' % p.calls()[0].name
            elif fn == 'register_was_touched':
                want = [('cmp', '==', ('&b', FL, C(T)), C(T)), ('cmp', '!=', ('&b', FL, C(T)), C(0))]
                r = p.ret
                if st:
                    bad = 'stores into the table'
                elif r not in want and _sym.truth(r) not in want:
                    bad = 'returns %s, expected the REG_EF_TOUCHED bit of entry[reg].flags' % _sym.fmt(r)
            else:
                if len(st) != 1 or st[0].name != FL:
                    bad = 'stores %s, expected exactly one store into entry[reg].flags' % [_sym.fmt(e.name) if isinstance(e.name, tuple) else e.name for e in st]
                else:
                    v = st[0].args[0]
                    while v[0] == 'cast':
                        v = v[2]
                    if fn == 'register_touch':
                        good = v in (('|b', FL, C(T)), ('|b', C(T), FL))
                        exp = 'flags | %#x' % T
                    else:
                        good = v[0] == '&b' and FL in v[1:] and any(_sym.is_c(x) and (x[1] & 0xffff) == (~T & 0xffff) for x in v[1:])
                        exp = 'flags & ~%#x' % T
                    if not good:
                        bad = 'stores %s into entry[reg].flags, expected %s' % (_sym.fmt(st[0].args[0]), exp)
        ck.verdict(bad is None, rule, 'touch:' + fn, R.where(fn),
                   {'register_touch': 'sets exactly the REG_EF_TOUCHED bit of entry[reg].flags',
                    'register_untouch': 'clears exactly the REG_EF_TOUCHED bit of entry[reg].flags',
                    'register_was_touched': 'tests the REG_EF_TOUCHED bit of entry[reg].flags'}[fn] if bad is None else bad)


import re as _re


def _shape_term(t):
    """report key of an address sum: the fields and operators it is made of, with the expression that designates the
    object abstracted ((t->area + an)->base, area->base and a->base are all '@.base') - the same sum keeps its key when
    the walk over the table is rewritten"""
    def go(x):
        if not isinstance(x, tuple):
            return str(x)
        if x[0] == 'f':
            return '@.%s' % x[2]
        if x[0] == 'cast':
            return go(x[2])
        if x[0] in ('+', '-', '*', '/', '%', '<<', '>>'):
            return '(%s %s %s)' % (go(x[1]), x[0], go(x[2]))
        if x[0] == 'i':
            return '%s[%s]' % (go(x[1]), go(x[2]))
        if x[0] == '&':
            return go(x[1])
        return _norm_term(x)
    return go(t)


def _norm_term(t):
    """report text of a term without the engine's path-specific numbering"""
    x = sym.fmt(t)
    x = _re.sub(r'\?loop@\d+:', '', x)
    x = _re.sub(r'\?clobbered:', '', x)
    x = _re.sub(r'\b\w+@\d+:', '', x)          # frames of helpers the engine looked through
    x = _re.sub(r'~\d+', '', x)
    x = _re.sub(r'#\d+', '', x)
    return x


ADDRESS_FIELDS = {'base', 'size', 'address'}
ADDRESS_VARS = {'addr', 'address', 'off', 'offset', 'start', 'previous', 'current', 'last', 'end'}


def _is_address_term(t):
    """does the sum involve a register address / area extent (and not only handles and counters)?"""
    # the VALUES the sum is made of: arithmetic is descended into; a field counts by its own name - what designates the
    # object it belongs to (a handle found by a search for `addr`, an index) is no part of the value
    def leaves(x):
        if not isinstance(x, tuple):
            return
        if x[0] in ('+', '-', '*', '/', '%', '<<', '>>', '&b', '|b', '^b', 'neg', '~'):
            for y in x[1:]:
                yield from leaves(y)
        elif x[0] == 'cast':
            yield from leaves(x[2])
        else:
            yield x
    for x in leaves(t):
        if x[0] == 'f' and x[2] in ADDRESS_FIELDS:
            return True
        if x[0] == 'v' and _re.sub(r'~\d+$', '', x[1].split(':')[-1]) in ADDRESS_VARS:
            return True
        if x[0] == 'h' and _re.sub(r'^loop@\d+:', '', x[1]) in ADDRESS_VARS:
            return True
        if x[0] in ('fv', 'call') and any(isinstance(y, tuple) and y[0] == 'f' and y[2] in ADDRESS_FIELDS for y in sym.subterms(x) if y is not x) and x[0] == 'fv' and x[2] in ADDRESS_FIELDS:
            return True
    return False


def wrap_free(R, rule, fn, inline=(), roots=('+',), known=None, summaries=()):
    """Address arithmetic of `fn` (helpers in `inline` inlined) cannot wrap around 2^32: every outermost unsigned 32-bit
    sum that a guard compares, a store keeps or a call receives has its mathematical value inside the type, proved from the
    guards of its path.  A guard that itself contains a sum not proved so gives no fact (its meaning is not the mathematical
    one).  Narrowing conversions are value preserving only where that is proved (Engine.strict_facts).
    -> reports one verdict per (function, sum); unsigned arithmetic is modular, so inner sums of a chain may wrap."""
    from .. import sym as _sym
    ck, u = R.ck, R.u
    eng = _sym.Engine(u, sizeof=R.so, inline=set(inline))
    ps = R.paths(fn, rule, eng)
    if ps is None:
        return
    where = R.where(fn)
    found = {}
    nterms = 0
    def probe(c):
        """the other way to be safe from a wrap: compute the 32-bit sum and compare the result with one of its addends
        (`sum < addr` holds exactly when addr + span wrapped, both being below 2^32) -> ('nowrap' | 'wrapped', sum)"""
        if c[0] != 'cmp':
            return None
        for S, other, flip in ((strip_cast(c[2]), strip_cast(c[3]), False), (strip_cast(c[3]), strip_cast(c[2]), True)):
            if S[0] != '+' or len(S) != 3 or S not in eng.optype:
                continue
            qt = eng.optype[S].replace('const ', '').strip()
            if qt not in eng.INT_MAX_OF or not qt.startswith('unsigned') or eng.INT_MAX_OF[qt] != (1 << 32) - 1:
                continue
            if other not in (strip_cast(S[1]), strip_cast(S[2])):
                continue
            rel = c[1] if not flip else {'<': '>', '<=': '>=', '>': '<', '>=': '<=', '==': '==', '!=': '!='}[c[1]]
            if rel in ('>=', '>'):
                return ('nowrap', S)
            if rel == '<':
                return ('wrapped', S)
        return None

    for p in ps:
        conds = list(p.cond_terms())
        probes = [(c, probe(c)) for c in conds]
        extra = []
        for c, pr in probes:
            if pr is not None and pr[0] == 'nowrap':
                extra.append(_sym.linearize(pr[1][1]) + _sym.linearize(pr[1][2]) - ((1 << 32) - 1))
        # predicate helpers that are not looked into (`summaries`): a call answered non-zero gives, as facts only, the
        # sum-free comparisons of the helper's one accepting path (its sums are that function's own business)
        for e in p.effects:
            if e.kind == 'call' and e.name in summaries and any(c[0] == 'cmp' and c[1] == '!=' and strip_cast(c[2]) == e.result and c[3] == _sym.C(0) for c in conds):
                try:
                    hp = [q for q in eng.paths(e.name) if q.end == 'return' and q.ret is not None and q.ret != _sym.C(0)]
                    prm = [('v', x.get('name')) for x in u.params(e.name)]
                except Exception:      # noqa: BLE001
                    hp, prm = [], []
                if len(hp) == 1 and len(prm) == len(e.args) and not [x for x in hp[0].effects if x.kind in ('call', 'icall', 'store')]:
                    m = dict(zip(prm, e.args))
                    hc = [_sym.substitute(c, m) for c in hp[0].cond_terms() if not any(x[0] == '+' for x in _sym.subterms(c))]
                    extra += eng.strict_facts(hc)
        # a probe is no use of the sum's value: what it compares is the wrapped result on purpose
        terms = [c for c, pr in probes if pr is None]
        for e in p.effects:
            terms += [a for a in e.args if isinstance(a, tuple)]
        if p.ret is not None:
            terms.append(p.ret)
        flagged = set()
        for _ in range(4):
            usable = [c for c, pr in probes if pr is None and not any(_sym.contains(c, f) for f in flagged)]
            facts = eng.strict_facts(usable) + extra
            w = eng.narrow_wraps(terms, facts, maximal=True, wide_diffs=True)
            new = {t for t, qt, why in w if t[0] in roots or t[0] == '-' or any(x[0] == '+' and x in eng.optype for x in _sym.subterms(t))}
            # narrowing conversions of sums
            for c in terms:
                for x in _sym.subterms(c):
                    if x[0] == 'cast' and x[1] in eng.INT_MAX_OF and not _sym.is_c(x[2]) and any(y[0] == '+' for y in _sym.subterms(x[2])):
                        mx = eng.INT_MAX_OF[x[1]]
                        if not eng.entails(facts, _sym.linearize(x[2]) - mx):
                            new.add(x)
            new = {t for t in new if _is_address_term(t)}
            if new <= flagged:
                break
            flagged |= new
        nterms += 1
        for t in flagged:
            found.setdefault(_shape_term(t), p)
    if not found:
        ck.holds(rule, fn + ':wrap', where, 'no address sum of %s can wrap around 2^32 (%d paths)' % (fn, len(ps)))
    for txt, p in sorted(found.items()):
        ck.violation(rule, '%s:wrap:%s' % (fn, txt), where,
                     'the sum / difference %s is computed in 32 bits and is not proved to stay inside [0, 2^32) on the path {%s}: it wraps '
                     '(a sum at the top of the address space, a difference whose subtrahend is the larger), and the comparison that uses it decides the opposite'
                     % (txt, '; '.join(sym.fmt(c) for c in p.cond_terms())[:260]))


def _field_store_sites(u, record, field):
    """{function name: [assignment nodes]} of the functions of unit u that assign <record>.<field> (=, op=, ++/--)"""
    out = {}
    for name, f in u.functions.items():
        for x in cast.walk(f):
            kd = cast.kind(x)
            tgt = None
            if kd == 'BinaryOperator' and x.get('opcode') == '=':
                tgt = x['inner'][0]
            elif kd == 'CompoundAssignOperator':
                tgt = x['inner'][0]
            elif kd == 'UnaryOperator' and x.get('opcode') in ('++', '--'):
                tgt = x['inner'][0]
            if tgt is None:
                continue
            t0 = cast.strip_all_casts(tgt)
            if cast.kind(t0) == 'MemberExpr' and t0.get('name') == field:
                bt = t0['inner'][0].get('type', {}).get('qualType', '')
                if record in bt:
                    out.setdefault(name, []).append(x)
    return out


def config_bits_rule(R, rule, bits, why, u=None, key='area-flags', only=None):
    """The access rights of an area (REG_AF_READABLE, REG_AF_WRITEABLE, REG_AF_SKIP_DEFAULTS in RegisterArea.flags) are the
    table's configuration: what the library reads to decide who may read, write and load defaults.  Whatever else a
    function keeps in that word (a mark of its own in another bit), every store into it leaves these bits as they were -
    decided per store from the value stored (old | m, old & ~m with m disjoint from the bits; anything else is not
    proved).  `bits`: enumerator names this property depends on; u: unit to look at (default: the register unit)."""
    from .. import sym as _sym
    ck = R.ck
    u = u or R.u
    vals = {b: u.enums.get(b) for b in bits}
    if any(v is None for v in vals.values()):
        return ck.broken(rule, key, 'include/ufw/register-table.h', 'enumerator missing: %s' % [b for b, v in vals.items() if v is None])
    sites = _field_store_sites(u, 'RegisterArea', 'flags')
    if only is not None:
        sites = {k: v for k, v in sites.items() if k in only}
    elif u is R.u:
        sites = {k: v for k, v in sites.items() if not k.startswith('vp_fixture_')}
    bad = None
    nst = 0
    for fn in sorted(sites):
        eng = _sym.Engine(u, sizeof=R.so, inline=set())
        try:
            ps = eng.paths(fn)
        except (_sym.Unsupported, _sym.PathLimit) as e:
            ck.broken(rule, '%s:%s' % (key, fn), cast.where(u.fn(fn)), 'path enumeration: %s' % e)
            continue
        nodes = {id(x) for x in sites[fn]}
        for p in ps:
            for e in p.stores():
                if id(e.node) not in nodes or e.name[0] != 'f' or e.name[2] != 'flags':
                    continue
                nst += 1
                v = e.args[0]
                for b, bv in vals.items():
                    stt = _bit_state(v, e.name, bv)
                    if stt != 'same':
                        bad = bad or ('%s stores %s into an area\'s flags at %s: the bit %s (%#x) %s - %s'
                                      % (fn, _norm_term(v), e.where(), b, bv,
                                         {1: 'is set', 0: 'is cleared', None: 'is not proved to keep its value'}[stt], why))
    ck.verdict(bad is None, rule, key, 'include/ufw/register-table.h',
               'no store into RegisterArea.flags changes %s (%d stores in %d functions looked at)' % ('/'.join(bits), nst, len(sites))
               if bad is None else bad)
    return nst


def config_bits_fixture(R, rule):
    """zero-expected rule: the positive example that must be reported on every run (a function setting bit 0 - the entry's
    TOUCHED mark, the area's READABLE right - in an area's flag word, parsed with the unit's own headers and flags)"""
    src = ('#include "core.c"\n'
           'void vp_fixture_area_mark(RegisterArea *a) { a->flags |= REG_AF_READABLE; }\n'
           'void vp_fixture_area_mark_ok(RegisterArea *a) { a->flags |= (1u << 8u); a->flags &= ~(1u << 9u); }\n')
    try:
        fu = cast.load(UNIT, source_text=src)
    except front.FrontError as e:
        return R.ck.broken(rule, 'area-flags:fixture', '', str(e))

    class _Q:       # quiet collector
        def __init__(self):
            self.v = []
        def verdict(self, ok, rule, key, where='', detail='', **kw):
            self.v.append((ok, detail))
        def broken(self, rule, key, where='', detail='', **kw):
            self.v.append((None, detail))

    class _R:
        pass
    q, r2 = _Q(), _R()
    r2.ck, r2.u, r2.so = q, fu, R.so
    config_bits_rule(r2, rule, ('REG_AF_READABLE',), 'fixture', u=fu, key='fixture', only={'vp_fixture_area_mark'})
    hit = [d for ok, d in q.v if ok is False and 'vp_fixture_area_mark ' in d]
    q.v = []
    config_bits_rule(r2, rule, ('REG_AF_READABLE',), 'fixture', u=fu, key='fixture', only={'vp_fixture_area_mark_ok'})
    clean = bool(q.v) and all(ok is True for ok, d in q.v)
    if hit and clean:
        R.ck.holds(rule, 'area-flags:fixture', 'fixtures', 'the positive example (a function setting bit 0 of an area\'s flags) is reported, the one using other bits is not')
    else:
        R.ck.broken(rule, 'area-flags:fixture', 'fixtures', 'the rule does not report its positive example (%s)' % [d[:80] for ok, d in q.v])


def _bit_state(term, base, bit):
    """0 / 1 / 'same' (as in base) / None for flag `bit` of the value `term` stored over `base`"""
    t = term
    while t[0] == 'cast':
        t = t[2]
    if t == base:
        return 'same'
    if t[0] == 'c':
        return 1 if t[1] & bit else 0
    if t[0] in ('&b', '|b', '^b'):
        a, b = t[1], t[2]
        if a[0] == 'c' and b[0] != 'c':
            a, b = b, a
        if b[0] != 'c':
            return None
        sa = _bit_state(a, base, bit)
        if t[0] == '&b':
            return sa if (b[1] & bit) else 0
        if t[0] == '|b':
            return 1 if (b[1] & bit) else sa
        return sa if not (b[1] & bit) else ({0: 1, 1: 0}.get(sa) if sa in (0, 1) else None)
    return None


def callback_guard(R, rule, fn, inline=()):
    """An area's read / write callback may be absent (a write-only or read-only custom area; the predicates
    register_area_is_readable / register_area_can_write test for it): every call through such a pointer is made only on
    paths that have established that it is not null."""
    from .. import sym as _sym
    ck = R.ck
    # leaf helpers (no calls, no loops) are looked into, whatever they are called: a test of the pointer may be wrapped
    leaf = set()
    for nm, f in R.u.functions.items():
        b = R.u.body(nm)
        if b is None or nm == fn or not (cast.node_file(f) or '').endswith(('registers/core.c', 'register-table.h', 'internal.h')):
            continue
        kinds = {cast.kind(x) for x in cast.walk(b)}
        if not kinds & {'CallExpr', 'WhileStmt', 'ForStmt', 'DoStmt', 'GotoStmt'}:
            leaf.add(nm)
    eng = _sym.Engine(R.u, sizeof=R.so, inline=set(INLINE_SMALL) | set(inline) | leaf)
    ps = R.paths(fn, rule, eng)
    if ps is None:
        return
    ncall = 0
    bad = None
    for p in ps:
        for e in p.effects:
            if e.kind != 'icall':
                continue
            member = e.name.split('.')[-1]
            if member not in ('read', 'write'):
                continue
            ncall += 1
            area = _norm_term(e.args[0]) if e.args else ''
            ok = False
            for c in p.cond_terms():
                if c[0] == 'cmp' and c[1] == '!=' and c[3] == C(0) and c[2][0] == 'f' and c[2][2] == member and _norm_term(c[2][1]) == area:
                    ok = True
            if not ok:
                bad = bad or ('the area\'s %s callback is called at %s under {%s} without having been tested: for an area without that callback '
                              '(a %s custom area) this is a call through a null pointer' % (
                                  member, e.where(), '; '.join(_sym.fmt(c) for c in p.cond_terms())[-200:],
                                  'write-only' if member == 'read' else 'read-only'))
    # and the other way round: where the callback exists it is used - an access is not refused on the strength of the
    # area's flag word (REG_AF_READABLE / REG_AF_WRITEABLE steer the block interface; typed access and the inspection of a
    # register's current content go by the callbacks alone, as register_setx does with register_area_can_write)
    for p in ps:
        if any(e.kind == 'icall' and e.name.split('.')[-1] in ('read', 'write') for e in p.effects):
            continue
        exists = [c for c in p.cond_terms() if c[0] == 'cmp' and c[1] == '!=' and c[3] == C(0) and c[2][0] == 'f' and c[2][2] in ('read', 'write')]
        onflags = [c for c in p.cond_terms() if c[0] == 'cmp' and any(x[0] == 'f' and x[2] == 'flags' and 'area' in _sym.fmt(x[1]) for x in _sym.subterms(c))]
        if exists and onflags and p.end == 'return':
            bad = bad or ('the access is refused under {%s} although the area has the callback: the refusal is decided by the area\'s flag word, which a '
                          'typed access / content inspection does not go by (a register of a MEMORY_AREA_WO area can be set but no longer read back)'
                          % '; '.join(_sym.fmt(c) for c in exists + onflags)[:220])
    # a missing callback is an access that cannot be made: the path that found the pointer null reports a failure
    SUCCESS = R.E.get('REG_ACCESS_SUCCESS')
    for p in ps:
        absent = [c for c in p.cond_terms() if c[0] == 'cmp' and c[1] == '==' and c[3] == C(0) and c[2][0] == 'f' and c[2][2] in ('read', 'write')]
        if not absent or p.end != 'return' or p.ret is None:
            continue
        code = dict(p.ret[2]).get('code') if p.ret[0] == 'struct' else None
        if code is not None and code == C(SUCCESS):
            bad = bad or ('the area has no %s callback ({%s}) and the access is not made, yet the result says success: the caller takes whatever its value object '
                          'held for the register\'s content' % (absent[0][2][2], _sym.fmt(absent[0])))
    if ncall == 0:
        return ck.broken(rule, fn + ':callbacks', R.where(fn), 'no call through an area callback found (anchor vanished)')
    ck.verdict(bad is None, rule, fn + ':callbacks', R.where(fn),
               'every call through an area callback (%d on all paths) follows a test that the callback exists' % ncall if bad is None else bad)


def refusals_leave_no_trace(R, rule, fns, success_name='REG_ACCESS_SUCCESS'):
    """Every property of the register table is stated for an operation GIVEN the table: what a request is answered depends
    on the table's description and content, not on which requests were made before.  An operation that REFUSES a request
    (a constant result code other than success) must therefore leave nothing behind in the table: no store into an
    object the table parameter leads to (a memo of the window just examined, a cursor to resume from, a last-error field)
    on a refusing path - such a field is what a later call reads, and it then describes a request that was never granted.
    A memo written only once the request was granted is not this rule's business (it is judged by the walk and scan rules
    that read the fields it shortcuts).  Helpers newer than the confirmed function table are looked through."""
    ok = R.E.get(success_name)
    # members the unit's code reads back (any function that does more than hand a value out): a field nobody consults is a
    # statistic, not state the operations depend on
    consulted = set()
    for fname, fd in R.u.functions.items():
        body = [c for c in cast.inner(fd) if cast.kind(c) == 'CompoundStmt']
        stmts = cast.inner(body[0]) if body else []
        if len(stmts) == 1 and cast.kind(stmts[0]) == 'ReturnStmt':
            continue
        for x in cast.walk(fd):
            if cast.kind(x) == 'ImplicitCastExpr' and x.get('castKind') == 'LValueToRValue':
                y = cast.strip_all_casts(x['inner'][0])
                while cast.kind(y) in ('MemberExpr', 'ArraySubscriptExpr', 'ParenExpr'):
                    if cast.kind(y) == 'MemberExpr':
                        consulted.add(y.get('name'))
                    y = cast.strip_all_casts(y['inner'][0])

    def top_member(name):
        k, last = name, None
        while isinstance(k, tuple) and k != T:
            if k[0] == 'f':
                last = k[2]
            k = k[1] if k[0] in ('f', 'i', '+', '-', 'cast', '&') else None
        return last
    for fn in fns:
        ps = R.paths(fn, rule)
        if ps is None:
            continue
        bad = None
        nref = 0
        for p in ps:
            if p.end != 'return' or p.ret is None or p.ret[0] != 'struct':
                continue
            code = dict(p.ret[2]).get('code')
            if code is None or not sym.is_c(strip_cast(code)) or strip_cast(code)[1] == ok:
                continue
            nref += 1
            st = [e for e in p.stores() if sym.rooted_at(e.name, T) and (top_member(e.name) is None or top_member(e.name) in consulted)]
            if st and bad is None:
                bad = ('the request is refused (code %d) under {%s}, yet the table keeps %s := %s (%s): a later request reads what this one left behind - '
                       'the answer to a request then depends on the requests made before it'
                       % (strip_cast(code)[1], '; '.join(sym.fmt(c) for c in p.cond_terms()[-4:]), sym.fmt(st[0].name), sym.fmt(st[0].args[0]), st[0].where()))
        if nref == 0:
            R.ck.broken(rule, fn + ':no-trace', R.where(fn), 'no path with a constant refusing result found')
        else:
            R.ck.verdict(bad is None, rule, fn + ':no-trace', R.where(fn),
                         '%d refusing paths store nothing into the table' % nref if bad is None else bad)
