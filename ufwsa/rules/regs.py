"""Shared front matter for the register-table properties C01-C05."""
from .. import cast, sym, front

UNIT = 'src/registers/core.c'
T = ('v', 't')

TYPE_SUFFIX = {'UINT16': ('u16', 16, 'u'), 'UINT32': ('u32', 32, 'u'), 'UINT64': ('u64', 64, 'u'),
               'SINT16': ('s16', 16, 's'), 'SINT32': ('s32', 32, 's'), 'SINT64': ('s64', 64, 's'),
               'FLOAT32': ('f32', 32, 'f'), 'FLOAT64': ('f64', 64, 'f')}

INLINE_SMALL = {'reg_min', 'register_area_can_write', 'register_area_is_writeable', 'register_area_is_readable',
                'ra_addr_is_part_of', 'ra_reg_is_part_of', 'ra_reg_fits_into', 'reg_range_touches',
                'ra_range_touches', 'need_to_load_default', 'is_end_of_areas', 'is_end_of_entries',
                'register_entry_size', 'reg_read_entry'}


def strip_cast(t):
    while t is not None and t[0] == 'cast':
        t = t[2]
    return t


class Regs:
    def __init__(self, ck, inline=None, record_loads=False):
        self.ck = ck
        self.u = cast.load(UNIT)
        ck.unit(UNIT)
        self.so = sym.unit_sizeofs(UNIT, self.u)
        self.eng = sym.Engine(self.u, sizeof=self.so, inline=set(INLINE_SMALL) | set(inline or ()))
        self.eng.record_loads = record_loads
        self.E = self.u.enums
        self.P = {}
        self._probe = None

    def paths(self, fn, rule, eng=None):
        if eng is not None and not hasattr(eng, '_cache_uid'):
            Regs._n = getattr(Regs, '_n', 0) + 1
            eng._cache_uid = Regs._n
            self.__dict__.setdefault('_keep', []).append(eng)
        key = (fn, eng._cache_uid if eng else 0)
        if key in self.P:
            return self.P[key]
        self.ck.function(fn)
        if self.u.fn(fn) is None:
            self.ck.broken(rule, fn, '', 'function missing (anchor vanished)')
            self.P[key] = None
            return None
        try:
            ps = (eng or self.eng).paths(fn)
            self.ck.analysed['paths'] += len(ps)
        except (sym.Unsupported, sym.PathLimit) as e:
            self.ck.broken(rule, fn, cast.where(self.u.fn(fn)), 'path enumeration: %s' % e)
            ps = None
        self.P[key] = ps
        return ps

    def where(self, fn):
        f = self.u.fn(fn)
        return cast.where(f) if f else ''

    def types(self):
        """RegisterType enumerators (name -> value) except INVALID"""
        return {n: v for n, v in self.u.enum_decls.get('RegisterType', []) if n != 'REG_TYPE_INVALID'}

    def probe_table(self):
        """(RegisterType value -> union member initialised by the REG_<X> macro):
        the association the library's own macros make (DESIGN section 2, probe tables)."""
        if self._probe is not None:
            return self._probe
        rows = []
        names = []
        for i, (tn, (m, w, k)) in enumerate(sorted(TYPE_SUFFIX.items())):
            mac = 'REG_%s' % m.upper()
            rows.append('%s(%d, %d, 1)' % (mac, i, i * 4))
            names.append(tn)
        src = '#include <ufw/register-table.h>\nRegisterEntry vp_probe_tab[] = { %s };\n' % ', '.join(rows)
        try:
            pu = cast.load(UNIT, source_text=src)
        except front.FrontError as e:
            self.ck.broken('C01.a', 'probe-table', '', str(e))
            self._probe = {}
            return self._probe
        g = pu.globals.get('vp_probe_tab')
        out = {}
        il = cast.strip(g['inner'][0])
        for row in cast.inner(il):
            row = cast.strip(row)
            cells = cast.inner(row)
            tval = pu.const_value(cells[0])
            dv = cast.strip(cells[1])
            member = dv.get('field', {}).get('name') if cast.kind(dv) == 'InitListExpr' else None
            out[tval] = member
        self._probe = out
        return out


def size_facts(lins):
    """background fact (C01.a): rds_size[type] of a real register is 1, 2 or 4 atoms"""
    from ..lin import Lin
    out = []
    atoms = set()
    for l in lins:
        atoms |= l.atoms()
    for a in atoms:
        if isinstance(a, tuple) and a[0] == 'i' and 'rds_size' in sym.fmt(a[1]):
            out.append(Lin.const(1) - Lin.atom(a))
            out.append(Lin.atom(a) - 4)
    return out
