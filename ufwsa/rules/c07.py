"""C07 Corrupted frames are never executed nor acknowledged.

a GATING  b COVERAGE  c CLASSIFY  d HEADER-VALIDATION.
Not decided: that CRC-16/ARC detects the listed error patterns (algebra of the
polynomial; C16 proves the implementation is that CRC); equivalence with an
independent reading of the document for arbitrary octet strings."""
from .. import front, cast, sym, lin
from ..sym import C, fmt, linearize as L
from ..lin import Lin
from .regp import Regp, P, MF, FRAME, hdr, strip_cast, backend_calls, reply_calls

F = ('v', 'f')


def opt_test(c, bit):
    """is condition c a test of option bit `bit` (returns True/False polarity or None)"""
    if c[0] != 'cmp' or c[1] not in ('==', '!='):
        return None
    a, b = c[2], c[3]
    if a[0] == '&b' and a[2] == C(bit) and b == C(bit) and 'options' in fmt(a[1]):
        return c[1] == '=='
    return None


def motv_test(c, bit):
    if c[0] != 'cmp' or c[1] not in ('==', '!='):
        return None
    a, b = c[2], c[3]
    if a[0] == '&b' and sym.is_c(a[2]) and a[2][1] == bit << 8 and b == a[2]:
        return c[1] == '=='
    return None


def rule_a(ck, R):
    E = R.E
    PL, HD = E['RP_OPT_WITH_PAYLOAD_CRC'], E['RP_OPT_WITH_HEADER_CRC']
    ps = R.paths('check_payload', 'C07.a')
    if ps is not None:
        where = R.where('check_payload')
        bad = None
        ebad = None
        ncmp = 0
        for p in ps:
            crc = [e for e in p.calls() if e.name.startswith('ufw_') and 'crc16' in e.name]
            if crc:
                ncmp += 1
                # verdict depends on crc == header plcrc
                if p.ret == C(0):
                    ok = any(c[0] == 'cmp' and c[1] == '==' and sym.contains(c, crc[-1].result) and 'plcrc' in fmt(c) for c in p.cond_terms())
                    if not ok:
                        bad = 'accepts without comparing the computed checksum with the header\'s payload checksum'
                continue
            if p.ret == C(0):
                why = []
                for c in p.cond_terms():
                    t = opt_test(c, PL)
                    if t is False:
                        why.append('no-plcrc-bit')
                # "empty payload" must be entailed by the path, not merely mentioned in it
                psz = ('f', ('&', ('f', F, 'payload')), 'size')
                if R.eng.entails(R.eng.path_facts(p), L(psz)):
                    why.append('empty-payload')
                if why == ['empty-payload']:
                    # a declared checksum over no octets is still a declared checksum: the checksum of nothing is the
                    # initial value, and the field has to be compared with it
                    try:
                        init = front.probe_values('src/register-protocol.c', ['CRC16_ARC_INITIAL'])[0]
                    except Exception as e:
                        return ck.broken('C07.a', 'check_payload:gating:empty', where, 'initial checksum value not available: %s' % e)
                    cmp0 = any(c[0] == 'cmp' and c[1] == '==' and 'plcrc' in fmt(c) and (C(init) in (c[2], c[3])) for c in p.cond_terms())
                    if not cmp0:
                        ebad = ('a frame that declares a payload checksum (WITH-PAYLOAD-CRC set) but has no payload octets is accepted under {%s} '
                                'without looking at its payload checksum field: the checksum of no octets is the initial value 0x0000, any other '
                                'field value is a checksum that does not match, and such a frame is executed and acknowledged'
                                % '; '.join(fmt(c) for c in p.cond_terms()))
                if not why:
                    bad = ('the payload checksum comparison is skipped under {%s}: only an unset WITH-PAYLOAD-CRC bit or an empty payload may skip it '
                           '(a frame declaring a payload checksum but no header checksum is accepted unverified)' % '; '.join(fmt(c) for c in p.cond_terms()))
        ck.verdict(bad is None and ncmp >= 2, 'C07.a', 'check_payload:gating', where,
                   'the payload checksum is verified whenever the frame declares one and has payload' if bad is None and ncmp >= 2 else (bad or 'checksum comparison paths not found'))
        ck.verdict(ebad is None, 'C07.a', 'check_payload:gating:empty', where,
                   'a declared payload checksum is verified for an empty payload too (no accepting path skips it on payload.size == 0 alone)' if ebad is None else ebad)
    eng = R.engine({'raw_with_hdcrc', 'raw_with_plcrc'})
    ps = R.paths('parse_header', 'C07.a', eng)
    if ps is not None:
        where = R.where('parse_header')
        bad = None
        nok = 0
        for p in ps:
            if p.ret is None or (p.ret[0] == 'c' and p.ret[1] < 0):
                continue
            nok += 1
            crc = [e for e in p.calls() if 'crc16' in e.name]
            hdbit = [motv_test(c, HD) for c in p.cond_terms()]
            if True in hdbit:
                if not crc:
                    bad = 'header declares a checksum but none is computed'
                elif not any(c[0] == 'cmp' and c[1] == '==' and sym.contains(c, crc[-1].result) for c in p.cond_terms()):
                    bad = 'header accepted without crc == stored header checksum'
            elif False in hdbit:
                if crc:
                    bad = 'checksum computed although not declared'
                dep = [c for c in p.cond_terms() if 'hdcrc' in fmt(c)]
                if dep:
                    bad = ('without a declared header checksum acceptance still depends on {%s}: the hdcrc field holds whatever the frame memory '
                           'held before (it is not cleared on this path), so valid frames are rejected at random' % fmt(dep[0]))
            else:
                bad = 'acceptance does not depend on the WITH-HEADER-CRC bit'
        ck.verdict(bad is None and nok >= 3, 'C07.a', 'parse_header:gating', where,
                   'acceptance is control-dependent on crc == header checksum exactly when WITH-HEADER-CRC is set' if bad is None and nok >= 3 else (bad or 'accepting paths not found'))


def crc_sequence(p, base):
    seq = []
    for e in p.calls():
        if e.name == 'ufw_buffer_crc16_arc_u16':
            seq.append(('init', str(L(e.args[0]) - L(base)), fmt(strip_cast(e.args[1]))))
        elif e.name == 'ufw_crc16_arc_u16':
            seq.append(('cont', str(L(e.args[1]) - L(base)), fmt(strip_cast(e.args[2]))))
    return tuple(seq)


def rule_b(ck, R):
    E = R.E
    eng = R.engine({'raw_with_hdcrc', 'raw_with_plcrc', 'populate_header'})
    enc = R.paths('encode_header', 'C07.b', eng)
    dec = R.paths('parse_header', 'C07.b', R.engine({'raw_with_hdcrc', 'raw_with_plcrc'}))
    if enc is None or dec is None:
        return
    want = {('hd',): (('init', '0', '6'),), ('hd', 'pl'): (('init', '0', '6'), ('cont', '+ 7', '1')), (): ()}

    def norm(seq):
        return tuple((k, o.replace('+ ', '').strip() if o not in ('0',) else '0', n) for k, o, n in seq)
    esets, dsets = {}, {}
    HD, PL = E['RP_OPT_WITH_HEADER_CRC'], E['RP_OPT_WITH_PAYLOAD_CRC']
    for p in enc:
        bits = tuple(b for b, bit in (('hd', HD), ('pl', PL)) if True in [motv_test(c, bit) for c in p.cond_terms()])
        if 'hd' in bits or not [e for e in p.calls() if 'crc16' in e.name]:
            esets.setdefault(bits, set()).add(norm(crc_sequence(p, ('v', 'buf'))))
    for p in dec:
        if p.ret is not None and p.ret[0] == 'c' and p.ret[1] == -74:
            continue
        bits = tuple(b for b, bit in (('hd', HD), ('pl', PL)) if True in [motv_test(c, bit) for c in p.cond_terms()])
        dsets.setdefault(bits, set()).add(norm(crc_sequence(p, ('v', 'buf'))))
    for bits in (('hd',), ('hd', 'pl')):
        e_, d_ = esets.get(bits, set()), dsets.get(bits, set())
        w = {norm(want[bits])}
        ok = e_ == w and d_ == w
        ck.verdict(ok, 'C07.b', 'header-crc:%s' % '+'.join(bits), R.where('parse_header'),
                   'encoder and decoder both checksum words [0,6)%s' % (' then the payload-checksum word 7' if 'pl' in bits else '') if ok else
                   'header checksum coverage: encoder %s, decoder %s, specification %s' % (sorted(e_), sorted(d_), sorted(w)))
    # layout table of the receiver: the optional checksum words are packed behind word 5.  Oracle (doc/regp.txt section 2:
    # "the existence of the Checksum fields is governed by the option bits"): header checksum at word 6 if present, payload
    # checksum at word 6 + [header checksum present], payload from word 6 + [hd] + [pl]; the frame must hold that many words.
    # A necessary condition of the single-bit clause: with the WITH-HEADER-CRC bit flipped off, the receiver takes the header
    # checksum for the payload checksum and the payload one word early, so the frame fails the size / payload-CRC tests.
    BUF = ('v', 'buf')
    rows = {}
    for p in dec:
        if p.ret is None or (p.ret[0] == 'c' and p.ret[1] < 0):
            continue
        hd = True in [motv_test(c, HD) for c in p.cond_terms()]
        pl = True in [motv_test(c, PL) for c in p.cond_terms()]
        pos = {}
        for e in p.stores():
            nm = fmt(e.name)
            for fld_ in ('hdcrc', 'plcrc'):
                if nm.endswith('header.' + fld_):
                    v = strip_cast(e.args[0])
                    if v == C(0):
                        continue
                    if v[0] == 'call' and v[1] == 'bf_ref_u16b':
                        d = L(v[2][0]) - L(BUF)
                        pos[fld_] = int(d.c) if d.is_const() else fmt(v[2][0])
                    else:
                        pos[fld_] = fmt(v)
        need = None
        for c in p.cond_terms():
            if c[0] == 'cmp' and c[1] == '<=' and sym.is_c(c[2]) and c[3] == ('v', 'n'):
                need = max(need or 0, c[2][1])
        ret = p.ret[1] if p.ret[0] == 'c' else (None if p.ret[0] != 'cast' or p.ret[2][0] != 'c' else p.ret[2][1])
        rows.setdefault((hd, pl), set()).add((pos.get('hdcrc'), pos.get('plcrc'), ret, need))
    bad = None
    for hd in (False, True):
        for pl in (False, True):
            want_row = (6 if hd else None, (6 + int(hd)) if pl else None, 6 + int(hd) + int(pl))
            got = rows.get((hd, pl))
            if not got:
                bad = 'no accepting path for header-crc=%s payload-crc=%s' % (hd, pl)
                continue
            for g in got:
                if g[:3] != want_row:
                    bad = ('with header-crc=%s payload-crc=%s the receiver reads the header checksum at word %s, the payload checksum at word %s and starts '
                           'the payload at word %s; the packed layout is %s / %s / %s' % (hd, pl, g[0], g[1], g[2], want_row[0], want_row[1], want_row[2]))
                elif (g[3] or 12) < 2 * want_row[2]:
                    bad = 'with header-crc=%s payload-crc=%s a frame of %s octets is accepted although the header needs %d' % (hd, pl, g[3], 2 * want_row[2])
    ck.verdict(bad is None, 'C07.b', 'parse_header:layout', R.where('parse_header'),
               'for all four combinations of the checksum option bits the optional words are read packed behind word 5 and the frame is long enough' if bad is None else bad)
    # where the header crc is stored / read: word 6
    okpos = False
    for p in enc:
        for e in p.calls('bf_set_u16b'):
            d = L(e.args[0]) - L(('v', 'buf'))
            if d.is_const() and d.c == 6 and any(x[0] == 'call' and 'crc16' in x[1] for x in sym.subterms(e.args[1])):
                okpos = True
    ck.verdict(okpos, 'C07.b', 'header-crc:position', R.where('encode_header'), 'the header checksum is stored big-endian in word 6' if okpos else 'header checksum is not stored in word 6')
    # payload_plausible: exact accepted set per frame type, decided by feasibility on every path
    # Oracle = doc/regp.txt section 2: "The Block Size parameter specifies the size of a message's payload, except for
    # READ-REQUEST messages" (a read request "carries no payload"), and 2.1.5: "In META messages, only the meta field is
    # used".  Write responses do carry payload when their code prescribes one (3.1.5, 3.1.8 - 3.1.11), announced by
    # block size 4.
    #   READ-RESPONSE, WRITE-REQUEST, WRITE-RESPONSE: accept  <=>  block size == actual payload size
    #   READ-REQUEST, META:                           accept  <=>  actual payload size == 0
    ps = R.paths('payload_plausible', 'C07.b')
    if ps is not None:
        types = {n: v for n, v in R.u.enum_decls.get('RPFrameType', []) if v >= 0}
        carry = {'RP_FRAME_READ_RESPONSE', 'RP_FRAME_WRITE_REQUEST', 'RP_FRAME_WRITE_RESPONSE'}
        bad = None
        seen = set()
        engp = R.eng
        BS = ('f', ('&', ('f', F, 'header')), 'blocksize')
        for p in ps:
            if p.end != 'return' or p.ret is None:
                continue
            tv = None
            excluded = set()
            for c in p.cond_terms():
                if c[0] == 'cmp' and 'header.type' in fmt(c[2]) and sym.is_c(c[3]):
                    if c[1] == '==':
                        tv = c[3][1]
                    elif c[1] == '!=':
                        excluded.add(c[3][1])
            applies = [n for n, v in types.items() if (tv is None and v not in excluded) or v == tv]
            accept = p.ret == C(0)
            reject = sym.is_c(p.ret) and p.ret[1] < 0
            if not (accept or reject):
                bad = bad or 'returns %s' % fmt(p.ret)
                continue
            # the actual size term of this path: what block size is compared with, or what is compared with 0
            acts = [x for c in p.cond_terms() if c[0] == 'cmp' for x in (c[2], c[3]) if 'payload.size' in fmt(x) and 'header.type' not in fmt(x)]
            if tv is None and not applies and reject:
                continue                                    # default arm: unknown types rejected
            for nm in applies:
                seen.add(nm)
                if not acts:
                    bad = bad or '%s is %s without looking at the payload size' % (nm, 'accepted' if accept else 'rejected')
                    continue
        # the oracle is counted in OCTETS: the receiver must account for every octet that arrived, not for whole words
        # only.  payload.size is in octets; a word is 2 octets under WORD-SIZE-16 and 1 otherwise.
        #   carry types accepted  <=>  payload.size == word * block size;   others accepted  <=>  payload.size == 0
        W16 = E['RP_OPT_WORD_SIZE_16']
        obad = None
        rbad = None
        nchk = 0
        for p in ps:
            if p.end != 'return' or p.ret is None or not sym.is_c(p.ret):
                continue
            conds = p.cond_terms()
            S = None
            for c in conds:
                for x in sym.subterms(c):
                    if x[0] == 'f' and x[2] == 'size' and fmt(x).endswith('payload.size'):
                        S = x
            tv, excluded = None, set()
            for c in conds:
                if c[0] == 'cmp' and 'header.type' in fmt(c[2]) and sym.is_c(c[3]):
                    if c[1] == '==':
                        tv = c[3][1]
                    elif c[1] == '!=':
                        excluded.add(c[3][1])
            applies = [n for n, v in types.items() if (tv is None and v not in excluded) or v == tv]
            if not applies:
                continue
            w16 = [opt_test(c, W16) for c in conds]
            words = [2] if True in w16 else [1] if False in w16 else [1, 2]
            accept = p.ret == C(0)
            desc = '; '.join(fmt(c) for c in conds)[:220]
            for nm in applies:
                for w in words:
                    nchk += 1
                    want_t = ('*', C(w), BS) if (nm in carry and w != 1) else BS if nm in carry else C(0)
                    want = L(BS).scale(w) if nm in carry else Lin.const(0)
                    what = ('%d * block size' % w if w != 1 else 'block size') if nm in carry else '0'
                    if S is None:
                        if accept:
                            obad = obad or '%s is accepted on the path {%s} without looking at the number of payload octets' % (nm, desc)
                        continue
                    if accept and (engp.feasible(conds, [want - L(S) + 1]) or engp.feasible(conds, [L(S) - want + 1])):
                        obad = obad or ('%s is accepted on the path {%s} where the number of payload octets may differ from %s '
                                        '(word = %d octet%s): a frame extended or truncated by part of a word passes the size test, is '
                                        'executed and acknowledged' % (nm, desc, what, w, 's' if w > 1 else ''))
                    if not accept and engp.feasible([sym.substitute(c, {S: want_t}) for c in conds]):
                        rbad = rbad or '%s is rejected on the path {%s} although its payload may have exactly %s octets' % (nm, desc, what)
        if nchk == 0:
            ck.broken('C07.b', 'payload_plausible:octets:accept', R.where('payload_plausible'), 'no path of payload_plausible could be compared with the octet count oracle')
        else:
            ck.verdict(obad is None, 'C07.b', 'payload_plausible:octets:accept', R.where('payload_plausible'),
                       'counted in octets: payload-carrying types are accepted only when payload.size == word * block size, the others only when payload.size == 0 (%d type/word cases)' % nchk
                       if obad is None else obad)
            ck.verdict(rbad is None, 'C07.b', 'payload_plausible:octets:reject', R.where('payload_plausible'),
                       'counted in octets: no frame whose payload.size is exactly word * block size (payload-carrying types) or 0 (the others) is rejected (%d type/word cases)' % nchk
                       if rbad is None else rbad)
        if set(types) - seen:
            bad = bad or 'no arm for %s' % sorted(set(types) - seen)
        unknown_ok = any(sym.is_c(p.ret) and p.ret[1] < 0 and not any(c[0] == 'cmp' and c[1] == '==' and 'header.type' in fmt(c[2]) for c in p.cond_terms())
                         for p in ps if p.ret is not None)
        if not unknown_ok:
            bad = bad or 'unknown frame type is not rejected'
        ck.verdict(bad is None, 'C07.b', 'payload_plausible', R.where('payload_plausible'),
                   'READ-RESPONSE, WRITE-REQUEST and WRITE-RESPONSE are accepted exactly when block size == actual size (in words for WORD-SIZE-16), READ-REQUEST and META exactly when there is no payload; unknown types rejected' if bad is None else bad)
    # check_payload: variant by WORD-SIZE-16 and extent in units of the payload
    ps = R.paths('check_payload', 'C07.b')
    if ps is not None:
        W16 = E['RP_OPT_WORD_SIZE_16']
        bad = None
        for p in ps:
            for e in p.calls():
                if 'crc16' not in e.name:
                    continue
                is16 = True in [opt_test(c, W16) for c in p.cond_terms()]
                if is16 != e.name.endswith('_u16'):
                    bad = 'word-size option and checksum variant disagree (%s)' % e.name
                if 'payload.data' not in fmt(e.args[0]):
                    bad = 'checksum not over payload.data'
        ck.verdict(bad is None, 'C07.b', 'check_payload:variant', R.where('check_payload'), 'word/octet checksum variant follows WORD-SIZE-16, over payload.data' if bad is None else bad)


def rule_c(ck, R):
    E = R.E
    EBADMSG, EILSEQ, EFAULT, EINVAL, EPROTO = 74, 84, 14, 22, 71
    origins = {'parse_header': ({-EBADMSG, -EILSEQ}, R.engine({'raw_with_hdcrc', 'raw_with_plcrc'})),
               'payload_plausible': ({-EFAULT, -EINVAL}, None), 'check_payload': ({-EPROTO, -EINVAL}, None)}
    for fn, (allowed, eng) in origins.items():
        ps = R.paths(fn, 'C07.c', eng)
        if ps is None:
            continue
        neg = {p.ret[1] for p in ps if p.ret is not None and p.ret[0] == 'c' and p.ret[1] < 0}
        ck.verdict(neg <= allowed and neg, 'C07.c', fn + ':codes', R.where(fn),
                   'fails only with %s' % sorted(neg) if neg <= allowed and neg else 'fails with %s, allowed %s' % (sorted(neg), sorted(allowed)))
    # parse_frame: first failure wins in order header -> plausibility -> payload checksum
    eng = R.engine(set())
    ps = R.paths('parse_frame', 'C07.c', eng)
    if ps is not None:
        bad = None
        for p in ps:
            names = [e.name for e in p.calls() if e.name in origins]
            for i, nme in enumerate(names):
                e = p.calls(nme)[0]
                failed = any(c == ('cmp', '<', e.result, C(0)) or c == ('cmp', '<', strip_cast(e.result), C(0)) for c in p.cond_terms())
                if failed:
                    if names[i + 1:]:
                        bad = 'continues after %s failed' % nme
                    if strip_cast(p.ret) != e.result:
                        bad = 'failure of %s is not what parse_frame returns' % nme
            if names and names != ['parse_header', 'payload_plausible', 'check_payload'][:len(names)]:
                bad = 'checks run in order %s' % names
            if p.ret == C(0) and names != ['parse_header', 'payload_plausible', 'check_payload']:
                bad = 'accepts after only %s' % names
            if p.end == 'return' and p.ret is not None and not (p.ret[0] == 'c' and p.ret[1] < 0) and not any(
                    strip_cast(p.ret) == e.result for e in p.calls() if e.name in origins):
                for nme in names:
                    e = p.calls(nme)[0]
                    if eng.feasible(p.cond_terms() + [('cmp', '<', e.result, C(0))]):
                        bad = ('the frame is accepted (returns %s) on a path where %s may have reported a failure: its result is not known to be >= 0 '
                               '(the test of the result has the wrong sign or is missing)' % (fmt(p.ret), nme))
        ck.verdict(bad is None, 'C07.c', 'parse_frame:order', R.where('parse_frame'),
                   'header -> plausibility -> payload checksum; the first failure is returned, success needs all three' if bad is None else bad)
    # regp_recv mapping
    eng = R.engine({'early_ebusy', 'early_erxoverflow', 'regp_has_hdcrc', 'regp_has_plcrc', 'frame_fits_transport'})
    ps = R.paths('regp_recv', 'C07.c', eng)
    if ps is not None:
        bad = None
        got = {}
        for p in ps:
            pf = p.calls('parse_frame')
            if not pf:
                continue
            r = pf[0].result
            for c in p.cond_terms():
                if c[0] == 'cmp' and c[1] == '==' and strip_cast(c[2]) == r and sym.is_c(c[3]):
                    metas = p.calls('regp_resp_meta')
                    got[c[3][1]] = metas[0].args[1][1] if metas and sym.is_c(metas[0].args[1]) else None
                    if backend_calls(p):
                        bad = 'backend reached from regp_recv'
            neg = any(c == ('cmp', '<', r, C(0)) for c in p.cond_terms())
            eid = sym.mem_read(p.mem, ('f', ('&', ('f', MF, 'error')), 'id'))
            if neg and not (eid[0] == 'neg' and eid[1] == r) and fmt(eid) != '-%s' % fmt(r):
                bad = bad or 'a failed parse is not recorded in error.id (= -rc)'
        want = {-EBADMSG: E['RP_META_EHEADERENC'], -EILSEQ: E['RP_META_EHEADERCRC']}
        if got != want:
            bad = bad or 'header faults are answered %s, expected %s' % (got, want)
        # what regp_process will see: error.id at every return is exactly the fault that occurred on the path
        #   parse_frame may have failed  -> error.id == -rc (never 0)
        #   sink reported an error       -> error.id == that error
        #   otherwise                    -> error.id == 0, whatever an earlier call left in the caller's object
        EID = ('f', ('&', ('f', MF, 'error')), 'id')
        nrec = 0
        ntransport = naccept_serial = 0
        tbad = None
        for p in ps:
            if p.end != 'return':
                continue
            eid = sym.mem_read(p.mem, EID)
            pf = p.calls('parse_frame')
            sinkerr = [c for c in p.cond_terms() if c[0] == 'cmp' and c[1] in ('!=', '==') and 'error.id' in fmt(c[2]) and strip_cast(c[2])[0] != 'f']
            chan = [e for e in p.calls() if e.name in ('lenp_decode_source_to_sink', 'rfc1055_decode')]
            if chan and any(strip_cast(p.ret) == e.result for e in chan):
                continue                                    # channel error: no frame, the result is returned as such
            nrec += 1
            if pf:
                r = pf[0].result
                def transport_refusal(p):
                    # a frame that does not declare the checksums its (non-TCP) channel mandates: header encoding fault
                    notcp = not any(c[0] == 'cmp' and c[1] == '==' and 'ep.type' in fmt(c[2]) and c[3] == C(E['RP_EP_TCP']) for c in p.cond_terms())
                    hd_ = [opt_test(c, E['RP_OPT_WITH_HEADER_CRC']) for c in p.cond_terms()]
                    pl_ = [opt_test(c, E['RP_OPT_WITH_PAYLOAD_CRC']) for c in p.cond_terms()]
                    haspl = any(c[0] == 'cmp' and c[1] == '!=' and c[3] == C(0) and fmt(c[2]).endswith('payload.size') for c in p.cond_terms())
                    metas = p.calls('regp_resp_meta')
                    return notcp and (False in hd_ or (haspl and False in pl_)) and eid == C(EBADMSG) and \
                        bool(metas) and metas[0].args[1] == C(E['RP_META_EHEADERENC'])
                if eng.feasible(p.cond_terms() + [('cmp', '<', r, C(0))]):
                    if transport_refusal(p):
                        ntransport += 1
                    elif not ((eid[0] == 'neg' and eid[1] == r) or fmt(eid) == '-%s' % fmt(r)):
                        bad = bad or ('parse_frame may have failed on the path {%s} but error.id is left at %s: regp_process treats the frame as valid and executes it'
                                      % ('; '.join(fmt(c) for c in p.cond_terms() if sym.contains(c, r)), fmt(eid)))
                elif eid != C(0):
                    # the one fault that is not parse_frame's: a frame that does not conform to the transport (document 5.1:
                    # serial channels carry the header checksum) is a header encoding fault
                    if transport_refusal(p):
                        ntransport += 1
                    else:
                        bad = bad or ('a frame that parsed without fault leaves error.id = %s (not reset to 0 for this call): a good frame following a bad one is treated as failed'
                                      % fmt(eid))
                else:
                    # accepted: on a serial channel only with a declared header checksum
                    serial = [c for c in p.cond_terms() if c[0] == 'cmp' and 'ep.type' in fmt(c[2]) and sym.is_c(c[3])]
                    is_tcp = any(c[1] == '==' and c[3] == C(E['RP_EP_TCP']) for c in serial)
                    hd = True in [opt_test(c, E['RP_OPT_WITH_HEADER_CRC']) for c in p.cond_terms()]
                    pl = True in [opt_test(c, E['RP_OPT_WITH_PAYLOAD_CRC']) for c in p.cond_terms()]
                    nopayload = any(c[0] == 'cmp' and c[1] == '==' and c[3] == C(0) and fmt(c[2]).endswith('payload.size') for c in p.cond_terms())
                    if not is_tcp:
                        naccept_serial += 1
                        if hd and not (pl or nopayload):
                            tbad = tbad or ('a frame received on a serial channel is accepted under {%s} with payload but without the WITH-PAYLOAD-CRC bit having been seen '
                                            'set: the document (5.1) mandates the payload checksum for messages that carry payload; such a frame\'s payload is covered by '
                                            'no checksum at all' % '; '.join(fmt(c) for c in p.cond_terms() if 'ep.type' in fmt(c) or 'options' in fmt(c) or 'payload.size' in fmt(c))[:240])
                        if not hd:
                            tbad = tbad or ('a frame received on a serial channel is accepted under {%s} without the WITH-HEADER-CRC bit having been seen set: '
                                            'the document (5.1) mandates the header checksum there, and a frame without it is not protected at all - a burst over '
                                            'the option bits of a valid frame clears the checksum bits, and the remainder is executed as it stands'
                                            % '; '.join(fmt(c) for c in p.cond_terms() if 'ep.type' in fmt(c) or 'options' in fmt(c))[:200])
            else:
                nz = [c for c in sinkerr if c[1] == '!=' and c[3] == C(0)]
                if nz:
                    src = strip_cast(nz[0][2])
                    if strip_cast(eid) != src:
                        bad = bad or 'the receive sink reported an error (%s) but error.id is %s' % (fmt(nz[0]), fmt(eid))
                elif sym.is_c(eid) and eid[1] == 0 and not (p.ret is not None and p.ret[0] == 'c' and p.ret[1] < 0):
                    bad = bad or 'a path without a parsed frame returns with error.id = 0: %s' % p.describe(3)
        if nrec < 6:
            bad = bad or 'only %d recording paths found' % nrec
        ck.verdict(bad is None, 'C07.c', 'regp_recv:classify', R.where('regp_recv'),
                   'EBADMSG -> META EHEADERENC, EILSEQ -> META EHEADERCRC; at every return error.id is exactly the fault of this call (-rc, the sink error, or 0)' if bad is None else bad)
        if naccept_serial == 0:
            ck.broken('C07.d', 'regp_recv:transport', R.where('regp_recv'), 'no accepting path of a serial channel found')
        else:
            ck.verdict(tbad is None, 'C07.d', 'regp_recv:transport', R.where('regp_recv'),
                       'a frame received on a serial channel is accepted only with a declared header checksum (%d accepting paths); one without is a header encoding fault' % naccept_serial
                       if tbad is None else tbad)
    ps = R.paths('regp_process', 'C07.c')
    if ps is not None:
        bad = None
        eid = ('f', ('&', ('f', MF, 'error')), 'id')
        got = {}
        for p in ps:
            idv = None
            for c in p.cond_terms():
                if c[0] == 'cmp' and c[1] == '==' and c[2] == eid and sym.is_c(c[3]):
                    idv = c[3][1]
            nonzero = idv not in (None, 0) or (idv is None and any(c == ('cmp', '!=', eid, C(0)) for c in p.cond_terms()))
            if nonzero:
                if backend_calls(p):
                    bad = 'memory backend called for a frame that failed reception (error.id %s)' % idv
                if p.calls('regp_resp_ack'):
                    bad = 'frame that failed reception is acknowledged'
                rp = p.calls('send_resp_0')
                isreq = any('header.type == 0' in fmt(c) or 'header.type == 2' in fmt(c) for c in p.cond_terms())
                if rp:
                    got[idv] = rp[0].args[2][1]
                    if not isreq:
                        bad = 'payload fault answered although the frame is not a request'
                elif idv in (EPROTO, EFAULT) and isreq:
                    bad = 'request with payload fault %s is not answered' % idv
        want = {EPROTO: E['RP_RESP_EPAYLOADCRC'], EFAULT: E['RP_RESP_EPAYLOADSIZE']}
        if got != want:
            bad = bad or 'payload faults are answered %s, expected %s' % (got, want)
        ck.verdict(bad is None, 'C07.c', 'regp_process:classify', R.where('regp_process'),
                   'EPROTO -> EPAYLOADCRC, EFAULT -> EPAYLOADSIZE for requests only; no backend access and no acknowledgement for frames that failed reception' if bad is None else bad)


def rule_d(ck, R):
    E = R.E
    eng = R.engine({'raw_with_hdcrc', 'raw_with_plcrc'})
    ps = R.paths('parse_header', 'C07.d', eng)
    if ps is None:
        return
    where = R.where('parse_header')
    acc = [p for p in ps if not (p.ret is not None and p.ret[0] == 'c' and p.ret[1] < 0)]
    types = {n: v for n, v in R.u.enum_decls.get('RPFrameType', []) if v >= 0}
    maxresp = max(v for n, v in R.u.enum_decls.get('RPResponse', []))
    bad = []
    seen_types = set()
    admitted, wanted = {}, {}
    n_ = ('v', 'n')
    for p in acc:
        conds = p.cond_terms()
        txt = [fmt(c) for c in conds]
        facts = eng.path_facts(p)
        if not eng.entails(facts, Lin.const(12) - L(n_)):
            bad.append('accepts a buffer shorter than the minimal header')
        ver = [c for c in conds if c[0] == 'cmp' and c[1] == '==' and c[3] == C(E.get('RP_IMPLEMENTATION_VERSION', 0)) and '& 15' in fmt(c[2]) and '>> 0' in fmt(c[2]) or
               (c[0] == 'cmp' and c[1] == '==' and 'version' in fmt(c[2]))]
        if not any('15' in fmt(c[2]) for c in conds if c[0] == 'cmp' and c[1] == '==' and c[3] == C(0)):
            bad.append('version field not required to be 0')
        if not any(c[0] == 'cmp' and c[1] == '==' and c[3] == C(0) and '& 8' in fmt(c[2]) for c in conds):
            bad.append('reserved option bit not required to be 0')
        tv = None
        tterm = None
        for c in conds:
            if c[0] == 'cmp' and c[1] == '==' and sym.is_c(c[3]) and '>> 4' in fmt(c[2]) and c[3][1] in types.values():
                tv, tterm = c[3][1], c[2]
        if tv is None:
            bad.append('accepted without a known frame type')
            continue
        seen_types.add(tv)
        # meta term: (motv & (15 << 12)) >> 12
        mterms = [x for c in conds for x in sym.subterms(c) if x[0] == '>>' and x[2] == C(12)]
        if not mterms:
            bad.append('type %d: meta field not examined' % tv)
            continue
        M = L(mterms[0])
        if tv in (types['RP_FRAME_READ_REQUEST'], types['RP_FRAME_WRITE_REQUEST']):
            if eng.feasible(conds, [Lin.const(1) - M]):
                bad.append('request with non-zero meta field accepted')
        elif tv in (types['RP_FRAME_READ_RESPONSE'], types['RP_FRAME_WRITE_RESPONSE']):
            if eng.feasible(conds, [Lin.const(maxresp + 1) - M]):
                bad.append('response code above the largest defined code (%d) accepted' % maxresp)
        elif tv == types['RP_FRAME_META']:
            if eng.feasible(conds, [M]) or eng.feasible(conds, [Lin.const(3) - M]):
                bad.append('META code outside {1, 2} accepted')
        # completeness half: which defined codes does this accepting path admit?
        rng = (range(0, 1) if tv in (types['RP_FRAME_READ_REQUEST'], types['RP_FRAME_WRITE_REQUEST']) else
               range(0, maxresp + 1) if tv in (types['RP_FRAME_READ_RESPONSE'], types['RP_FRAME_WRITE_RESPONSE']) else range(1, 3))
        for v in rng:
            if eng.feasible(conds, [M - v, Lin.const(v) - M]):
                admitted.setdefault(tv, set()).add(v)
            wanted.setdefault(tv, set()).add(v)
    for tv in sorted(wanted):
        missing = sorted(wanted[tv] - admitted.get(tv, set()))
        if missing:
            nm = [n for n, v in types.items() if v == tv][0]
            bad.append('%s frames with the defined meta/response code(s) %s are rejected as badly encoded' % (nm, missing))
    if seen_types != set(types.values()):
        bad.append('accepted frame types %s, defined %s' % (sorted(seen_types), sorted(types.values())))
    ck.verdict(not bad, 'C07.d', 'parse_header:validation', where,
               'accepts exactly: version 0, reserved option bit clear, the 5 defined types, request meta 0, every response code 0..%d, META codes 1 and 2; at least 12 octets' % maxresp
               if not bad else '; '.join(sorted(set(bad))))
    ck.floor('C07.d', 'accepting paths of parse_header', len(acc), 5)
    # representation: the parsed header keeps every wire field at its full width (sequence 16, address 32, block size 32,
    # checksums 16 bits); a narrower field silently truncates what later code echoes, compares and executes
    ns = eng.narrowing_stores(ps)
    ck.verdict(not ns, 'C07.d', 'parse_header:field-widths', where,
               'no header field is narrower than the wire value stored in it' if not ns else
               '%s <- %s: %s' % (fmt(ns[0][0].name), ns[0][1], ns[0][2]))


def run(ck):
    ck.rule('C07.g', 'the receive sink (continuable sink) stores min(n, free space), reports an overflow exactly when octets were dropped, and always consumes what it is given (C09.a re-evaluated)')
    ck.rule('C07.a', 'gating: the payload checksum comparison is skipped only for an unset WITH-PAYLOAD-CRC bit or an empty payload; header acceptance is control-dependent on crc == stored checksum exactly when WITH-HEADER-CRC is set')
    ck.rule('C07.b', 'coverage: encoder and decoder checksum the same words ([0,6), then word 7 with payload CRC), store/read it in word 6; payload plausibility per frame type; checksum variant follows WORD-SIZE-16')
    ck.rule('C07.c', 'classification: error codes per origin; first failure wins; EBADMSG/EILSEQ -> META EHEADERENC/EHEADERCRC; EPROTO/EFAULT -> EPAYLOADCRC/EPAYLOADSIZE for requests only; frames that failed reception never reach the backend nor get acknowledged')
    ck.rule('C07.d', 'header validation: version, reserved bit, type, meta field per type, minimal length')
    ck.rule('C07.f', 'the tail of a damaged or dropped serial frame is skipped, not parsed: decoder context in the instance, regp_recv sends it to skip-to-end-of-frame when it drops a partly received frame and otherwise leaves its state alone (C06.f re-evaluated)')
    ck.rule('C07.e', 'error-detection algebra: with the table, coverage, field and checksum positions read from the source, no single-bit error, two-bit error or burst flipping a whole window of 2..16 bits behind the first header word leaves every equality the serial receiver verifies intact (affine checksum: decided on error patterns, for all frames at once)')
    ck.not_decided += ['arbitrary (non-solid) error patterns inside a 16-bit window: the reflected checksum stored high octet first inside its own coverage does not catch all of them (DESIGN 11.6, observation about the wire format)',
                       'equivalence with an independent reading of the document for arbitrary octet strings']
    R = Regp(ck)
    rule_a(ck, R)
    rule_b(ck, R)
    rule_c(ck, R)
    rule_d(ck, R)
    from . import c07_algebra
    c07_algebra.rule_e(ck, R, motv_test)
    # a damaged frame must not be executed in part either: what the SLIP decoder does with the rest of a frame it gave up
    # on is decided by C06.f and re-evaluated here (the tail of a damaged frame is skipped, also across calls)
    from . import c06
    c06.rule_decoder_state(ck, R, rule='C07.f')
    c06.rule_decoder_owners(ck, R, rule='C07.f')
    c06.rule_tcp_desync(ck, R, rule='C07.f')
    from .common import reevaluate
    reevaluate(ck, 'C07.g', 'c09', lambda r, k: r == 'C09.a',
               'an extended frame that no longer fits the receive block is recorded as an overflow by the receive sink, never parsed truncated')
    ck.rule('C07.h', 'a frame truncated to nothing is still a frame the receiver sees: on a serial channel frame boundaries - empty frames included - are the SLIP decoder\'s transition table (C12.e re-evaluated), so every truncation is classified (bad header encoding) and answered')
    ck.rule('C07.i', 'the checksums the receive chain compares are CRC-16/ARC over ALL the octets / words it hands over: table, step and the folds of ufw_crc16_arc / ufw_crc16_arc_u16 (count to zero at full width, every datum fed once) are what C16 proves (re-evaluated) - a fold that covers only part of a large payload lets damage behind it through')
    reevaluate(ck, 'C07.i', 'c16', lambda r, k: r in ('C16.fold', 'C16.table', 'C16.step', 'C16.init'),
               'check_payload and parse_header compare against ufw_buffer_crc16_arc(_u16) / ufw_crc16_arc_u16 results')
    reevaluate(ck, 'C07.h', 'c12', lambda r, k: r == 'C12.e',
               'regp_recv gets one frame per call from rfc1055_decode: a delimiter in NORMAL state ends a frame, whatever was delivered before')
