"""C20 The s-expression reader inverts printing and fails cleanly -- structural clauses.

Decided: a INDEX-BOUNDS, b NULL (clang static analyzer channel with positive fixture),
c DIGIT-TABLE, d OWNERSHIP, e TOKEN-TABLE, f RESULT-SUMMARIES (least fixpoint over the
recursive reader: what ends a list, what becomes an element, what reaches the caller),
g WINDOW (the (pointer, length) input never reaches a NUL-seeking function).
NOT decided (not applicable to this technique): parse(print(t)) == t over all
trees as an equality of values; termination."""
import os, subprocess
from .. import cast, sym, lin, front
from .common import distinct_enums
from ..sym import C, fmt, linearize as L
from ..lin import Lin

UNIT = 'src/sx.c'
S, N = ('v', 's'), ('v', 'n')


def strip(t):
    while t is not None and t[0] == 'cast':
        t = t[2]
    return t


def s_loads(p):
    out = []
    for e in p.effects:
        if e.kind == 'load' and e.name[0] == 'i' and strip(e.name[1]) == S:
            out.append((e, e.name[2]))
    return out


def rule_a(ck, u, eng):
    # skip_ws: loop invariant i <= n (given i <= n at entry) and result <= n
    ps = eng.paths('skip_ws')
    ck.function('skip_ws')
    ck.analysed['paths'] += len(ps)
    i0 = ('v', 'i')
    bad = None
    for p in ps:
        lmap = p.loops[-1][1] if p.loops else {}
        hi = [h for k, (h, pre) in lmap.items() if k == i0]
        facts = eng.path_facts(p) + ([lin.le(L(hi[0]), L(N))] if hi else [lin.le(L(i0), L(N))])
        for e, ix in s_loads(p):
            if not eng.entails(facts, L(ix) + 1 - L(N)):
                bad = 's[%s] read without index < n' % fmt(ix)
        if p.end == 'loopback' and hi:
            nxt = p.mem.get(i0, hi[0])
            if not eng.entails(facts, L(nxt) - L(N)):
                bad = 'loop does not keep i <= n'
        if p.end == 'return' and hi:
            if not eng.entails(facts, L(strip(p.ret)) - L(N)):
                bad = 'result may exceed n'
    ck.verdict(bad is None, 'C20.a', 'skip_ws', cast.where(u.fn('skip_ws')), 'reads s[i] only for i < n; keeps and returns i <= n' if bad is None else bad)
    skip_le_n = bad is None
    # looking_at: precondition i < n from its only caller; every read s[i+k] needs i + k < n
    ck.function('looking_at')
    ps = eng.paths('looking_at')
    ck.analysed['paths'] += len(ps)
    bad = None
    nl = 0
    i_ = ('v', 'i')
    for p in ps:
        facts = eng.path_facts(p) + [lin.lt(L(i_), L(N))]      # established at the call site (checked below)
        for e, ix in s_loads(p):
            nl += 1
            if not eng.entails(facts, L(ix) + 1 - L(N)):
                guards = [fmt(c) for c in p.cond_terms() if sym.contains(c, N)]
                bad = ('s[%s] is read at %s with only {%s} established: cannot entail %s < n (a length-delimited input ending right after "#x" is read one octet beyond its end)'
                       % (fmt(ix), e.where(), '; '.join(guards), L(ix)))
    ck.verdict(bad is None and nl >= 5, 'C20.a', 'looking_at', cast.where(u.fn('looking_at')),
               'all %d reads of s[] are below n (given i < n from the caller)' % nl if bad is None and nl >= 5 else (bad or 'reads not found'))
    # every call site establishes position < n (looking_at reads s[i] unconditionally)
    eng2 = sym.Engine(u, sizeof={}, inline=set())
    nsites = 0
    for caller in sorted(u.functions):
        f = u.fn(caller)
        fl = cast.node_file(f) or ''
        if not fl.endswith('sx.c') or u.body(caller) is None or caller == 'looking_at':
            continue
        if not any(cast.callee_name(c) == 'looking_at' for c in cast.calls_in(u.body(caller))):
            continue
        ps = eng2.paths(caller)
        ck.function(caller)
        ck.analysed['paths'] += len(ps)
        bad = None
        seen = False
        for p in ps:
            la = p.calls('looking_at')
            if not la:
                continue
            seen = True
            extra = [lin.le(L(e.result), L(N)) for e in p.calls('skip_ws') if e.args[0] == S and e.args[1] == N] if skip_le_n else []
            for e in la:
                if e.args[0] != S or e.args[1] != N:
                    bad = 'looking_at at %s is applied to a different input window' % e.where()
                    continue
                # only the facts established before the call may be used
                before = []
                for c in p.cond_terms():
                    if sym.contains(c, e.result):
                        break
                    before.append(c)
                fb = eng2.path_facts(before) + extra
                if not eng2.entails(fb, L(e.args[2]) + 1 - L(N)):
                    bad = ('looking_at at %s reads s[%s] but position < n is not established before the call '
                           '(input ending in whitespace inside a list: one octet beyond a length-delimited input is read)'
                           % (e.where(), fmt(e.args[2])))
            if caller == 'sx_parse_token':
                sk = p.calls('skip_ws')
                if not sk or la[0].args[2] != sk[0].result:
                    bad = bad or 'looking_at is not applied to the position skip_ws returned'
                for fn in ('parse_integer', 'parse_hinteger', 'parse_symbol'):
                    for e in p.calls(fn):
                        if e.args[0] != S or e.args[1] != N:
                            bad = '%s called with a different input window' % fn
        nsites += 1
        ck.verdict(bad is None and seen, 'C20.a', '%s:callsite' % caller, cast.where(f),
                   'looking_at is called only with position < n (end-of-input test dominates the call)' if bad is None and seen else (bad or 'call site not found'))
    ck.floor('C20.a', 'functions calling looking_at', nsites, 1)
    # direct reads of s[] in the remaining functions that receive the window
    done = {'skip_ws', 'looking_at', 'parse_symbol', 'parse_integer_'}
    eng3 = sym.Engine(u, sizeof={}, inline=set())
    eng3.record_loads = True
    for caller in sorted(u.functions):
        f = u.fn(caller)
        if not (cast.node_file(f) or '').endswith('sx.c') or u.body(caller) is None or caller in done:
            continue
        pn = [q['name'] for q in u.params(caller)]
        if pn[:2] != ['s', 'n']:
            continue
        ps = eng3.paths(caller)
        bad = None
        nl = 0
        for p in ps:
            extra = [lin.le(L(e.result), L(N)) for e in p.calls('skip_ws') if e.args[0] == S and e.args[1] == N] if skip_le_n else []
            seen_conds = []
            order = [(id(e), e) for e in p.effects]
            for e, ix in s_loads(p):
                nl += 1
                if not eng3.entails(eng3.path_facts(p) + extra, L(ix) + 1 - L(N)):
                    bad = 's[%s] is read at %s without index < n established' % (fmt(ix), e.where())
        if nl:
            ck.function(caller)
            ck.analysed['paths'] += len(ps)
            ck.verdict(bad is None, 'C20.a', '%s:reads' % caller, cast.where(f), 'all %d direct reads of s[] are below n' % nl if bad is None else bad)
    # parse_symbol / parse_integer_: forward scans guarded by j < n
    for fn in ('parse_symbol', 'parse_integer_'):
        ck.function(fn)
        ps = eng.paths(fn)
        ck.analysed['paths'] += len(ps)
        bad = None
        exc = 0
        broken_in = None
        f = u.fn(fn)
        for p in ps:
            facts = eng.path_facts(p)
            for e, ix in s_loads(p):
                if eng.entails(facts, L(ix) + 1 - L(N)):
                    continue
                # exception: the backward digit loop of parse_integer_ (see below)
                if fn == 'parse_integer_' and e.inloop and backward_loop_ok(u, f, e):
                    exc += 1
                    continue
                if getattr(e, 'frame', None):
                    # a read inside a helper the engine looked through: the exception table above describes the loop
                    # where it stands in parse_integer_ itself and cannot be matched there
                    broken_in = e.frame
                    continue
                bad = 's[%s] at %s is not guarded by index < n' % (fmt(ix), e.where())
        if bad is None and broken_in:
            ck.broken('C20.a', fn, cast.where(f), 'a read of s[] that the path facts do not bound lies in the helper %s; the backward-loop exception is described for %s itself' % (broken_in.split('@')[0], fn))
            continue
        ck.verdict(bad is None, 'C20.a', fn, cast.where(f),
                   'forward scans read s[j] only under j < n%s' % ('; the backward digit loop only decrements j from a position <= n (exception table: relies on the scan\'s exit position)' if exc else '')
                   if bad is None else bad)


def backward_loop_ok(u, f, e):
    """exception table entry: in the loop containing this read the index variable is
    only decremented and starts one below a saved position that the forward scan
    (guarded by j < n) produced"""
    line = cast.node_line(e.node)
    for lp in cast.walk(f):
        if cast.kind(lp) != 'WhileStmt':
            continue
        b, en = lp.get('range', {}).get('begin', {}), lp.get('range', {}).get('end', {})
        lb = (b.get('expansionLoc') or b).get('line')
        le = (en.get('expansionLoc') or en).get('line')
        if lb is None or le is None or not (lb <= line <= le):
            continue
        incs = [x for x in cast.walk(lp) if cast.kind(x) == 'UnaryOperator' and x.get('opcode') == '++'] + \
               [x for x in cast.walk(lp) if cast.kind(x) == 'CompoundAssignOperator' and x.get('opcode') == '+=' and
                cast.kind(cast.strip(x['inner'][0])) == 'DeclRefExpr' and cast.strip(x['inner'][0])['referencedDecl']['name'] == 'j']
        decs = [x for x in cast.walk(lp) if cast.kind(x) == 'UnaryOperator' and x.get('opcode') == '--']
        jinc = [x for x in incs if cast.kind(cast.strip(x['inner'][0])) == 'DeclRefExpr' and cast.strip(x['inner'][0])['referencedDecl']['name'] == 'j']
        if decs and not jinc:
            return True
    return False


def rule_b(ck, u):
    """armed external channel: clang static analyzer NullDereference on sx.c"""
    flags = front.flags_for(UNIT)
    fixture = os.path.join(os.path.dirname(os.path.dirname(os.path.dirname(os.path.abspath(__file__)))), 'fixtures', 'null_deref_positive.c')

    def run_tidy(path, fl):
        cmd = ['clang-tidy', '-checks=-*,clang-analyzer-core.NullDereference', path, '--'] + fl
        try:
            p = subprocess.run(cmd, capture_output=True, text=True, timeout=300)
        except (OSError, subprocess.TimeoutExpired) as e:
            return None, str(e)
        out = p.stdout
        hits = [l for l in out.splitlines() if 'warning:' in l and 'clang-analyzer-core.NullDereference' in l and os.path.basename(path) in l.split(':')[0]]
        return hits, out
    # positive example must fire
    hits, out = run_tidy(fixture, ['-std=gnu99'])
    if hits is None or not hits:
        return ck.broken('C20.b', 'channel', fixture, 'the analyzer channel does not fire on the kept positive example: %s' % (out or '')[-200:])
    ck.holds('C20.b', 'channel:fixture', 'fixtures/null_deref_positive.c', 'analyzer fires on the positive example (%d report)' % len(hits))
    hits, out = run_tidy(front.unit_path(UNIT), flags)
    if hits is None:
        return ck.broken('C20.b', 'sx.c', UNIT, 'clang-tidy failed: %s' % out)
    if hits:
        for h in hits[:3]:
            loc = h.split(': warning')[0].replace(front.REPO + '/', '')
            fnname = function_at(u, loc)
            ck.violation('C20.b', 'null-deref:%s' % fnname, loc, 'clang static analyzer (path-sensitive): %s' % h.split('warning:')[1].strip())
    else:
        ck.holds('C20.b', 'sx.c', UNIT, 'clang static analyzer core.NullDereference reports nothing on sx.c')


def function_at(u, loc):
    try:
        line = int(loc.split(':')[1])
    except Exception:
        return '?'
    best = '?'
    for name, f in u.functions.items():
        fl, l = cast.node_loc(f)
        if fl and fl.endswith('sx.c') and l and l <= line:
            r = f.get('range', {}).get('end', {})
            le = (r.get('expansionLoc') or r).get('line')
            if le and line <= le:
                best = name
    return best


def rule_c(ck, u, eng):
    g = u.globals.get('digits')
    lookup = None
    if g is not None:
        for x in cast.walk(g):
            if cast.kind(x) == 'StringLiteral':
                lookup = x.get('value', '').strip('"')
    if lookup is None:
        return ck.broken('C20.c', 'digits', '', 'lookup string of digit2int not found')
    # does digit2int fold case?  look at what is compared with digits[k]
    ck.function('digit2int')
    ps = eng.paths('digit2int')
    fold = None
    cmpseen = False
    for p in ps:
        for c in p.cond_terms():
            if c[0] == 'cmp' and c[1] in ('==', '!='):
                for a, b in ((c[2], c[3]), (c[3], c[2])):
                    a0, b0 = strip(a), strip(b)
                    if a0[0] == 'i' and 'digits' in fmt(a0):
                        cmpseen = True
                        if b0 == ('v', 'c'):
                            fold = fold or 'none'
                        elif b0[0] == 'call' and b0[1] == 'tolower':
                            fold = 'lower'
                        elif b0[0] == 'call' and b0[1] == 'toupper':
                            fold = 'upper'
                        elif b0[0] in ('h',):
                            fold = fold or 'var'
    # a local lower-cased copy:  const char lc = tolower(c)
    f = u.fn('digit2int')
    calls = [cast.callee_name(x) for x in cast.walk(f) if cast.kind(x) == 'CallExpr']
    if 'tolower' in calls:
        fold = 'lower'
    elif 'toupper' in calls:
        fold = 'upper'
    if not cmpseen:
        return ck.broken('C20.c', 'digit2int', cast.where(f), 'comparison with the lookup string not recognised')
    # the search itself: index from START, step +1, while index < BOUND, a match returns the index, otherwise FALLBACK
    bound = None
    start = 0
    fallback = None
    shape_bad = None
    for p in ps:
        if not p.loops:
            continue
        lmap = p.loops[-1][1]
        idxs = [(k_, h, pre) for k_, (h, pre) in lmap.items()]
        if len(idxs) != 1:
            shape_bad = 'search loop carries %d variables' % len(idxs)
            continue
        k_, h, pre = idxs[0]
        if pre is None or not sym.is_c(pre):
            shape_bad = 'search starts at index %s' % (fmt(pre) if pre else '?')
        else:
            start = pre[1]
        if p.end == 'return' and not any(c[0] == 'cmp' and c[1] == '==' and 'digits' in fmt(c) for c in p.cond_terms()):
            if p.ret is not None and sym.is_c(strip(p.ret)):
                fallback = strip(p.ret)[1]
        for c in p.cond_terms():
            if c[0] == 'cmp' and c[1] == '<' and c[2] == h and sym.is_c(c[3]):
                bound = c[3][1] if bound is None else min(bound, c[3][1])
            if c[0] == 'cmp' and c[1] == '<=' and c[2] == h and sym.is_c(c[3]):
                bound = c[3][1] + 1 if bound is None else min(bound, c[3][1] + 1)
        if p.end == 'loopback':
            d = L(p.mem.get(k_, h)) - L(h)
            if not (d.is_const() and d.c == 1):
                shape_bad = 'search index moves by %s' % d
        if p.end == 'return' and any(c[0] == 'cmp' and c[1] == '==' and 'digits' in fmt(c) for c in p.cond_terms()):
            if strip(p.ret) != h:
                shape_bad = 'a match returns %s, not the index' % fmt(p.ret)
    if shape_bad or bound is None:
        return ck.broken('C20.c', 'digit2int', cast.where(f), shape_bad or 'search bound not recognised')
    if bound > len(lookup) + 1:
        ck.violation('C20.c', 'digit2int:bound', cast.where(f), 'the search reads digits[%d], the lookup string has %d characters' % (bound - 1, len(lookup)))
    def digit_value(key):
        idx = lookup.find(key)
        return idx if start <= idx < bound else fallback
    sets = {'isdigit': '0123456789', 'isxdigit': '0123456789abcdefABCDEF'}
    f2 = None
    nsite = 0
    for wrapper in ('parse_integer', 'parse_hinteger'):
        fw = u.fn(wrapper)
        if fw is None:
            ck.broken('C20.c', wrapper, '', 'function missing')
            continue
        for x in cast.walk(fw):
            if cast.kind(x) == 'CallExpr' and cast.callee_name(x) == 'parse_integer_':
                nsite += 1
                args = x['inner'][1:]
                pred = cast.strip_all_casts(args[4]).get('referencedDecl', {}).get('name')
                base = u.const_value(args[5])
                if pred not in sets or base is None:
                    ck.broken('C20.c', wrapper, cast.where(x), 'digit predicate %s / base %s not recognised' % (pred, base))
                    continue
                badch = []
                for ch in sets[pred]:
                    key = ch.lower() if fold == 'lower' else ch.upper() if fold == 'upper' else ch
                    val = digit_value(key)
                    if val is None or val != int(ch, 16) or val >= base:
                        badch.append(ch)
                ck.verdict(not badch, 'C20.c', wrapper, cast.where(x),
                           'every character %s accepts gets its numeric value (below %d) from digit2int' % (pred, base) if not badch else
                           'characters %s are accepted by %s but digit2int (lookup "%s", case folding: %s) does not give them their numeric value below %d'
                           % (''.join(badch), pred, lookup, fold, base))
    ck.floor('C20.c', 'parse_integer_ call sites', nsite, 2)


def rule_d(ck, u, eng):
    E = u.enums
    distinct_enums(ck, u, 'C20.d', ('SXS_', 'SXT_', 'LOOKING_AT_'), 'include/ufw/sx.h')
    # result_is_error
    ck.function('result_is_error')
    ps = eng.paths('result_is_error')
    st = ('f', ('v', 'res'), 'status')
    ok = True
    for p in ps:
        if p.ret is None:
            ok = False
            continue
        accept = p.ret != C(0)
        conds = p.cond_terms() + ([sym.truth(p.ret)] if p.ret[0] == 'cmp' else [])
        is_succ = ('cmp', '==', st, C(E['SXS_SUCCESS'])) in conds
        is_list = ('cmp', '==', st, C(E['SXS_FOUND_LIST'])) in conds
        if p.ret == C(0) and not (is_succ or is_list):
            ok = False
        if p.ret != C(0) and (is_succ or is_list):
            ok = False
    ck.verdict(ok and ps, 'C20.d', 'result_is_error', cast.where(u.fn('result_is_error')),
               'every status except SUCCESS and FOUND_LIST is an error' if ok else 'result_is_error is not "status not in {SUCCESS, FOUND_LIST}"')
    # sx_parse destroys on error
    eng2 = sym.Engine(u, sizeof={}, inline={'result_is_error'})
    ck.function('sx_parse')
    ps = eng2.paths('sx_parse')
    bad = None
    seen_err = False
    for p in ps:
        pc = p.calls('sx_parse_')
        if len(pc) != 1:
            bad = 'expected one sx_parse_ call'
            continue
        r = pc[0].result
        stt = ('fv', r, 'status')
        iserr = ('cmp', '!=', stt, C(E['SXS_SUCCESS'])) in p.cond_terms() and ('cmp', '!=', stt, C(E['SXS_FOUND_LIST'])) in p.cond_terms()
        d = p.calls('sx_destroy')
        if iserr and (len(d) != 1 or 'node' not in fmt(d[0].args[0])):
            bad = 'error status returned without destroying the partial tree'
        if not iserr and d:
            bad = 'tree destroyed although parsing succeeded'
        if iserr:
            seen_err = True
    if not seen_err and bad is None:
        bad = 'error statuses are not distinguished: a partial tree is returned (and later leaked) together with an error status'
    ck.verdict(bad is None, 'C20.d', 'sx_parse', cast.where(u.fn('sx_parse')), 'on every error status the partial tree is destroyed (no tree returned, nothing leaked), otherwise kept' if bad is None else bad)
    # sx_parse_list: nodes obtained end up in the returned structure
    eng3 = sym.Engine(u, sizeof={}, inline={'result_is_error', 'result_is_empty_listp'})
    ck.function('sx_parse_list')
    ps = eng3.paths('sx_parse_list')
    bad = None
    if not any(p.calls('sx_parse_list') for p in ps) and any(p.loops for p in ps):
        # the rule follows the nodes of a list built by recursion on the rest (element, rest, cons).  A list collected in a
        # loop through a tail pointer stores its nodes through an alias this rule does not follow: it says so
        ck.broken('C20.d', 'sx_parse_list', cast.where(u.fn('sx_parse_list')),
                  'the list is collected in a loop (no recursion on the rest): the nodes are linked through a tail pointer, an alias the ownership rule does not follow')
        ps = []
    for p in ps:
        car = p.calls('sx_parse_')
        cdr = p.calls('sx_parse_list')
        cons = p.calls('sx_cons')
        if car and cdr:
            if len(cons) != 1:
                bad = 'element and rest parsed but not linked'
                continue
            a = cons[0].args
            if 'node' not in fmt(a[0]) or not sym.contains(a[0], car[0].result) or not sym.contains(a[1], cdr[0].result):
                bad = 'cons(%s, %s) does not link the parsed element with the parsed rest' % (fmt(a[0]), fmt(a[1]))
            r = p.ret
            node = dict(r[2]).get('node') if r is not None and r[0] == 'struct' else None
            if node != cons[0].result:
                bad = 'the linked pair is not what is returned'
            stt = dict(r[2]).get('status') if r is not None and r[0] == 'struct' else None
            if stt is None or not sym.contains(stt, cdr[0].result):
                bad = bad or 'status of the rest is not propagated'
        elif car and not cdr:
            if strip(p.ret) != car[0].result and not (p.ret is not None and p.ret[0] == 'struct' and p.ret[1] == car[0].result and not p.ret[2]):
                bad = 'element result not returned unchanged at the end of the list / on error'
    ck.verdict(bad is None, 'C20.d', 'sx_parse_list', cast.where(u.fn('sx_parse_list')),
               'each parsed element is linked with the parsed rest and returned; end-of-list and error results are returned unchanged' if bad is None else bad)
    # sx_destroy frees children, payload and the node itself
    ck.function('sx_destroy')
    ps = eng3.paths('sx_destroy')
    bad = None
    kinds = set()
    for p in ps:
        fr = p.calls('free')
        rec = p.calls('sx_destroy')
        conds = [fmt(c) for c in p.cond_terms()]
        if any('== 0' in c and '*n' in c for c in conds) and not fr:
            continue
        pair = any('type == %d' % E['SXT_PAIR'] in c for c in conds)
        symb = any('type == %d' % E['SXT_SYMBOL'] in c for c in conds)
        if pair:
            kinds.add('pair')
            if len(rec) != 2 or len(fr) != 2:
                bad = 'pair: %d recursive destroys, %d frees (expected 2/2)' % (len(rec), len(fr))
        elif symb:
            kinds.add('symbol')
            if len(fr) != 2:
                bad = 'symbol: %d frees (expected text + node)' % len(fr)
        else:
            kinds.add('other')
            if len(fr) != 1:
                bad = 'atom: %d frees (expected the node)' % len(fr)
        st_ = [e for e in p.stores() if fmt(e.name) == '*n']
        if not st_ or st_[-1].args[0] != C(0):
            bad = bad or 'caller\'s pointer is not reset to NULL'
    if kinds != {'pair', 'symbol', 'other'}:
        bad = bad or 'node kinds handled: %s' % sorted(kinds)
    ck.verdict(bad is None, 'C20.d', 'sx_destroy', cast.where(u.fn('sx_destroy')),
               'pairs free car, cdr, the pair cell and the node; symbols free text and node; other nodes the node; the pointer is reset' if bad is None else bad)


_CT = {}


def ctype_masks():
    if not _CT:
        names = ['_ISdigit', '_ISxdigit', '_ISspace', '_ISalpha', '_ISalnum']
        try:
            vals = front.probe_values(UNIT, names)
            _CT.update({v: 'is' + n[3:] for n, v in zip(names, vals)})
        except front.FrontError:
            _CT[-1] = None
    return _CT


def rule_e(ck, u):
    """token table and value construction"""
    E = u.enums
    eng = sym.Engine(u, sizeof={}, inline=set())
    eng.record_loads = True
    # looking_at: decision list
    ps = eng.paths('looking_at')
    i_ = ('v', 'i')
    cls = {}
    for p in ps:
        if p.ret is None or p.ret[0] != 'c':
            continue
        eqs = {}
        for c in p.cond_terms():
            if c[0] == 'cmp' and c[1] == '==' and c[2][0] == 'i' and strip(c[2][1]) == S and sym.is_c(c[3]):
                off = (L(c[2][2]) - L(i_))
                eqs[int(off.c) if off.is_const() else None] = chr(c[3][1])
        calls = [e.name for e in p.calls() if any(strip(a) != S for a in e.args)]
        preds = []
        for e in p.calls():
            truthy = any(c[0] == 'cmp' and c[1] == '!=' and strip(c[2]) == e.result and c[3] == C(0) for c in p.cond_terms())
            if truthy:
                preds.append(e.name)
        # <ctype.h> predicates may be macros over the classification table: (table[c] & _ISxxx) != 0
        for c in p.cond_terms():
            if c[0] == 'cmp' and c[1] == '!=' and c[3] == C(0) and c[2][0] == '&b' and sym.is_c(c[2][2]) and '__ctype_b_loc' in fmt(c[2][1]):
                nm = ctype_masks().get(c[2][2][1])
                if nm:
                    preds.append(nm)
        cls.setdefault(p.ret[1], []).append((eqs, preds))
    want = {E['LOOKING_AT_INT_HEX']: lambda eqs, preds: eqs.get(0) == '#' and eqs.get(1) == 'x' and 'isxdigit' in preds,
            E['LOOKING_AT_PAREN_OPEN']: lambda eqs, preds: eqs.get(0) == '(',
            E['LOOKING_AT_PAREN_CLOSE']: lambda eqs, preds: eqs.get(0) == ')',
            E['LOOKING_AT_INT_DEC']: lambda eqs, preds: 'isdigit' in preds,
            E['LOOKING_AT_SYMBOL']: lambda eqs, preds: 'issyminitch' in preds}
    bad = None
    for k, f in want.items():
        lst = cls.get(k, [])
        if not lst or not all(f(eqs, preds) for eqs, preds in lst):
            nm = [n for n, v in E.items() if v == k and n.startswith('LOOKING_AT')][0]
            bad = '%s is decided by %s' % (nm, lst[:2])
    if E['LOOKING_AT_UNKNOWN'] not in cls:
        bad = bad or 'no UNKNOWN classification'
    # exactness of the length guards: the shortest literal of each class is still recognised when it ends the input
    need = {E['LOOKING_AT_INT_HEX']: 3, E['LOOKING_AT_PAREN_OPEN']: 1, E['LOOKING_AT_PAREN_CLOSE']: 1, E['LOOKING_AT_INT_DEC']: 1, E['LOOKING_AT_SYMBOL']: 1}
    reach = {}
    for p in ps:
        if p.ret is None or p.ret[0] != 'c' or p.ret[1] not in need:
            continue
        k = need[p.ret[1]]
        lin_conds = [c for c in p.cond_terms() if c[0] == 'cmp' and not any(t[0] in ('i', 'call') for t in sym.subterms(c))]
        ok_ = eng.feasible(lin_conds + [('cmp', '==', N, sym.add(i_, C(k)))])
        r_ = reach.setdefault(p.ret[1], [False, []])
        r_[0] = r_[0] or ok_
        r_[1].append('; '.join(fmt(c) for c in lin_conds))
    for kv, (ok_, guards) in sorted(reach.items()):
        if not ok_:
            nm = [n_ for n_, v in E.items() if v == kv and n_.startswith('LOOKING_AT')][0]
            bad = bad or ('%s is not recognised when only %d character(s) are left before the end of the input (guards: %s)'
                          % (nm, need[kv], ' | '.join(sorted(set(guards)))))
    ck.verdict(bad is None, 'C20.e', 'looking_at:table', cast.where(u.fn('looking_at')),
               '"#x"+hex digit -> hex integer, "(" / ")" -> list delimiters, digit -> decimal integer, symbol-initial character -> symbol, anything else unknown' if bad is None else bad)
    # sx_parse_token: one arm per classification
    ps = eng.paths('sx_parse_token')
    arms = {}
    for p in ps:
        la = p.calls('looking_at')
        if not la:
            continue
        kv = None
        for c in p.cond_terms():
            if c[0] == 'cmp' and c[1] == '==' and strip(c[2]) == la[0].result and sym.is_c(c[3]):
                kv = c[3][1]
        parsers = [e.name for e in p.calls() if e.name in ('parse_integer', 'parse_hinteger', 'parse_symbol', 'sx_make_empty_list')]
        st = sym.mem_read(p.mem, ('f', ('&', ('v', 'rv')), 'status'))
        node_null = any(c[0] == 'cmp' and c[1] == '==' and c[3] == C(0) and any(x[0] == 'call' and x[1] in parsers for x in sym.subterms(c[2])) for c in p.cond_terms())
        arms.setdefault(kv, []).append((tuple(parsers), st, node_null, p))
    exp = {E['LOOKING_AT_INT_DEC']: ('parse_integer', 'SXS_BROKEN_INTEGER'), E['LOOKING_AT_INT_HEX']: ('parse_hinteger', 'SXS_BROKEN_INTEGER'),
           E['LOOKING_AT_SYMBOL']: ('parse_symbol', 'SXS_BROKEN_SYMBOL')}
    bad = None
    for kv, (parser, fail) in exp.items():
        lst = arms.get(kv, [])
        if not lst:
            bad = 'no arm for classification %d' % kv
            continue
        for parsers, st, node_null, p in lst:
            if parsers != (parser,):
                bad = 'classification %d handled by %s, expected %s' % (kv, parsers, parser)
            if node_null and st != C(E[fail]):
                bad = 'a failed %s is reported as status %s' % (parser, fmt(st))
            if not node_null and st != C(E['SXS_SUCCESS']) and fmt(st) != 'rv.status':
                bad = 'successful %s reported as %s' % (parser, fmt(st))
    for parsers, st, nn, p in arms.get(E['LOOKING_AT_PAREN_OPEN'], []):
        if st != C(E['SXS_FOUND_LIST']) or parsers:
            bad = bad or '"(" does not yield FOUND_LIST'
    for parsers, st, nn, p in arms.get(E['LOOKING_AT_UNKNOWN'], []) + arms.get(None, []):
        if st != C(E['SXS_UNKNOWN_INPUT']):
            bad = bad or 'unknown input reported as %s' % fmt(st)
    if (set(exp) | {E['LOOKING_AT_PAREN_OPEN'], E['LOOKING_AT_PAREN_CLOSE']}) - set(arms):
        bad = bad or 'missing arms: %s' % sorted((set(exp) | {E['LOOKING_AT_PAREN_OPEN'], E['LOOKING_AT_PAREN_CLOSE']}) - set(arms))
    # position reported = where the token parser stopped
    for lst in arms.values():
        for parsers, st, nn, p in lst:
            pos = sym.mem_read(p.mem, ('f', ('&', ('v', 'rv')), 'position'))
            if 'j' not in fmt(pos) and pos[0] != 'h' and 'skip_ws' not in fmt(pos):
                bad = bad or 'reported position is %s, not the scanning cursor' % fmt(pos)
    ck.verdict(bad is None, 'C20.e', 'sx_parse_token:arms', cast.where(u.fn('sx_parse_token')),
               'each token class is handled by its own parser, failures map to BROKEN_INTEGER / BROKEN_SYMBOL / UNKNOWN_INPUT, "(" yields FOUND_LIST, the cursor is reported as position' if bad is None else bad)
    # wrappers: offset / predicate / base triple
    for w, (off, pred, base) in (('parse_integer', (0, 'isdigit', 10)), ('parse_hinteger', (2, 'isxdigit', 16))):
        fw = u.fn(w)
        ok = False
        for x in cast.walk(fw):
            if cast.kind(x) == 'CallExpr' and cast.callee_name(x) == 'parse_integer_':
                a = x['inner'][1:]
                ok = (u.const_value(a[3]) == off and cast.strip_all_casts(a[4]).get('referencedDecl', {}).get('name') == pred and u.const_value(a[5]) == base)
        ck.verdict(ok, 'C20.e', w, cast.where(fw), '%s scans from offset %d with %s in base %d' % (w, off, pred, base) if ok else '%s does not pass (offset %d, %s, base %d)' % (w, off, pred, base))
    # parse_integer_: positional value accumulation
    ps = eng.paths('parse_integer_')
    bad = None
    seen = False
    for p in ps:
        if p.end != 'loopback' or len(p.loops) < 2:
            continue
        lmap = p.loops[-1][1]
        # by role: the accumulator is the loop variable whose new value contains a digit2int result, the multiplier the
        # loop variable it is multiplied with; the cursor the one that steps by a constant
        d2i_ = p.calls('digit2int')
        acc = [(k, h, pre) for k, (h, pre) in lmap.items() if d2i_ and k[0] == 'v' and sym.contains(sym.mem_read(p.mem, k, h), d2i_[-1].result)]
        if len(acc) != 1:
            continue
        kn, hn, pn = acc[0]
        facs = set()
        for x in sym.subterms(sym.mem_read(p.mem, kn, hn)):
            if x[0] == '*' and len(x) == 3:
                if strip(x[1]) == d2i_[-1].result:
                    facs.add(strip(x[2]))
                elif strip(x[2]) == d2i_[-1].result:
                    facs.add(strip(x[1]))
        mul = [(k, h, pre) for k, (h, pre) in lmap.items() if k != kn and h in facs]
        if len(mul) != 1:
            seen = True
            bad = "value' = %s, expected value + mult * digit with mult a loop variable (1, base, base^2, ...)" % fmt(sym.mem_read(p.mem, kn, hn))
            continue
        km, hm, pm = mul[0]
        seen = True
        basep = ('v', u.params('parse_integer_')[5]['name']) if len(u.params('parse_integer_')) >= 6 else ('v', 'base')
        kv = {'j': next(((k, h, pre) for k, (h, pre) in lmap.items() if k not in (kn, km) and k[0] == 'v' and h[0] == 'h'
                         and (L(strip(sym.mem_read(p.mem, k, h))) - L(h)).is_const() and (L(strip(sym.mem_read(p.mem, k, h))) - L(h)).c != 0), None)}
        if pn != C(0) or pm != C(1):
            bad = 'accumulator/multiplier start at %s/%s (expected 0/1)' % (fmt(pn) if pn else None, fmt(pm) if pm else None)
        n2, m2 = sym.mem_read(p.mem, kn), sym.mem_read(p.mem, km)
        d2i = p.calls('digit2int')
        if not d2i:
            bad = 'digit value not taken from digit2int'
            continue
        want_n = ('+', hn, ('*', hm, d2i[-1].result))
        if strip(n2) != want_n and strip(n2) != ('+', hn, ('*', d2i[-1].result, hm)):
            bad = "value' = %s, expected value + mult * digit" % fmt(n2)
        if strip(m2) not in (('*', hm, basep), ('*', basep, hm)):
            bad = "mult' = %s, expected mult * base" % fmt(m2)
        jk = kv.get('j')
        if jk:
            dj = L(sym.mem_read(p.mem, jk[0])) - L(jk[1])
            if not (dj.is_const() and dj.c == -1):
                bad = 'digit cursor moves by %s (expected -1: least significant digit first)' % dj
    if bad is None and not seen:
        ck.broken('C20.e', 'parse_integer_:value', cast.where(u.fn('parse_integer_')), 'accumulation loop not recognised (the value is computed some other way)')
    else:
        ck.verdict(bad is None, 'C20.e', 'parse_integer_:value', cast.where(u.fn('parse_integer_')),
                   'value = sum of digit * base^k from the last digit backwards' if bad is None else bad)
    # parse_symbol: text window and position
    ps = eng.paths('parse_symbol')
    bad = None
    for p in ps:
        mk = p.calls('sx_make_symboln')
        for e in mk:
            start = L(e.args[0]) - L(S)
            ln = L(e.args[1])
            i0 = ('i', ('v', 'i'), C(0))
            if not ((start - L(i0)).is_const() and (start - L(i0)).c == 0):
                bad = 'symbol text starts at %s, expected s + *i' % fmt(e.args[0])
            if 'j' not in fmt(e.args[1]) and e.args[1][0] != '-':
                bad = 'symbol length %s' % fmt(e.args[1])
    ck.verdict(bad is None, 'C20.e', 'parse_symbol:window', cast.where(u.fn('parse_symbol')), 'symbol text = s[*i .. scan end)' if bad is None else bad)


class _Shape(Exception):
    pass


def rule_f(ck, u):
    """C20.f  result-summary analysis of the mutually recursive reader.

    Abstract value of a parse result: (origin, status, node kind) where origin says what the call
    consumed (a token class, or 'list' = a complete parenthesised list) and node kind is one of
    null / atom / empty / pair.  Summaries of sx_parse_token are read off its paths; those of
    sx_parse_ and sx_parse_list are the least fixpoint of their path equations (every branch
    condition on .status, .node and .node->type is evaluated on the abstract values).  The domain is
    finite, so this is exact for these three fields and covers every nesting depth."""
    E = u.enums
    SUCCESS, FOUND = E['SXS_SUCCESS'], E['SXS_FOUND_LIST']
    T_EMPTY, T_PAIR = E['SXT_EMPTY_LIST'], E['SXT_PAIR']
    CLOSE = E['LOOKING_AT_PAREN_CLOSE']
    cls_name = {E['LOOKING_AT_INT_DEC']: 'int', E['LOOKING_AT_INT_HEX']: 'hex', E['LOOKING_AT_SYMBOL']: 'sym',
                E['LOOKING_AT_PAREN_OPEN']: 'open', CLOSE: 'close', E['LOOKING_AT_UNKNOWN']: 'unknown'}
    eng = sym.Engine(u, sizeof={}, inline={'result_is_error', 'result_is_empty_listp', 'sx_is_null'})
    where_list = cast.where(u.fn('sx_parse_list'))

    def node_kind(t, p):
        t = strip(t)
        if t == C(0):
            return 'null'
        if t[0] == 'call' and t[1] == 'sx_make_empty_list':
            return 'empty'
        if t[0] == 'call' and t[1] in ('sx_cons', 'make_pair'):
            return 'pair'
        if t[0] == 'call' and t[1] in ('parse_integer', 'parse_hinteger', 'parse_symbol'):
            for c in p.cond_terms():
                if c[0] == 'cmp' and strip(c[2]) == t and c[3] == C(0):
                    return 'null' if c[1] == '==' else 'atom'
            return 'atom?'
        raise _Shape('node value %s' % fmt(t))

    def fields(r):
        """(base call term or None, {field: term}) of a returned parse result"""
        if r is None:
            raise _Shape('no result')
        if r[0] == 'struct':
            return (r[1] if r[1][0] == 'call' else None), dict(r[2])
        if r[0] == 'call':
            return r, {}
        raise _Shape('result %s' % fmt(r))

    # ---- tokenizer summaries -------------------------------------------------------------------
    TOK = set()
    for p in eng.paths('sx_parse_token'):
        la = p.calls('looking_at')
        origin = 'end'
        if la:
            origin = None
            nes = set()
            for c in p.cond_terms():
                if c[0] == 'cmp' and strip(c[2]) == la[0].result and sym.is_c(c[3]):
                    if c[1] == '==':
                        origin = cls_name.get(c[3][1])
                    else:
                        nes.add(c[3][1])
            if origin is None:
                # everything that is none of the named classes is "unknown", whether the code says so by a default arm
                # after all cases, by comparing with LOOKING_AT_UNKNOWN, or by the last else of a chain
                named = set(k for k, v in cls_name.items() if v != 'unknown')
                origin = 'unknown' if nes >= named else None
            if origin is None:
                raise _Shape('token path without classification')
        base, f = fields(p.ret)
        if base is not None or not {'status', 'node'} <= set(f) or not sym.is_c(f['status']):
            raise _Shape('token result %s' % fmt(p.ret))
        TOK.add((origin, f['status'][1], node_kind(f['node'], p)))
    ck.analysed['paths'] += 1

    dangling = []

    def sat(conds, X, sm):
        """does abstract value sm of call term X satisfy the path conditions that mention X?"""
        origin, st, nk = sm
        for c in conds:
            if not sym.contains(c, X):
                continue
            if c[0] != 'cmp' or c[1] not in ('==', '!=') or not sym.is_c(c[3]):
                raise _Shape('condition %s' % fmt(c))
            a = strip(c[2])
            if a == ('fv', X, 'status'):
                v = st
            elif a == ('fv', X, 'node'):
                if c[3][1] != 0:
                    raise _Shape('condition %s' % fmt(c))
                v = 0 if nk == 'null' else 1
                if (c[1] == '==') != (v == 0):
                    return False
                continue
            elif a[0] == 'f' and a[2] == 'type' and strip(a[1]) == ('fv', X, 'node'):
                if nk in ('null', 'freed'):
                    continue                    # dereference of NULL: C20.b's business; of a released node: reported below
                v = {'empty': T_EMPTY, 'pair': T_PAIR}.get(nk, -1)
                if v == -1 and c[3][1] not in (T_EMPTY, T_PAIR):
                    raise _Shape('condition %s on an atom' % fmt(c))
            else:
                raise _Shape('condition %s' % fmt(c))
            if (c[1] == '==') != (v == c[3][1]):
                return False
        return True

    PL = {'sx_parse_': eng.paths('sx_parse_'), 'sx_parse_list': eng.paths('sx_parse_list'), 'sx_parse': eng.paths('sx_parse')}
    ck.analysed['paths'] += sum(len(v) for v in PL.values())
    P, LIST = set(), set()          # summaries of sx_parse_ ; of sx_parse_list: (status, node kind, how, where)
    elements = set()                # origins of successful values that become list elements
    positions = []                  # (where, reported position - position of the ')' that ended the list)

    def results_of(t):
        if t[1] == 'sx_parse_token':
            return TOK
        if t[1] == 'sx_parse_':
            return P
        if t[1] == 'sx_parse_list':
            return set(('list' if st_ == SUCCESS else 'error', st_, nk) for st_, nk, how, w in LIST)
        raise _Shape('result of %s' % t[1])

    def apply(sm, f, p, base=None):
        origin, st, nk = sm
        if 'status' in f:
            if not sym.is_c(f['status']):
                raise _Shape('status %s' % fmt(f['status']))
            st = f['status'][1]
        if 'node' in f:
            v = strip(f['node'])
            nk = 'null' if (v[0] == 'h' and 'sx_destroy' in fmt(v)) else node_kind(v, p)
        elif base is not None and nk != 'null':
            # the node of the callee's result is handed on as it is: a path that gave it back to the allocator and did
            # not reset the field returns a dangling pointer
            for e in p.calls('free'):
                if e.args and strip(e.args[0]) == ('fv', base, 'node'):
                    nk = 'freed'
                    dangling.append(cast.where(e.node) if getattr(e, 'node', None) else None)
        return (origin, st, nk)

    for _ in range(12):
        P0, L0 = set(P), set(LIST)
        for p in PL['sx_parse_']:
            base, f = fields(p.ret)
            if base is None:
                raise _Shape('sx_parse_ builds its own result')
            for sm in results_of(base):
                if all(sat(p.cond_terms(), x, sm) if x == base else True for x in [base]):
                    # conditions on the token result when the list result is what is returned
                    others = [e.result for e in p.calls('sx_parse_token') if e.result != base]
                    if others and not any(sat(p.cond_terms(), others[0], t) for t in TOK):
                        continue
                    P.add(apply(sm, f, p, base))
        for p in PL['sx_parse_list']:
            car = p.calls('sx_parse_')
            cdr = p.calls('sx_parse_list')
            cons = p.calls('sx_cons')
            w = cast.where(p.node) if p.node else where_list
            base, f = fields(p.ret)
            if not car:
                if base is not None:
                    raise _Shape('list path returns %s' % fmt(p.ret))
                origin = 'end'
                for c in p.cond_terms():
                    if c[0] == 'cmp' and c[1] == '==' and c[3] == C(CLOSE) and strip(c[2])[0] == 'call' and strip(c[2])[1] == 'looking_at':
                        origin = 'close'
                    if c[0] == 'cmp' and c[1] == '==' and c[3] == C(ord(')')) and strip(c[2])[0] == 'i' and strip(strip(c[2])[1]) == S:
                        origin = 'close'
                st = f['status'][1] if sym.is_c(f.get('status', C(SUCCESS))) else None
                nk = node_kind(f.get('node', C(0)), p)
                if origin == 'close' and st == SUCCESS:
                    at = [strip(c[2])[2][2] for c in p.cond_terms() if c[0] == 'cmp' and c[1] == '==' and c[3] == C(CLOSE)
                          and strip(c[2])[0] == 'call' and strip(c[2])[1] == 'looking_at']
                    at += [strip(c[2])[2] for c in p.cond_terms() if c[0] == 'cmp' and c[1] == '==' and c[3] == C(ord(')'))
                           and strip(c[2])[0] == 'i']
                    d = (L(f['position']) - L(at[0])) if at and 'position' in f else None
                    positions.append((w, d))
                LIST.add((st, nk, 'terminator:%s' % origin if st == SUCCESS else 'error', w))
                continue
            X = car[0].result
            for sm in set(P):
                if not sat(p.cond_terms(), X, sm):
                    continue
                if cons and cdr:
                    if sm[1] == SUCCESS:
                        elements.add(sm[0] + ('/' + sm[2] if sm[0] == 'list' else ''))
                    Y = cdr[0].result
                    for st2, nk2, how2, w2 in set(LIST):
                        LIST.add((st2, 'pair', 'cons', w))
                elif base == X:
                    sm2 = apply(sm, f, p, base)
                    LIST.add((sm2[1], sm2[2], 'terminator:%s' % sm[0] if sm2[1] == SUCCESS else 'error', w))
                else:
                    raise _Shape('list path %s' % p.describe(3))
        if P == P0 and LIST == L0:
            break
    else:
        raise _Shape('no fixpoint')

    # ---- F1: only a closing parenthesis ends a list -----------------------------------------------------
    bad = [(how, w) for st, nk, how, w in LIST if how.startswith('terminator:') and how != 'terminator:close']
    ck.verdict(not bad, 'C20.f', 'sx_parse_list:end-of-list', bad[0][1] if bad else where_list,
               'the only successful return of sx_parse_list that ends a list is taken on a ")" token' if not bad else
               'the end-of-list return is also taken for a value of origin "%s": a complete nested "()" (value: SUCCESS, empty list) is indistinguishable '
               'from the ")" token and ends the enclosing list, e.g. "(a () b)" reads as (a)' % bad[0][0].split(':')[1])
    badp = [(w, d) for w, d in positions if d is None or not (d.is_const() and d.c == 1)]
    ck.verdict(bool(positions) and not badp, 'C20.f', 'sx_parse_list:end-position', badp[0][0] if badp else where_list,
               'a finished list reports the position just past its ")"' if positions and not badp else
               ('the position reported for a finished list is the position of its ")" %s, expected + 1' % ('+ %s' % badp[0][1] if badp and badp[0][1] is not None else '(not recognised)')
                if positions else 'no path ends a list on a ")" token'))
    # ---- F2: every kind of expression is accepted as a list element ---------------------------------------
    need = {'int', 'hex', 'sym', 'list/empty', 'list/pair'}
    miss = sorted(need - elements)
    ck.verdict(not miss, 'C20.f', 'sx_parse_list:elements', where_list,
               'integers, hex integers, symbols, empty and non-empty lists all reach sx_cons as elements' if not miss else
               'no path links a successful %s as a list element' % ', '.join(miss))
    # ---- F3: a lone ")" is not an expression --------------------------------------------------------------
    TOP = set()
    for p in PL['sx_parse']:
        base, f = fields(p.ret)
        for sm in P:
            if sat(p.cond_terms(), base, sm):
                TOP.add(apply(sm, f, p, base))
    stray = [sm for sm in TOP if sm[0] == 'close' and sm[1] == SUCCESS]
    ck.verdict(not stray, 'C20.f', 'sx_parse:stray-close', cast.where(u.fn('sx_parse')),
               'a ")" that closes nothing is reported as an error' if not stray else
               'input beginning with ")" is returned as SUCCESS with an empty-list tree (the tokenizer\'s end-of-list value escapes to the top level)')
    notree = [sm for sm in TOP if sm[1] == SUCCESS and sm[2] == 'null']
    ck.verdict(not notree, 'C20.f', 'sx_parse:success-without-tree', cast.where(u.fn('sx_parse')),
               'SUCCESS is never returned without a tree (empty or exhausted input is an error status)' if not notree else
               'input of origin "%s" (nothing but whitespace up to the end of the input) is returned as SUCCESS with no tree' % notree[0][0])
    leak = [sm for sm in TOP if sm[1] not in (SUCCESS, FOUND) and sm[2] != 'null']
    ck.verdict(not leak, 'C20.f', 'sx_parse:error-without-tree', cast.where(u.fn('sx_parse')),
               'every error summary of sx_parse carries no tree' if not leak else 'error status %d returned together with a %s node' % (leak[0][1], leak[0][2]))
    freed = sorted(set('%s (status %d)' % (sm[0], sm[1]) for sm in (P | TOP) if sm[2] == 'freed') |
                   set('list (status %s)' % st for st, nk, how, w in LIST if nk == 'freed'))
    ck.verdict(not freed, 'C20.f', 'reader:dangling-node', (dangling[0] if dangling and dangling[0] else cast.where(u.fn('sx_parse_'))),
               'no result of the reader still points to a node the same path gave back to the allocator (a released node is reset through sx_destroy)' if not freed else
               'the result for input of origin %s keeps the pointer to a node that was passed to free() on the same path: the caller destroys it again '
               '(sx_parse calls sx_destroy on every error result) - a double free on e.g. a stray ")"' % ', '.join(freed))
    ck.floor('C20.f', 'result summaries', len(TOK) + len(P) + len(LIST), 12)


# libc functions by how far they read through a pointer argument
NUL_SEEKING = {'strlen': (0,), 'strcpy': (1,), 'strlcpy': (1,), 'strlcat': (1,), 'strcat': (1,), 'strdup': (0,), 'strcmp': (0, 1),
               'strchr': (0,), 'strrchr': (0,), 'strstr': (0, 1), 'strtoul': (0,), 'strtoull': (0,), 'strtol': (0,), 'strtoll': (0,),
               'atoi': (0,), 'atol': (0,), 'sscanf': (0,), 'strspn': (0,), 'strcspn': (0,), 'strpbrk': (0,), 'puts': (0,), 'printf': ()}
LEN_BOUNDED = {'memcpy': (1, 2), 'memmove': (1, 2), 'memcmp': (0, 2), 'memchr': (0, 2), 'strncmp': (0, 2), 'strnlen': (0, 1),
               'strncpy': (1, 2)}      # callee -> (pointer argument, count argument): reads at most count octets


def rule_g(ck, u):
    """C20.g  the input window (s, length) never escapes to code that reads up to a NUL.

    Every function of the unit that receives the input as (pointer, length) is walked; wherever a pointer
    into the window is passed on, the callee must either be a unit function taking its own (pointer,
    length) pair that lies inside the caller's window, or a libc function that reads a stated count that
    lies inside it.  Functions that read until a NUL are a violation: a length-delimited input has none."""
    eng = sym.Engine(u, sizeof={}, inline=set())
    # window functions: a `const char *` parameter immediately followed by a size parameter
    WIN = {}
    for name, f in sorted(u.functions.items()):
        fl, _ = cast.node_loc(f)
        if not fl or not fl.endswith('sx.c') or u.body(name) is None:
            continue
        ps = u.params(name)
        for k in range(len(ps) - 1):
            q0 = cast.qual_type(ps[k]).replace('const ', '').strip()
            q1 = cast.qual_type(ps[k + 1]).replace('const ', '').strip()
            if q0 in ('char *',) and q1 in ('size_t', 'unsigned long'):
                WIN[name] = (k, k + 1, ps[k]['name'], ps[k + 1]['name'])
                break
    ck.floor('C20.g', 'functions receiving the input window', len(WIN), 10)
    nsite = 0
    for name, (pi, li, pn, ln) in sorted(WIN.items()):
        ck.function(name)
        Sx, Nx = ('v', pn), ('v', ln)
        try:
            ps = eng.paths(name)
        except (sym.Unsupported, sym.PathLimit) as e:
            ck.broken('C20.g', name, cast.where(u.fn(name)), 'path enumeration: %s' % e)
            continue
        ck.analysed['paths'] += len(ps)
        # loop positions: h <= length is inductive when the loop only steps by one under `h < length`
        inv = []
        for p in ps:
            if p.end != 'loopback' or not p.loops:
                continue
            lmap = p.loops[-1][1]
            facts = eng.path_facts(p)
            for k_, (h, pre) in lmap.items():
                nxt = p.mem.get(k_, h)
                if eng.entails(facts + [lin.le(L(h), L(Nx))], L(nxt) - L(Nx)):
                    inv.append((h, k_))
        bad_h = set()
        for p in ps:                       # an invariant candidate must survive every loopback path of its loop
            if p.end != 'loopback' or not p.loops:
                continue
            lmap = p.loops[-1][1]
            facts = eng.path_facts(p)
            for k_, (h, pre) in lmap.items():
                nxt = p.mem.get(k_, h)
                if not eng.entails(facts + [lin.le(L(h), L(Nx))], L(nxt) - L(Nx)):
                    bad_h.add(h)
        bad = None
        for p in ps:
            facts = eng.path_facts(p)
            for node, lmap in p.loops:
                for k_, (h, pre) in lmap.items():
                    if h not in bad_h and (h, k_) in inv:
                        facts = facts + [lin.le(L(h), L(Nx))]      # base: positions start inside the window (caller passes i <= n)
            for e in p.effects:
                if e.kind not in ('call', 'icall'):
                    continue
                for ai, a in enumerate(e.args):
                    a0 = strip(a)
                    if not (a0 == Sx or (a0[0] in ('+', '-') and L(a0).t.get(Sx) == 1)):
                        continue
                    nsite += 1
                    off = L(a0) - L(Sx)
                    if e.name in NUL_SEEKING:
                        bad = ('%s at %s reads through %s until it meets a NUL; the input is only known to hold %s octets '
                               '(a token at the end of a length-delimited input is read beyond its last octet)'
                               % (e.name, e.where(), fmt(a), ln))
                    elif e.name in LEN_BOUNDED:
                        pa, ca = LEN_BOUNDED[e.name]
                        if ai == pa and not eng.entails(facts, off + L(e.args[ca]) - L(Nx)):
                            bad = '%s at %s reads %s octets from %s, not provably inside the %s octets of the input' % (e.name, e.where(), fmt(e.args[ca]), fmt(a), ln)
                        dst = strip(e.args[0])
                        if e.name in ('memcpy', 'memmove') and ai == 1 and dst[0] == 'call' and dst[1] == 'calloc':
                            room = sym.mk_bin('*', dst[2][0], dst[2][1]) if not sym.is_c(dst[2][1], 1) else dst[2][0]
                            if not eng.entails(facts, L(e.args[ca]) + 1 - L(room)):
                                bad = ('%s at %s copies %s octets of text into a block of %s: no room is proved for the terminating NUL '
                                       '(the symbol is later read as a C string)' % (e.name, e.where(), fmt(e.args[ca]), fmt(room)))
                    elif e.name in WIN:
                        cpi, cli = WIN[e.name][0], WIN[e.name][1]
                        if ai != cpi:
                            bad = '%s at %s receives the input as argument %d' % (e.name, e.where(), ai)
                        elif not eng.entails(facts, off + L(e.args[cli]) - L(Nx)):
                            bad = ('%s at %s is given the window (%s, %s), not provably inside the caller\'s %s octets'
                                   % (e.name, e.where(), fmt(a), fmt(e.args[cli]), ln))
                    else:
                        ck.broken('C20.g', '%s:%s' % (name, e.name), e.where(), 'input pointer passed to %s, whose reading behaviour this rule does not know' % e.name)
        ck.verdict(bad is None, 'C20.g', name, cast.where(u.fn(name)),
                   'pointers into the input are passed on only with a length inside the window' if bad is None else bad)
    ck.floor('C20.g', 'sites passing the input on', nsite, 10)


def rule_h(ck, u):
    """C20.h character classes: strchr(table, c) also finds the terminating NUL of the table, so a membership test written
    with it holds for c == 0 unless the path excludes that value first.  The reader works on length-delimited input, where
    a NUL octet is an ordinary (and, for the grammar, illegal) character."""
    eng = sym.Engine(u, sizeof={}, inline=set())
    n = 0
    fns = [f for f in u.functions_in_file('sx.c') if u.body(f) is not None]
    for fn in sorted(fns):
        body = u.body(fn)
        if not any(cast.callee_name(c) in ('strchr', 'strrchr', 'index') for c in cast.calls_in(body)):
            continue
        try:
            ps = eng.paths(fn)
        except (sym.Unsupported, sym.PathLimit) as e:
            ck.broken('C20.h', fn, cast.where(u.fn(fn)), 'path enumeration: %s' % e)
            continue
        bad = None
        for p in ps:
            for e in p.calls():
                if e.name not in ('strchr', 'strrchr', 'index'):
                    continue
                n += 1
                c = e.args[1]
                while c[0] == 'cast':
                    c = c[2]
                facts = eng.path_facts([x for x in p.cond_terms() if not sym.contains(x, e.result)])
                nz = eng.entails(facts, L(c) + 1) or eng.entails(facts, Lin.const(1) - L(c)) or \
                    any(x == ('cmp', '!=', c, C(0)) or x == ('cmp', '!=', ('cast', 'int', c), C(0)) for x in p.cond_terms())
                if not nz:
                    bad = ('membership test %s(%s, %s) is reached with %s possibly 0: the search finds the table\'s terminator, so the '
                           'NUL octet belongs to the class (a length-delimited input containing NUL is then read as a symbol)'
                           % (e.name, fmt(e.args[0]), fmt(e.args[1]), fmt(c)))
        ck.verdict(bad is None, 'C20.h', fn, cast.where(u.fn(fn)),
                   'every strchr membership test excludes the NUL octet first' if bad is None else bad)
    # the symbol-initial class is such a test today; if the idiom disappears altogether there is nothing to decide
    if n == 0:
        ck.holds('C20.h', 'no-strchr-classes', UNIT, 'no character class is decided by a string search')


C_LOCALE = {'isspace': set([9, 10, 11, 12, 13, 32]), 'isdigit': set(range(48, 58)),
            'isxdigit': set(range(48, 58)) | set(range(65, 71)) | set(range(97, 103)),
            'isalpha': set(range(65, 91)) | set(range(97, 123)), 'isalnum': set(range(48, 58)) | set(range(65, 91)) | set(range(97, 123))}


def _octet_class(conds, is_subject, v):
    """truth of a conjunction of path conditions for the octet value v of the subject (the classified character):
    comparisons of the subject with constants, <ctype.h> classes (call or classification-table form, "C" locale);
    None if a condition about the subject has a form this evaluation does not read; conditions that do not mention the
    subject are not the character's business (True)."""
    sv = v if v < 128 else v - 256             # plain char is signed in this build; the casts below see through both
    def val(t):
        t0 = t
        while t0[0] == 'cast':
            t0 = t0[2]
        if is_subject(t0):
            if t[0] == 'cast' and 'unsigned' in str(t[1]):
                return v
            return sv
        if sym.is_c(t0):
            return t0[1]
        return None
    for c in conds:
        if not any(is_subject(x) for x in sym.subterms(c)):
            continue
        if c[0] != 'cmp':
            return None
        lhs, rhs = c[2], c[3]
        cls = None
        l0 = lhs
        while l0[0] == 'cast':
            l0 = l0[2]
        if l0[0] == '&b' and sym.is_c(l0[2]) and '__ctype_b_loc' in fmt(l0[1]):
            cls = ctype_masks().get(l0[2][1])
        elif l0[0] == 'call' and l0[1] in C_LOCALE:
            cls = l0[1]
        if cls is not None:
            if cls not in C_LOCALE or not sym.is_c(rhs) or rhs[1] != 0 or c[1] not in ('==', '!='):
                return None
            member = v in C_LOCALE[cls]
            if member != (c[1] == '!='):
                return False
            continue
        a, b = val(lhs), val(rhs)
        if a is None or b is None:
            return None
        if not {'==': a == b, '!=': a != b, '<': a < b, '<=': a <= b, '>': a > b, '>=': a >= b}[c[1]]:
            return False
    return True


def rule_i(ck, u):
    """C20.i  Whitespace between tokens round-trips: every octet skip_ws() passes over as whitespace in front of a token also
    ENDS the token before it (nextisdelimiter).  The two sites are separate classifications; if one knows six whitespace
    octets and the other four, `(a\vb)` - printed form plus arbitrary inter-token whitespace - is a broken symbol.  Both
    sets are read off the path conditions, octet by octet ("C" locale for the <ctype.h> classes)."""
    eng = sym.Engine(u, sizeof={}, inline=set())
    where = cast.where(u.fn('skip_ws'))
    if u.fn('nextisdelimiter') is None:
        return ck.broken('C20.i', 'delimiters', where, 'nextisdelimiter missing (anchor vanished)')
    pw = [p for p in eng.paths('skip_ws') if p.end == 'loopback']
    pd = [p for p in eng.paths('nextisdelimiter') if p.end == 'return']
    if not pw or not pd:
        return ck.broken('C20.i', 'delimiters', where, 'no skipping iteration / no classification path found')
    is_s = lambda t: t[0] == 'i' and strip(t[1]) == S          # s[...]
    is_c_ = lambda t: t == ('v', 'c')
    W, D = set(), set()
    for v in range(256):
        for p in pw:
            r = _octet_class(p.cond_terms(), is_s, v)
            if r is None:
                return ck.broken('C20.i', 'delimiters', where, 'skip_ws decides on a form this rule does not read: %s' % '; '.join(fmt(c) for c in p.cond_terms()))
            if r:
                W.add(v)
        for p in pd:
            r = _octet_class(p.cond_terms(), is_c_, v)
            if r is None or p.ret is None or not sym.is_c(strip(p.ret)):
                return ck.broken('C20.i', 'delimiters', cast.where(u.fn('nextisdelimiter')), 'nextisdelimiter decides on a form this rule does not read: %s' % '; '.join(fmt(c) for c in p.cond_terms()))
            if r and strip(p.ret)[1] != 0:
                D.add(v)
    if not W:
        return ck.broken('C20.i', 'delimiters', where, 'skip_ws skips no octet at all')
    miss = sorted(W - D)
    ck.verdict(not miss, 'C20.i', 'delimiters', where,
               'every octet skipped as whitespace (%s) also ends the token before it (delimiters: %s)' % (sorted(W), sorted(D)) if not miss else
               'skip_ws() skips the octets %s as whitespace in front of a token, but nextisdelimiter() does not take them for the end of the token before: '
               'an atom followed by one of them (0x%02x) is a broken symbol / integer although the same octet is accepted everywhere else' % (miss, miss[0]))


def run(ck):
    ck.rule('C20.h', 'character classes decided by strchr(table, c) exclude c == 0 first (the search finds the terminator)')
    ck.rule('C20.e', 'token table: classification decision list, one parser arm per class with the right failure status, (offset, digit predicate, base) per integer syntax, positional value accumulation, symbol text window')
    ck.rule('C20.a', 'index bounds: every read s[e] in skip_ws, looking_at, parse_symbol, parse_integer_ is entailed below n by the dominating guards (call-site precondition i < n checked in sx_parse_token; backward digit loop in the exception table)')
    ck.rule('C20.b', 'clang static analyzer core.NullDereference reports nothing on sx.c (armed channel; must fire on the kept positive example)')
    ck.rule('C20.c', 'digit table: every character the digit predicate of a parse_integer_ call accepts has a digit2int value below the base')
    ck.rule('C20.d', 'ownership: result_is_error = not in {SUCCESS, FOUND_LIST}; sx_parse destroys the partial tree on every error; sx_parse_list links/returns every node it obtained; sx_destroy frees everything')
    ck.rule('C20.g', 'the input window (pointer, length) is passed on only to unit functions with a (pointer, length) inside it or to libc functions reading a stated count inside it; never to a function that reads until a NUL')
    ck.rule('C20.f', 'result summaries (origin, status, node kind) of sx_parse_token / sx_parse_ / sx_parse_list as a least fixpoint: only a ")" token ends a list, every expression kind is linked as an element, a stray ")" and every error carry no tree')
    ck.not_decided += ['parse(print(t)) == t over all trees (NOT APPLICABLE: recursive-parser round trip)', 'termination of the reader',
                       'precondition i <= n of the public entry points']
    ck.assumptions += ['callers pass a start position i <= n']
    u = cast.load(UNIT)
    ck.unit(UNIT)
    eng = sym.Engine(u, sizeof={}, inline=set())
    eng.record_loads = True
    for fn in ('skip_ws', 'looking_at', 'sx_parse_token', 'parse_symbol', 'parse_integer_', 'result_is_error', 'sx_parse', 'sx_parse_list', 'sx_destroy'):
        if u.fn(fn) is None:
            ck.broken('C20.a', fn, '', 'function missing (anchor vanished)')
            return
    for nm, rl in (('C20.a', lambda: rule_a(ck, u, eng)), ('C20.c', lambda: rule_c(ck, u, eng)), ('C20.d', lambda: rule_d(ck, u, eng)), ('C20.e', lambda: rule_e(ck, u))):
        try:
            if nm == 'C20.c' and u.fn('digit2int') is None:
                # the integer value is no longer computed by the table-driven loop this rule understands; what the code does
                # instead is judged by the other rules (notably C20.g for library calls on the input window)
                ck.broken('C20.c', 'digit2int', '', 'function missing (anchor vanished): digit values are computed some other way')
                continue
            rl()
        except (sym.Unsupported, sym.PathLimit, KeyError, IndexError, TypeError, AttributeError) as e:
            if os.environ.get('UFWSA_TRACE'):
                import traceback
                traceback.print_exc()
            ck.broken(nm, 'engine', UNIT, '%s: %s' % (type(e).__name__, e))
    try:
        rule_g(ck, u)
    except (sym.Unsupported, sym.PathLimit) as e:
        ck.broken('C20.g', 'engine', UNIT, str(e))
    try:
        rule_f(ck, u)
    except (sym.Unsupported, sym.PathLimit, _Shape) as e:
        ck.broken('C20.f', 'summaries', UNIT, 'result-summary analysis: %s' % e)
    ck.rule('C20.i', 'whitespace / delimiter agreement: every octet skip_ws passes over in front of a token also ends the token before it (sets read off the path conditions octet by octet)')
    try:
        rule_i(ck, u)
    except (sym.Unsupported, sym.PathLimit) as e:
        ck.broken('C20.i', 'engine', UNIT, str(e))
    rule_b(ck, u)
    rule_h(ck, u)
