"""C04 Table initialisation accepts exactly the well-formed tables.

a FLAGS  b GATE  c PRECEDENCE  d PREDICATES  e LINK  f CLEAR/DEFAULT.
Not decided: the exact accept/reject set over all layouts as a whole (it is the
conjunction of the predicates checked here, given the loop shapes); address
overflow base+size."""
from .. import cast, sym, lin
from .common import distinct_enums
from ..sym import C, fmt, linearize as L
from ..lin import Lin
from .common import loop_counter, base_name, pointer_walk
from .regs import Regs, T, strip_cast, size_facts, scan_rule, for_headers, wrap_free

FLAGS = ('f', T, 'flags')


def bit_state(term, base, bit, resolve):
    """state of flag `bit` in `term` relative to the initial flags `base`:
    0, 1, 'same' (= initial) or None (unknown)"""
    t = term
    while t[0] == 'cast':
        t = t[2]
    if t == base:
        return 'same'
    if t[0] == 'c':
        return 1 if t[1] & bit else 0
    if t[0] == 'h':
        r = resolve(t)
        return bit_state(r, base, bit, resolve) if r is not None else None
    if t[0] in ('&b', '|b'):
        a, b = t[1], t[2]
        ca = a[1] if a[0] == 'c' else None
        cb = b[1] if b[0] == 'c' else None
        if ca is not None and cb is None:
            a, b, ca, cb = b, a, cb, ca
        if cb is None:
            return None
        sa = bit_state(a, base, bit, resolve)
        if t[0] == '&b':
            return sa if (cb & bit) else 0
        return 1 if (cb & bit) else sa
    return None


def code_of(ret):
    return dict(ret[2]).get('code') if ret is not None and ret[0] == 'struct' else None


def flag_writers(u):
    """functions that assign the flags field of a RegisterTable"""
    out = {}
    for name, f in u.functions.items():
        for x in cast.walk(f):
            kd = cast.kind(x)
            tgt = None
            if kd == 'BinaryOperator' and x.get('opcode') == '=':
                tgt = x['inner'][0]
            elif kd == 'CompoundAssignOperator':
                tgt = x['inner'][0]
            if tgt is None:
                continue
            t0 = cast.strip_all_casts(tgt)
            if cast.kind(t0) == 'MemberExpr' and t0.get('name') == 'flags':
                bt = t0['inner'][0].get('type', {}).get('qualType', '')
                if 'RegisterTable' in bt:
                    out.setdefault(name, cast.where(x))
    return out


def rule_a(ck, R, eng, ps):
    where = R.where('register_init')
    E = R.E
    INIT, DURING = E['REG_TF_INITIALISED'], E['REG_TF_DURING_INIT']
    # who may write t->flags
    fw = flag_writers(R.u)
    allowed = {'register_init', 'register_make_bigendian'}
    extra = set(fw) - allowed
    ck.verdict(not extra, 'C04.a', 'flags:writers', where,
               'only register_init and register_make_bigendian assign RegisterTable.flags (so nothing register_init calls changes them)'
               if not extra else 'RegisterTable.flags also assigned in %s at %s' % (sorted(extra)[0], fw[sorted(extra)[0]]))
    mb = R.paths('register_make_bigendian', 'C04.a')
    if mb is not None:
        okb = True
        for p in mb:
            v = p.mem.get(FLAGS, FLAGS)
            for bit in (INIT, DURING):
                if bit_state(v, FLAGS, bit, lambda h: None) != 'same':
                    okb = False
        ck.verdict(okb, 'C04.a', 'flags:make_bigendian', R.where('register_make_bigendian'), 'register_make_bigendian leaves INITIALISED and DURING_INIT alone' if okb else 'register_make_bigendian touches the init flags')
    # loopback paths keep the flags
    for p in ps:
        if p.end == 'loopback':
            st = [e for e in p.stores() if e.name == FLAGS and e.inloop]
            if st:
                ck.violation('C04.a', 'flags:loop', st[0].where(), 'flags modified on a path that continues looping')

    def resolve_for(p):
        loopmap = {}
        for ln, lmap in p.loops:
            for k, (h, pre) in lmap.items():
                loopmap[h] = pre
        def resolve(h):
            if h in eng.clobber_pre:
                v = eng.clobber_pre[h]
                return v
            if h in loopmap and loopmap[h] is not None:
                return loopmap[h]
            return None
        return resolve
    nfail = nok = 0
    early = 0
    managed = {}
    for p in ps:
        if p.end != 'return':
            continue
        cd = code_of(p.ret)
        v = sym.mem_read(p.mem, FLAGS)
        res = resolve_for(p)
        si = bit_state(v, FLAGS, INIT, res)
        sd = bit_state(v, FLAGS, DURING, res)
        key = 'flags:%s:%d' % (fmt(cd) if cd else '?', len(p.loops))
        if cd == C(E['REG_INIT_SUCCESS']):
            nok += 1
            for bn, bv in R.u.enum_decls.get('RegisterTableFlags', []):
                if bv and bv not in (INIT, DURING):
                    managed.setdefault(bn, {}).setdefault(bit_state(v, FLAGS, bv, res), p)
            ck.verdict(si == 1 and sd == 0, 'C04.a', key + ':success', cast.where(p.node) if p.node else where,
                       'success leaves INITIALISED=1, DURING_INIT=0' if si == 1 and sd == 0 else
                       'success leaves INITIALISED=%s DURING_INIT=%s' % (si, sd))
        elif cd == C(E['REG_INIT_TABLE_INVALID']):
            early += 1
            tnull = any(c == ('cmp', '==', T, C(0)) for c in p.cond_terms())
            if tnull:
                ok = v == FLAGS and not p.calls()
                ck.verdict(ok, 'C04.a', key + ':%d' % early, cast.where(p.node) if p.node else where,
                           'null table pointer: refused without touching anything' if ok else 'TABLE_INVALID for a null table after touching it')
            else:
                # a table object without area or entry list has no area: initialisation fails, and a table that an earlier
                # call initialised must not stay usable (re-initialisation history)
                ok = si == 0 and sd in (0, 'same') and not p.calls()
                ck.verdict(ok, 'C04.a', key + ':%d' % early, cast.where(p.node) if p.node else where,
                           'missing area/entry list: refused with INITIALISED cleared' if ok else
                           'TABLE_INVALID for a table without area/entry list returns with INITIALISED=%s: a table initialised by an earlier call '
                           'stays marked initialised although this initialisation failed, and every operation keeps working on it '
                           '(block reads then dereference the null area list)' % si)
        else:
            nfail += 1
            ok = si == 0 and sd == 0
            ck.verdict(ok, 'C04.a', key, cast.where(p.node) if p.node else where,
                       'failure %s leaves INITIALISED=0, DURING_INIT=0' % fmt(cd) if ok else
                       'failure code %s returns with INITIALISED=%s DURING_INIT=%s (operations would treat the half-initialised table as usable / still in init)'
                       % (fmt(cd) if cd else None, si, sd))
    ck.floor('C04.a', 'failing returns of register_init', nfail, 9)
    # a flag that register_init itself sets is knowledge about the table it has just looked at (a cached fact the other
    # functions branch on): every successful initialisation has to define it - set or cleared - from the table as it is
    # now.  Left as an EARLIER initialisation set it, it describes a table that may have been edited in between.
    for bn, states in sorted(managed.items()):
        if (1 in states or 0 in states) and 'same' in states:
            p_ = states['same']
            ck.violation('C04.a', 'flags:managed:%s' % bn, where,
                         'register_init %s the table flag %s on some of its successful paths and leaves it as it was on others (e.g. under {%s}): after a '
                         're-initialisation of an edited table the flag still says what held for the table of the earlier initialisation, and the functions '
                         'that go by it (BIT_ISSET(t->flags, %s)) act on that' % ('sets' if 1 in states else 'clears', bn,
                                                                               '; '.join(fmt(c) for c in p_.cond_terms()[-3:])[:200], bn))
        elif 1 in states or 0 in states:
            ck.holds('C04.a', 'flags:managed:%s' % bn, where, 'register_init defines %s on every successful path' % bn)
    ck.floor('C04.a', 'success returns of register_init', nok, 1)


def rule_b(ck, R):
    E = R.E
    INIT = E['REG_TF_INITIALISED']
    eng = sym.Engine(R.u, sizeof=R.so, inline=set())
    n = 0
    for fn in ('register_setx', 'register_get', 'register_default', 'register_block_read', 'register_block_write',
               'register_foreach_in', 'register_sanitise', 'register_user_init',
               # public block-level entry points that walk the area list themselves (the *_unsafe variants are documented
               # as unchecked and are not meant here)
               'register_block_touches_hole', 'register_set_from_hexstr'):
        ps = R.paths(fn, 'C04.b', eng)
        if ps is None:
            continue
        n += 1
        bad = None
        un = 0
        for p in ps:
            conds = p.cond_terms()
            first = conds[0] if conds else None
            if not (first is not None and first[0] == 'cmp' and first[1] in ('==', '!=') and first[2] == ('&b', FLAGS, C(INIT)) and first[3] in (C(INIT), C(0))):
                bad = 'first decision is %s, not the INITIALISED test' % (fmt(first) if first else None)
                continue
            # the bit is a single bit: (flags & INIT) != INIT and (flags & INIT) == 0 both say "not initialised"
            uninit = (first[1] == '!=') == (first[3] == C(INIT))
            if uninit:
                un += 1
                if code_of(p.ret) != C(E['REG_ACCESS_UNINITIALISED']):
                    bad = 'uninitialised table answered with %s' % fmt(code_of(p.ret) or C(-1))
                if [e for e in p.effects if e.kind in ('call', 'icall', 'load')]:
                    bad = 'table accessed before answering UNINITIALISED'
        if un == 0 and bad is None:
            bad = 'no UNINITIALISED answer'
        ck.verdict(bad is None, 'C04.b', fn, R.where(fn), 'tests INITIALISED first and answers UNINITIALISED without any access' if bad is None else bad)
    ck.floor('C04.b', 'gated public operations', n, 10)
    # the remaining public entry points reach the table only through gated ones
    for fn, via in (('register_set', 'register_setx'), ('register_set_unsafe', 'register_setx'), ('register_bit_set', 'register_get'),
                    ('register_bit_clear', 'register_get'), ('register_compare', 'register_get')):
        ps = R.paths(fn, 'C04.b', eng)
        if ps is None:
            continue
        ok = all(p.calls() and p.calls()[0].name == via for p in ps)
        ck.verdict(ok, 'C04.b', fn, R.where(fn), 'first action is the gated %s' % via if ok else 'reaches the table before calling %s' % via)


def loop_roles(R, ps):
    """{id(loop node): role} of the loops of register_init, by what their iterations do - not by their position:
    'area-order' / 'entry-order' (an iteration can end initialisation with the area / entry order or overlap code),
    'clear' (zeroes area memory), 'check' (containment test and default loading), 'link' (searches the next area's first
    entry).  A loop moved, or moved into a helper, keeps its role."""
    codes = {v: n for n, v in R.u.enum_decls.get('RegisterInitCode', [])}
    roles = {}
    for p in ps:
        if not p.loops:
            continue
        node = p.loops[-1][0]
        inl = [e for e in p.calls() if e.inloop]
        cd = code_of(p.ret) if p.end == 'return' else None
        nm = codes.get(cd[1]) if cd is not None and cd[0] == 'c' else None
        if nm in ('REG_INIT_AREA_INVALID_ORDER', 'REG_INIT_AREA_ADDRESS_OVERLAP'):
            roles.setdefault(id(node), 'area-order')
        elif nm in ('REG_INIT_ENTRY_INVALID_ORDER', 'REG_INIT_ENTRY_ADDRESS_OVERLAP'):
            roles.setdefault(id(node), 'entry-order')
        elif nm in ('REG_INIT_ENTRY_IN_MEMORY_HOLE', 'REG_INIT_ENTRY_INVALID_DEFAULT'):
            roles[id(node)] = 'check'
        if p.end == 'loopback':
            names = {e.name for e in inl}
            if 'memset' in names and id(node) not in roles:
                roles[id(node)] = 'clear'
            if 'ra_first_entry_of_next' in names and id(node) not in roles:
                roles[id(node)] = 'link'
            if names & {'reg_entry_is_in_memory', 'register_set', 'register_set_unsafe', 'register_setx'} and roles.get(id(node)) in (None, 'clear'):
                roles[id(node)] = 'check'
    return roles


def role_seq(roles, p, drop=('clear', 'link', None)):
    return [roles.get(id(nd)) for nd, _ in p.loops if roles.get(id(nd)) not in drop]


def rule_cd(ck, R, eng, ps):
    where = R.where('register_init')
    E = R.E
    # which checks have been passed when a code is decided (the loops that zero memory or link entries decide nothing and
    # may stand anywhere between them)
    expect_loops = {'REG_INIT_TOO_MANY_AREAS': [], 'REG_INIT_TOO_MANY_ENTRIES': [], 'REG_INIT_NO_AREAS': [],
                    'REG_INIT_AREA_INVALID_ORDER': ['area-order'], 'REG_INIT_AREA_ADDRESS_OVERLAP': ['area-order'],
                    'REG_INIT_ENTRY_INVALID_ORDER': ['area-order', 'entry-order'], 'REG_INIT_ENTRY_ADDRESS_OVERLAP': ['area-order', 'entry-order'],
                    'REG_INIT_ENTRY_IN_MEMORY_HOLE': ['area-order', 'entry-order', 'check'], 'REG_INIT_ENTRY_INVALID_DEFAULT': ['area-order', 'entry-order', 'check']}
    roles = loop_roles(R, ps)
    byname = {}
    for p in ps:
        cd = code_of(p.ret)
        if p.end == 'return' and cd is not None and cd[0] == 'c':
            nm = [n for n, v in R.u.enum_decls.get('RegisterInitCode', []) if v == cd[1]]
            if nm:
                byname.setdefault(nm[0], []).append(p)
    rv = ('v', 'rv')
    for nm, nloops in expect_loops.items():
        lst = byname.get(nm, [])
        if not lst:
            ck.violation('C04.c', 'code:' + nm, where, 'no path reports %s' % nm)
            continue
        bad = None
        for p in lst:
            if role_seq(roles, p) != nloops:
                bad = '%s is decided after the checks %s, expected %s (order of the rule checks changed)' % (nm, role_seq(roles, p), nloops)
            pos = None
            for e_ in p.stores():
                if e_.name[0] == 'f' and e_.name[1] == ('&', ('f', ('&', rv), 'pos')):
                    pos = e_.args[0]
            if nloops:
                lmap = p.loops[-1][1]
                idx = [h for k, h, pre in loop_counter(ps, p)]
                if pos is None or strip_cast(pos) not in idx:
                    bad = bad or '%s reports position %s, not the index of the offending item' % (nm, fmt(pos) if pos else None)
        ck.verdict(bad is None, 'C04.c', 'code:' + nm, where, '%s decided after the checks %s, reporting the loop index' % (nm, nloops or 'none') if bad is None else bad)
    # area count == 0 -> NO_AREAS ; counts at maximum -> TOO_MANY
    for nm, cond_txt in (('REG_INIT_NO_AREAS', 'areas == 0'),):
        lst = byname.get(nm, [])
        ok = any(any('reg_count_areas' in fmt(c) and c[1] == '==' and c[3] == C(0) for c in p.cond_terms() if c[0] == 'cmp') for p in lst)
        ck.verdict(ok, 'C04.d', 'pred:no-areas', where, 'a table without areas is refused' if ok else 'NO_AREAS not conditioned on area count == 0')
    # order / overlap predicates with the loop invariant previous == item[i-1]
    for group, arr, sizeexpr, order_nm, overlap_nm in (
            ('area-order', 'area', 'size', 'REG_INIT_AREA_INVALID_ORDER', 'REG_INIT_AREA_ADDRESS_OVERLAP'),
            ('entry-order', 'entry', None, 'REG_INIT_ENTRY_INVALID_ORDER', 'REG_INIT_ENTRY_ADDRESS_OVERLAP')):
        fieldname = 'base' if arr == 'area' else 'address'
        op = [p for p in byname.get(order_nm, [])]
        ov = [p for p in byname.get(overlap_nm, [])]
        lb = [p for p in ps if p.end == 'loopback' and p.loops and roles.get(id(p.loops[-1][0])) == group]
        bad = None
        if not op or not ov or not lb:
            ck.violation('C04.d', 'pred:%s' % arr, where, 'order/overlap/continue paths of the %s loop not found' % arr)
            continue
        lmap = lb[0].loops[-1][1]
        hi = loop_counter(ps, lb[0])
        # the comparison value: the loop variable (not the index) that carries item[i].field into the next iteration
        hp = []
        if hi:
            cur0 = ('f', sym.add(('f', T, arr), hi[0][1]), fieldname)
            hp = [(k, h, pre) for k, (h, pre) in lmap.items() if k != hi[0][0] and pre is not None and strip_cast(sym.mem_read(lb[0].mem, k, h)) == cur0]
            if not hp:
                hp = [(k, h, pre) for k, (h, pre) in lmap.items() if k != hi[0][0] and pre is not None
                      and strip_cast(pre) in (('f', ('f', T, arr), fieldname), ('f', sym.add(('f', T, arr), C(0)), fieldname))]
        if hi and not hp:
            ck.violation('C04.d', 'pred:%s' % arr, where,
                         'the comparison value is not updated inside the %s loop: every item is compared with the first one instead of its predecessor' % arr)
            continue
        if not hi or not hp:
            ck.broken('C04.d', 'pred:%s' % arr, where, 'loop variables not recognised')
            continue
        (ki, i_h, i_pre), (kp, p_h, p_pre) = hi[0], hp[0]
        arrp = ('f', T, arr)
        cur = ('f', sym.add(arrp, i_h), fieldname)
        # invariant previous == item[i-1].field : base and step
        base_ok = i_pre == C(1) and p_pre == ('f', arrp, fieldname) or p_pre == ('f', sym.add(arrp, C(0)), fieldname)
        step_ok = all(sym.mem_read(p.mem, kp, p_h) == cur and (L(sym.mem_read(p.mem, ki, i_h)) - L(i_h)).c == 1 for p in lb)
        if not (base_ok and step_ok):
            bad = '`previous` is not maintained as the %s of item i-1 (starts at %s with i=%s)' % (fieldname, fmt(p_pre) if p_pre else None, fmt(i_pre) if i_pre else None)
        # order: cur < previous
        for p in op:
            if not any(c == ('cmp', '<', cur, p_h) for c in p.cond_terms()):
                bad = bad or 'INVALID_ORDER is not decided by item[i].%s < previous' % fieldname
        # overlap: cur < previous + size(item[i-1]) strict - decided by entailment, so that the test may be written as a
        # difference (cur - previous < size) as well as a sum
        def size_atoms(p):
            out = []
            for c in p.cond_terms():
                for atom in sym.subterms(eng.expand(c)):
                    item = None
                    if arr == 'area' and atom[0] == 'f' and atom[2] == 'size':
                        item = atom[1]
                    if arr == 'entry' and atom[0] == 'i' and 'rds_size' in fmt(atom[1]) and atom[2][0] == 'f' and atom[2][2] == 'type':
                        item = atom[2][1]
                    if item is not None and (atom, item) not in out:
                        out.append((atom, item))
            return out

        def is_prev(item):
            di = L(item) - (L(arrp) + L(i_h) - 1)
            return di.is_const() and di.c == 0
        for p in ov:
            facts = eng.path_facts(p)
            okc = False
            for atom, item in size_atoms(p):
                if eng.entails(facts, L(cur) - L(p_h) - L(strip_cast(atom)) + 1) or eng.entails(facts, L(cur) - L(p_h) - L(atom) + 1):
                    if is_prev(item):
                        okc = True
                    else:
                        bad = bad or ('the overlap test adds the size of item %s to the previous %s; the end of the previous item needs the size of item i-1 '
                                      '(items of different size are mis-judged: a smaller successor overlapping by one word is accepted, a larger adjacent one rejected)'
                                      % (fmt(item), fieldname))
            if not okc:
                bad = bad or 'ADDRESS_OVERLAP is not decided by item[i].%s < previous + size(item[i-1]) (strict: adjacency allowed)' % fieldname
            if not any(c == ('cmp', '<=', p_h, cur) for c in p.cond_terms()):
                bad = bad or 'overlap test not preceded by the order test'
        for p in lb:
            facts = eng.path_facts(p)
            prevs = [atom for atom, item in size_atoms(p) if is_prev(item)]
            if not any(eng.entails(facts, L(p_h) + L(atom) - L(cur)) for atom in prevs):
                bad = bad or 'the loop continues without previous + size(item[i-1]) <= item[i].%s established (overlapping or adjacent-by-mistake items pass)' % fieldname
        # continuing path: neither
        for p in lb:
            if not any(c == ('cmp', '<=', p_h, cur) for c in p.cond_terms()):
                bad = bad or 'loop continues without item[i].%s >= previous established' % fieldname
        ck.verdict(bad is None, 'C04.d', 'pred:%s' % arr, where,
                   '%s loop: order = cur < prev, overlap = cur < prev + size(prev) (strict), prev tracks item i-1' % arr if bad is None else bad)
    # containment
    eng2 = R.eng
    psm = R.paths('reg_entry_is_in_memory', 'C04.d')
    if psm is not None and any(p.calls('ra_find_area_by_addr') for p in psm):
        # the area is found by the table's own look-up function: it is looked into, so that the path says which area
        from .regs import INLINE_SMALL
        eng2 = sym.Engine(R.u, sizeof=R.so, inline=set(INLINE_SMALL) | {'ra_find_area_by_addr', 'ra_addr_is_part_of', 'ra_reg_is_part_of', 'ra_reg_fits_into'})
        psm = R.paths('reg_entry_is_in_memory', 'C04.d', eng2)
    if psm is not None:
        bad = None
        okpath = 0
        e = ('v', 'e')
        A = L(('f', e, 'address'))
        for p in psm:
            facts = eng2.path_facts(p)
            if p.ret == C(1):
                okpath += 1
                areas = [x for c in p.cond_terms() for x in sym.subterms(c) if x[0] == 'f' and x[2] == 'base']
                if not areas:
                    bad = 'accepting path without an area'
                    continue
                ap = areas[0][1]
                base, size = L(('f', ap, 'base')), L(('f', ap, 'size'))
                Ss = [x for c in p.cond_terms() for x in sym.subterms(c) if x[0] == 'i' and 'rds_size' in fmt(x[1])]
                if not Ss:
                    bad = 'register size not used in the containment test'
                    continue
                S = L(Ss[0])
                if not (eng2.entails(facts, base - A) and eng2.entails(facts, A + S - base - size)):
                    bad = 'accepts a register without base <= address and address+size <= base+area size'
                fa = sym.mem_read(p.mem, ('f', e, 'area'))
                fo = sym.mem_read(p.mem, ('f', e, 'offset'))
                if fa != ap:
                    bad = 'entry linked to %s, not to the containing area' % fmt(fa)
                d = L(fo) - (A - base)
                if not (d.is_const() and d.c == 0):
                    bad = 'entry offset is %s, expected address - base' % fmt(fo)
            elif p.ret == C(0) and p.end == 'return':
                if [e_ for e_ in p.stores() if sym.rooted_at(e_.name, e)]:
                    bad = 'entry modified although it is not inside an area'
        if okpath == 0 and bad is None:
            bad = 'no accepting path'
        ck.verdict(bad is None, 'C04.d', 'pred:containment', R.where('reg_entry_is_in_memory'),
                   'a register is accepted only wholly inside one area and is then linked with offset = address - base' if bad is None else bad)


def rule_ef(ck, R, eng, ps):
    where = R.where('register_init')
    E = R.E
    # f: memset of memory-backed areas (loop 3) precedes default loading (loop 4)
    roles = loop_roles(R, ps)
    ms = [p for p in ps if p.calls('memset')]
    bad = None
    if not ms:
        bad = 'area memory is not cleared'
    # every path that loads a default (or reaches the containment / default loop) has been through the clearing loop
    for p in ps:
        seq = [roles.get(id(nd)) for nd, _ in p.loops]
        if 'check' in seq and ('clear' not in seq or seq.index('clear') > seq.index('check')):
            bad = bad or 'defaults are loaded (containment / default loop reached) without the area memory having been cleared before'
    AREAS = ('f', T, 'areas')
    for p in ms:
        m = p.calls('memset')[0]
        # the clearing loop runs over the areas of the table as it is NOW: its bound is the count this call has determined
        # (reg_count_areas), not the field as an earlier initialisation - or nobody - left it
        if m.inloop and p.loops:
            cl = [lm for nd, lm in p.loops if roles.get(id(nd)) == 'clear']
            idx = [h for k, h, pre in loop_counter(ps, p)] if roles.get(id(p.loops[-1][0])) == 'clear' else []
            for c in p.cond_terms():
                if c[0] == 'cmp' and c[1] == '<' and strip_cast(c[2]) in idx and strip_cast(c[3]) == AREAS:
                    bad = bad or ('the loop that zeroes the area memory runs while index < t->areas, read BEFORE this call has counted the areas (%s): it covers the areas of an '
                                  'earlier initialisation - none at all for a fresh table - and the words no default is loaded into keep what the memory held'
                                  % cast.where(m.node))
        ap = None
        if m.args[0][0] == 'f' and m.args[0][2] == 'mem':
            ap = m.args[0][1]
        if ap is None or m.args[1] != C(0):
            bad = 'memset(%s, %s, ..)' % (fmt(m.args[0]), fmt(m.args[1]))
            continue
        atom = R.so.get('RegisterAtom', 2)
        d = L(m.args[2]) - L(('f', ap, 'size')).scale(atom)
        if not (d.is_const() and d.c == 0):
            bad = 'clears %s octets, the area has size * %d' % (fmt(m.args[2]), atom)
        if not any(c == ('cmp', '!=', ('f', ap, 'mem'), C(0)) for c in p.cond_terms()):
            bad = 'clears area memory without testing mem != NULL'
    ck.verdict(bad is None, 'C04.f', 'clear', where, 'every memory-backed area is zeroed over its whole size before defaults are loaded' if bad is None else bad)
    # defaults through the checked register_set iff need_to_load_default
    bad = None
    seen_set = False
    for p in ps:
        if not p.loops or roles.get(id(p.loops[-1][0])) != 'check':
            continue
        rs = p.calls('register_set')
        uns = p.calls('register_set_unsafe') + p.calls('register_setx')
        if uns:
            bad = 'defaults loaded through an unchecked setter'
        if rs:
            seen_set = True
            lmap = p.loops[-1][1]
            idx = [h for k, h, pre in loop_counter(ps, p)]
            a = rs[0].args
            if a[0] != T or strip_cast(a[1]) not in idx:
                bad = 'register_set called for %s' % fmt(a[1])
            dv = a[2]
            txt = fmt(dv)
            if 'default_value' not in txt or 'type' not in txt:
                bad = 'value loaded is %s, expected {default_value, type} of the entry' % txt[:80]
            conds = [fmt(c) for c in p.cond_terms()]
            if not any('write != 0' in c for c in conds):
                bad = 'default loaded without a write callback test'
            skip = E['REG_AF_SKIP_DEFAULTS']
            if not any('flags & %d) != %d' % (skip, skip) in c for c in conds):
                bad = 'default loaded without honouring SKIP_DEFAULTS'
            failed = any(c[0] == 'cmp' and c[1] == '!=' and sym.contains(c[2], rs[0].result) and c[3] == C(E['REG_ACCESS_SUCCESS']) for c in p.cond_terms())
            if failed and code_of(p.ret) != C(E['REG_INIT_ENTRY_INVALID_DEFAULT']):
                bad = 'refused default does not end in ENTRY_INVALID_DEFAULT'
    if not seen_set and bad is None:
        bad = 'defaults never loaded'
    ck.verdict(bad is None, 'C04.f', 'defaults', where,
               'defaults are loaded through the checked register_set exactly for areas with a write callback and without SKIP_DEFAULTS; a refused default fails initialisation' if bad is None else bad)
    # INITIALISED set before default loading (register_set is gated) but DURING_INIT still on
    # e: link
    bad = None
    link = [p for p in ps if p.loops and roles.get(id(p.loops[-1][0])) == 'link' and p.end == 'loopback']
    pw = pointer_walk(eng, link)
    if pw:
        ck.broken('C04.e', 'link', where, 'the link loop steps the pointer %s; the rule reads index-based table walks only' % pw)
        link = None
    if link is not None and len(link) < 2:
        bad = 'area/entry link loop not found'
    origin = eng.clobber_origin
    ent_keys = set()
    for p0 in link or []:
        for nx in p0.calls('ra_first_entry_of_next'):
            for k, (h, pre) in p0.loops[-1][1].items():
                if strip_cast(sym.mem_read(p0.mem, k, h)) == nx.result:
                    ent_keys.add(k)
    for p0 in link or []:
        class _P:      # view of the path with 'clobbered' table fields mapped back (nothing in the loop restructures the table)
            pass
        p = _P()
        p.mem = {sym.substitute(k_, origin): sym.substitute(v_, origin) for k_, v_ in p0.mem.items()}
        p.loops = p0.loops
        p.cond_terms = lambda p0=p0: [sym.substitute(c_, origin) for c_ in p0.cond_terms()]
        subst_calls = {}

        def _calls(name, p0=p0):
            out = []
            for e_ in p0.calls(name):
                ne = sym.Effect(e_.kind, e_.name, tuple(sym.substitute(a_, origin) for a_ in e_.args), e_.node,
                                sym.substitute(e_.result, origin) if e_.result else None)
                out.append(ne)
            return out
        p.calls = _calls
        lmap = p.loops[-1][1]
        idx = [h for k, h, pre in loop_counter(ps, p0)]
        # the running entry index: the other loop variable, the one the link stores as entry.first / advances to the next area's first entry
        ent = [(k, h, pre) for k, (h, pre) in lmap.items() if k in ent_keys and h not in idx]
        if not idx or not ent:
            bad = 'link loop variables not recognised'
            continue
        ap = sym.add(('f', T, 'area'), idx[0])
        ke, he, pre_e = ent[0]
        first = sym.mem_read(p.mem, ('f', ('&', ('f', ap, 'entry')), 'first'))
        last = sym.mem_read(p.mem, ('f', ('&', ('f', ap, 'entry')), 'last'))
        count = sym.mem_read(p.mem, ('f', ('&', ('f', ap, 'entry')), 'count'))
        nxt = p.calls('ra_first_entry_of_next')
        if p.calls('ra_addr_is_part_of'):
            ents = [c for c in p.cond_terms() if c[0] == 'cmp' and strip_cast(c[2]) == he and 'entries' in fmt(c[3])]
            if not any(c[1] == '<' for c in ents):
                bad = bad or ('t->entry[running index].address is read on a path where index < t->entries is not established (%s): one element beyond the entry table is read'
                              % ('; '.join(fmt(c) for c in ents) or 'no test'))
        conds_txt = [fmt(c) for c in p.cond_terms()]
        in_area = any('ra_addr_is_part_of' in c and '!= 0' in c for c in conds_txt)
        if nxt and not in_area:
            # the search for the next area's first entry was made although the running entry does not lie in this area
            # (or there is none): what counts is what the iteration does with it - an empty area records 0/0/0 and leaves
            # the running index where it is
            if not (first == C(0) and last == C(0) and count == C(0)):
                bad = bad or 'area without a register of its own gets first/last/count = %s/%s/%s, expected 0/0/0' % (fmt(first), fmt(last), fmt(count))
            if sym.mem_read(p.mem, ke, he) != he:
                bad = bad or ('the running entry index moves on (to %s) for an area that holds no register: the entry it pointed at belongs to a later area and is '
                              'never linked into it (its area records one register too few, or none)' % fmt(sym.mem_read(p.mem, ke, he)))
        elif nxt:
            if first != he:
                bad = 'entry.first = %s, expected the running entry index' % fmt(first)
            if nxt[0].args[0] != T or nxt[0].args[1] != ap or L(nxt[0].args[2]) != L(he) + 1:
                bad = 'next-area search called with %s' % [fmt(a) for a in nxt[0].args]
            r = nxt[0].result
            if L(strip_cast(last)) != L(r) - 1:
                bad = 'entry.last = %s, expected next - 1' % fmt(last)
            if L(strip_cast(count)) != L(r) - L(he):
                bad = 'entry.count = %s, expected next - first' % fmt(count)
            if sym.mem_read(p.mem, ke, he) != r:
                bad = 'running entry index not advanced to the first entry of the next area'
            if pre_e != C(0):
                bad = 'entry index does not start at 0'
            conds = [fmt(c) for c in p.cond_terms()]
            if not any('ra_addr_is_part_of' in c and '!= 0' in c for c in conds):
                bad = 'area linked without testing that the running entry lies in it'
        else:
            if not (first == C(0) and last == C(0) and count == C(0)):
                bad = bad or 'empty area gets first/last/count = %s/%s/%s' % (fmt(first), fmt(last), fmt(count))
            if sym.mem_read(p.mem, ke, he) != he:
                bad = bad or 'entry index moves on an empty area'
    # ... and EVERY area gets its record: the link loop is left only once the area index has reached the area count.  A loop
    # that also ends when the registers run out leaves the areas behind the last register as they were - right for a
    # table initialised for the first time (static zeroes), stale after a re-initialisation with fewer registers.
    if link and bad is None:
        node = link[0].loops[-1][0]
        idxk = [k for k, h, pre in loop_counter(ps, link[0])]
        for q in ps:
            if q.end == 'loopback' or not idxk:
                continue
            lm = [m_ for n_, m_ in q.loops if n_ is node]
            if not lm or idxk[0] not in lm[0]:
                continue
            hq = lm[0][idxk[0]][0]           # this path's own atom for the area index (paths that split before the loop havoc it separately)
            if not eng.entails(eng.path_facts([sym.substitute(c_, origin) for c_ in q.cond_terms()]), L(('f', T, 'areas')) - L(hq)):
                ex = [fmt(c) for c in q.cond_terms() if sym.contains(c, hq)]
                bad = ('the link loop can be left before the area index has reached t->areas (exit under {%s}): the areas behind get no record in this initialisation - '
                       'after a re-initialisation with fewer registers they keep first / last / count of the previous one' % '; '.join(ex[-3:]))
                break
    if link is not None:
      ck.verdict(bad is None, 'C04.e', 'link', where,
               'each area records first = running index, last = next-1, count = next-first where next is the first later entry outside the area; empty areas 0/0/0' if bad is None else bad)
    psn = R.paths('ra_first_entry_of_next', 'C04.e', sym.Engine(R.u, sizeof=R.so, inline={'ra_reg_is_part_of'}))
    if psn is not None and pointer_walk(R.eng, psn):
        ck.broken('C04.e', 'ra_first_entry_of_next', R.where('ra_first_entry_of_next'), 'the search steps a pointer; the rule reads index-based table walks only')
    elif psn is not None:
        bad = None
        for p in psn:
            if p.end == 'return' and p.loops and p.calls('ra_addr_is_part_of'):
                lmap = p.loops[-1][1]
                idx = [(h, pre) for k, h, pre in loop_counter(psn, p)]
                pa = p.calls('ra_addr_is_part_of')[-1]
                if not idx or strip_cast(p.ret) != idx[0][0] or idx[0][1] != ('v', 'start'):
                    bad = 'returns %s' % fmt(p.ret)
                if pa.args[0] != ('v', 'a') or 'address' not in fmt(pa.args[1]):
                    bad = 'membership test on %s' % fmt(pa.args[1])
                if not any(c == ('cmp', '==', pa.result, C(0)) for c in p.cond_terms()):
                    bad = 'returns an entry that is still inside the area'
            elif p.end == 'return' and not p.calls('ra_addr_is_part_of'):
                if strip_cast(p.ret) != ('f', T, 'entries'):
                    bad = 'returns %s when all remaining entries are in the area' % fmt(p.ret)
        ck.verdict(bad is None, 'C04.e', 'ra_first_entry_of_next', R.where('ra_first_entry_of_next'),
                   'first index >= start whose address is outside the area, else the entry count' if bad is None else bad)


_GATE_TESTS = {}


def gate_tests(R):
    """What reg_entry_is_in_memory demands of the area it links an entry into, read off its own accepting paths: the
    predicate helpers it calls on (area, entry) resp. (area, entry->address) whose answer has to be non-zero before the
    link stores.  -> frozenset of helper names (ra_reg_is_part_of is looked through to ra_addr_is_part_of), or None."""
    if 'v' in _GATE_TESTS:
        return _GATE_TESTS['v']
    out = None
    g = sym.Engine(R.u, sizeof=R.so, inline={'ra_reg_is_part_of'})
    try:
        gp = g.paths('reg_entry_is_in_memory')
    except Exception:      # noqa: BLE001
        gp = None
    for p in gp or []:
        if p.end != 'return' or p.ret is None or p.ret == C(0):
            continue
        if not [st for st in p.stores() if st.name[0] == 'f' and st.name[2] in ('area', 'offset')]:
            continue
        need = set()
        for e in p.effects:
            if e.kind == 'call' and e.name.startswith('ra_') and any(c[0] == 'cmp' and c[1] == '!=' and strip_cast(c[2]) == e.result and c[3] == C(0)
                                                                    for c in p.cond_terms()):
                need.add(e.name)
        out = need if out is None else (out & need)
    _GATE_TESTS['v'] = frozenset(out) if out else None
    return _GATE_TESTS['v']


def _assigned_values(u, fn, var):
    """every value a local of `fn` is given (initialiser and assignments), as AST nodes"""
    vals = []
    for n in cast.walk(u.functions[fn]):
        if n.get('kind') == 'VarDecl' and n.get('name') == var and cast.inner(n):
            vals.append(cast.inner(n)[-1])
        if n.get('kind') == 'BinaryOperator' and n.get('opcode') == '=':
            l, r = cast.inner(n)
            l = cast.strip(l)
            if l.get('kind') == 'DeclRefExpr' and (l.get('referencedDecl') or {}).get('name') == var:
                vals.append(r)
    return vals


def second_gate(R, eng, p, st, ent):
    """A linking route of register_init beside reg_entry_is_in_memory (e.g. the area of the preceding entry, remembered
    in a local) is as good as the gate when it asks the same questions of the area it links into: every test the gate
    function demands (gate_tests) was asked of (that area, this entry) and answered yes before the store; the offset is
    address - that area's base; and the area is one of the table's - the local it comes from is only ever given a null
    pointer or the `area` field of an entry (which only the guarded link stores write)."""
    need = gate_tests(R)
    if not need:
        return False
    k = st.name
    # the area this path links the entry into
    area = None
    for s2 in p.stores():
        if s2.name[0] == 'f' and s2.name[2] == 'area' and strip_cast(s2.name[1]) == ent:
            area = strip_cast(s2.args[0])
    if area is None:
        return False
    if k[2] == 'offset':
        v = strip_cast(st.args[0])
        want = [('-', ('f', ent, 'address'), ('f', area, 'base'))]
        if not (v in want or (v[0] == '-' and len(v) == 3 and strip_cast(v[1]) == ('f', ent, 'address') and strip_cast(v[2]) == ('f', area, 'base'))):
            return False
    asked = set()
    for e in p.effects:
        if e is st:
            break
        if e.kind == 'call' and e.name in need and len(e.args) == 2 and strip_cast(e.args[0]) == area \
                and strip_cast(e.args[1]) in (ent, ('f', ent, 'address')) \
                and any(c[0] == 'cmp' and c[1] == '!=' and strip_cast(c[2]) == e.result and c[3] == C(0) for c in p.cond_terms()):
            asked.add(e.name)
    if asked != set(need):
        return False
    # provenance of the area pointer: a loop-carried local
    name = None
    f = fmt(area)
    import re as _re
    m = _re.match(r'^\?loop@\d+:([A-Za-z_][A-Za-z0-9_]*)#\d+$', f)
    if m:
        name = m.group(1)
    elif area[0] == 'v':
        name = area[1]
    if name is None:
        return False
    vals = _assigned_values(R.u, 'register_init', name)
    if not vals:
        return False
    for v in vals:
        n = cast.strip_all_casts(v)
        if n.get('kind') == 'MemberExpr' and n.get('name') == 'area' and 'RegisterEntry' in cast.qual_type(cast.inner(n)[0]):
            continue
        if n.get('kind') in ('GNUNullExpr', 'CXXNullPtrLiteralExpr') or (n.get('kind') == 'IntegerLiteral' and n.get('value') == '0'):
            continue
        return False
    return True


def link_gate(ck, R, eng, ps):
    """C04.d (gate): an entry is linked into an area (its `area` / `offset` fields are written) only by, or after a
    successful, reg_entry_is_in_memory(t, entry) - the one place where base <= address and address + size <= area end
    are both tested.  A second linking route that tests less (e.g. only the start address) accepts registers that
    straddle the end of their area."""
    bad = None
    nlink = 0
    for p in ps:
        gates = [e for e in p.calls('reg_entry_is_in_memory')]
        for st in p.stores():
            k = st.name
            if not (k[0] == 'f' and k[2] in ('area', 'offset') and 'entry' in fmt(k[1])):
                continue
            nlink += 1
            ent = strip_cast(k[1])
            ok = False
            for g in gates:
                if p.effects.index(g) > p.effects.index(st):
                    continue
                same = strip_cast(g.args[1]) == ent or L(strip_cast(g.args[1])) == L(ent)
                passed = any(c[0] == 'cmp' and c[1] == '!=' and strip_cast(c[2]) == g.result and c[3] == C(0) for c in p.cond_terms())
                if same and passed:
                    ok = True
            if not ok and second_gate(R, eng, p, st, ent):
                ok = True
            if not ok:
                bad = bad or ('%s is written at %s on a path where reg_entry_is_in_memory has not accepted that entry ({%s}): the register is linked '
                              'without the containment test address + size <= area end' % (fmt(k), st.where(), '; '.join(fmt(c) for c in p.cond_terms()[-3:])[:200]))
    if bad is None and nlink == 0:
        # register_init itself links nothing: then the containment test does, on its accepting paths only
        gp = R.paths('reg_entry_is_in_memory', 'C04.d', sym.Engine(R.u, sizeof=R.so, inline={'ra_reg_is_part_of', 'ra_addr_is_part_of', 'ra_reg_fits_into', 'ra_find_area_by_addr'}))
        for p in gp or []:
            ls = [st for st in p.stores() if st.name[0] == 'f' and st.name[2] in ('area', 'offset')]
            if ls and p.end == 'return':
                nlink += 1
                if p.ret is None or p.ret == C(0):
                    bad = bad or 'reg_entry_is_in_memory links the entry (%s) on a path that refuses it' % fmt(ls[0].name)
    ck.verdict(bad is None and nlink >= 1, 'C04.d', 'register_init:link-gate', R.where('register_init'),
               'entries are linked (area/offset written) in register_init only after reg_entry_is_in_memory accepted them' if bad is None and nlink else (bad or 'no link store found in register_init'))


def flag_bits(ck, R):
    """C04.a (representation): every flag enumerator is one distinct bit that fits the `flags` field it is stored in.
    A flag beyond the field's width can never be set: BIT_SET stores nothing, BIT_ISSET never holds (for DURING_INIT this
    makes every constant register's default fail, i.e. a well-formed table is refused)."""
    u = R.u
    for prefix, rec in (('REG_TF_', 'RegisterTable'), ('REG_AF_', 'RegisterArea'), ('REG_EF_', 'RegisterEntry')):
        vals = {n: v for n, v in u.enums.items() if n.startswith(prefix)}
        r = None
        for nm, node in u.records.items():
            pass
        width = None
        for nm, node in u.records.items():
            fields = {f.get('name'): f for f in cast.inner(node) if f.get('kind') == 'FieldDecl'}
            tdn = nm
            if 'flags' in fields and (rec.lower() in nm.lower().replace('_', '') or
                                      any(rec == k for k, v in getattr(u, 'typedefs', {}).items() if nm in str(v))):
                from .. import bitdom
                ti = bitdom.type_info(bitdom.resolve_typedefs(u, cast.qual_type(fields['flags'])))
                if ti and len(ti) == 3:
                    width = ti[0]
        if not vals or width is None:
            ck.broken('C04.a', 'flags:' + prefix, 'include/ufw/register-table.h', 'flag enumerators %s / flags field width %s not found' % (sorted(vals), width))
            continue
        bad = None
        seen = {}
        for n, v in sorted(vals.items()):
            if v <= 0 or v & (v - 1):
                bad = bad or '%s = %#x is not a single bit' % (n, v)
            elif v >= (1 << width):
                bad = bad or '%s = %#x does not fit the %d-bit flags field: it can never be set or seen' % (n, v, width)
            elif v in seen:
                bad = bad or '%s and %s share bit %#x' % (n, seen[v], v)
            seen[v] = n
        ck.verdict(bad is None, 'C04.a', 'flags:' + prefix, 'include/ufw/register-table.h',
                   '%d flags, each one distinct bit inside the %d-bit field' % (len(vals), width) if bad is None else bad)


def run(ck):
    ck.rule('C04.a', 'flags: every failing return of register_init leaves INITIALISED=0 and DURING_INIT=0, success leaves 1/0 (bit evaluation of the flag expression per path; nothing else assigns the flags)')
    ck.rule('C04.b', 'gate: every public operation tests INITIALISED first and answers UNINITIALISED without touching the table')
    ck.rule('C04.c', 'precedence: failure codes are decided in the order counts -> no areas -> area order/overlap -> entry order/overlap -> (clear) -> hole -> default, each reporting the loop index of the offending item')
    ck.rule('C04.d', 'predicates: order = cur < prev, overlap = cur < prev + size(prev) strict, prev tracks item i-1; containment = base <= address and address + size <= base + area size, entry linked with offset = address - base')
    ck.rule('C04.e', 'link: first/last/count per area from the run of entries located in it')
    ck.rule('C04.f', 'clear/default: memory-backed areas zeroed before defaults; defaults through the checked setter iff write callback and not SKIP_DEFAULTS; refused default fails initialisation')
    ck.rule('C04.g', 'no address sum of the containment test (reg_entry_is_in_memory with its helpers) and of the order/overlap scans of register_init can wrap around 2^32: every outermost 32-bit sum is proved in range from the guards of its path, guards containing an unproved sum give no fact')
    ck.not_decided += ['the exact accept/reject set over all layouts as a whole']
    R = Regs(ck)
    distinct_enums(ck, R.u, 'C04.c', ('REG_INIT_',), 'include/ufw/register-table.h')
    # one-line forwarders register_init may be written with are looked into (the rules speak of what they forward to)
    eng = sym.Engine(R.u, sizeof=R.so, inline={'need_to_load_default', 'reg_entry_load_default', 'ra_reg_is_part_of'})
    for_headers(R, 'C04.c', 'register_init', [(1, 'areas'), (1, 'entries'), (0, 'areas'), (0, 'entries'), (0, 'areas')])
    _pm = R.paths('reg_entry_is_in_memory', 'C04.d')
    if _pm is not None and any(p.calls('ra_find_area_by_addr') for p in _pm):
        from .regs import INLINE_SMALL as _IS
        scan_rule(R, 'C04.d', 'reg_entry_is_in_memory', 'areas', eng=sym.Engine(R.u, sizeof=R.so, inline=set(_IS) | {'ra_find_area_by_addr', 'ra_addr_is_part_of', 'ra_reg_is_part_of', 'ra_reg_fits_into'}))
    else:
        scan_rule(R, 'C04.d', 'reg_entry_is_in_memory', 'areas')
    scan_rule(R, 'C04.e', 'ra_first_entry_of_next', 'entries', ('v', 'start'))
    flag_bits(ck, R)
    wrap_free(R, 'C04.g', 'reg_entry_is_in_memory', inline={'ra_reg_is_part_of', 'ra_addr_is_part_of', 'ra_reg_fits_into', 'ra_find_area_by_addr'})
    # (a second linking route of register_init computes address - base itself: the start test is looked into for it)
    wrap_free(R, 'C04.g', 'register_init', inline={'ra_reg_is_part_of'}, summaries={'ra_addr_is_part_of'})
    ps = R.paths('register_init', 'C04.a', eng)
    if ps is not None:
        link_gate(ck, R, eng, ps)
        rule_a(ck, R, eng, ps)
        rule_cd(ck, R, eng, ps)
        rule_ef(ck, R, eng, ps)
    rule_b(ck, R)
    ck.rule('C04.h', 'a table is accepted exactly when every default is a value the checked setter accepts: the setter\'s own acceptance - serialiser / deserialiser per type incl. the float classes, validators - is what C01.a-c decide (re-evaluated): a well-formed table with a representable default is not refused, an unrepresentable default is')
    from .common import reevaluate
    reevaluate(ck, 'C04.h', 'c01', lambda r, k: r in ('C01.a', 'C01.b', 'C01.c'),
               'defaults are loaded with register_set: what it accepts per type (value image, float classes, validator kinds) decides INVALID_DEFAULT')
