"""C01 Typed register set/get is lossless and constraint-enforcing.

a SERDES-TABLE (proof, K8)  b VALIDATE  c FLOATGUARD (K9)  d HANDLE (K6)
e SETPATH.  Not decided: callback-backed areas and callback validators (user
code); 'storage unchanged' beyond the library's own writes."""
from .. import cast, sym, lin, bitdom, fclass
from .common import distinct_enums
from ..sym import C, fmt, linearize as L
from ..lin import Lin
from ..bitdom import BV, Ptr, RecordSym
from .regs import Regs, TYPE_SUFFIX, T, strip_cast, callback_guard

VALUE_OFF = 8      # offset of RegisterValue.value (checked against the record layout below)


def rule_a(ck, R):
    u = R.u
    types = R.types()
    ck.floor('C01.a', 'RegisterType enumerators', len(types), 8)
    probe = R.probe_table()
    # tables
    ser_des = {}
    g = u.globals.get('rds_serdes')
    gs = u.globals.get('rds_size')
    if g is None or gs is None:
        return ck.broken('C01.a', 'tables', '', 'rds_serdes / rds_size not found')
    rows = cast.inner(cast.strip(g['inner'][0]))
    sizes = [u.const_value(x) for x in cast.inner(cast.strip(gs['inner'][0]))]
    atom = R.so.get('RegisterAtom', 2)
    ip0 = bitdom.Interp(u)
    fields, rvsize = ip0.record_layout('RegisterValue')
    voff = fields['value'][0]
    for tname, tval in sorted(types.items(), key=lambda kv: kv[1]):
        suffix = tname.replace('REG_TYPE_', '')
        member, width, kind_ = TYPE_SUFFIX[suffix]
        where = cast.where(g)
        # what the library's REG_* macro associates with this type
        if probe.get(tval) != member:
            ck.violation('C01.a', 'macro:' + tname, 'include/ufw/register-table.h',
                         'REG_%s initialises default_value.%s for type %s' % (member.upper(), probe.get(tval), tname))
        if tval >= len(rows) or tval >= len(sizes):
            ck.violation('C01.a', 'row:' + tname, where, 'no table row for %s' % tname)
            continue
        row = cast.strip(rows[tval])
        fns = [cast.strip_all_casts(x).get('referencedDecl', {}).get('name') for x in cast.inner(row)]
        ok_size = sizes[tval] is not None and sizes[tval] * atom * 8 == width
        ck.verdict(ok_size, 'C01.a', 'size:' + tname, cast.where(gs),
                   'rds_size = %s atoms = %d bits' % (sizes[tval], width) if ok_size else
                   'rds_size[%s] = %s atoms of %d octets, the type has %d bits' % (tname, sizes[tval], atom, width))
        if len(fns) != 2 or None in fns:
            ck.violation('C01.a', 'row:' + tname, where, 'row is %s' % fns)
            continue
        ser, des = fns
        nb = width // 8
        for be in (1, 0):
            tag = '%s:%s' % (tname, 'big' if be else 'little')
            # --- serialiser ---------------------------------------------------------
            ip = bitdom.Interp(u, skip_guard_returns=True)
            ip.tolerate_return = True
            try:
                ret, stores, loads = ip.run(ser, [RecordSym('v'), Ptr(('param', 'r'), 0, 2), BV.const(be, 8)])
                want = {}
                for j in range(nb):
                    lane = (nb - 1 - j) if be else j
                    want[(('param', 'r'), j)] = [(0, frozenset(['v[%d].%d' % (voff + lane, b)])) for b in range(8)]
                d = None
                if set(stores) != set(want):
                    d = 'writes atoms octets %s, expected exactly 0..%d' % (sorted(k[1] for k in stores), nb - 1)
                else:
                    for k_ in sorted(want):
                        if stores[k_] != want[k_]:
                            d = 'octet %d of the storage image does not come from octet %d of v.value.%s' % (
                                k_[1], (nb - 1 - k_[1]) if be else k_[1], member)
                            break
                if d is None and loads:
                    d = 'reads the destination'
                ck.verdict(d is None, 'C01.a', 'ser:' + tag, cast.where(u.fn(ser)),
                           d or '%s writes exactly the %s-endian image of v.value.%s (%d octets)' % (ser, 'big' if be else 'little', member, nb))
            except bitdom.Unsupported as e:
                ck.broken('C01.a', 'ser:' + tag, cast.where(u.fn(ser)) if u.fn(ser) else '', 'outside the bit domain: %s' % e)
            # --- deserialiser -------------------------------------------------------
            ip = bitdom.Interp(u, skip_guard_returns=True)
            ip.tolerate_return = True
            try:
                ret, stores, loads = ip.run(des, [Ptr(('param', 'r'), 0, 2), Ptr(('param', 'v'), 0, 1), BV.const(be, 8)])
                want = {}
                for lane in range(nb):
                    j = (nb - 1 - lane) if be else lane
                    want[(('param', 'v'), voff + lane)] = [(0, frozenset(['r[%d].%d' % (j, b)])) for b in range(8)]
                tbits = BV.const(tval, 32).bits
                for j in range(4):
                    want[(('param', 'v'), fields['type'][0] + j)] = list(tbits[8 * j:8 * j + 8])
                d = None
                if set(stores) != set(want):
                    d = 'writes octets %s of *v, expected the type field and %d octets of value.%s' % (
                        sorted(k[1] for k in stores), nb, member)
                else:
                    for k_ in sorted(want):
                        if stores[k_] != want[k_]:
                            d = ('type field is not %s' % tname) if k_[1] < voff else \
                                'octet %d of value.%s does not come from the matching storage octet' % (k_[1] - voff, member)
                            break
                want_loads = {(('param', 'r'), j) for j in range(nb)}
                if d is None and loads != want_loads:
                    d = 'reads storage octets %s, expected 0..%d' % (sorted(k[1] for k in loads), nb - 1)
                ck.verdict(d is None, 'C01.a', 'des:' + tag, cast.where(u.fn(des)),
                           d or '%s is the bitwise inverse of %s and sets type %s' % (des, ser, tname))
            except bitdom.Unsupported as e:
                ck.broken('C01.a', 'des:' + tag, cast.where(u.fn(des)) if u.fn(des) else '', 'outside the bit domain: %s' % e)
        ser_des[tval] = (ser, des, member, width, kind_)
    return ser_des


def rule_b(ck, R):
    """rv_validate relation per validator kind and type"""
    eng = sym.Engine(R.u, sizeof=R.so, inline={'rv_check_min', 'rv_check_max', 'rv_check_range', 'rv_check_cb',
                                               'rv_check_min_value', 'rv_check_max_value'})
    ps = R.paths('rv_validate', 'C01.b', eng)
    if ps is None:
        return
    where = R.where('rv_validate')
    # modular fact used by C01.e / C05: validation has no side effect of its own (callbacks are user code)
    writes = [e_ for p in ps for e_ in p.stores() if e_.name[0] != 'v' and not fmt(e_.name).split('.')[0].split('->')[0].count('@')]
    writes = [e_ for e_ in writes if sym.rooted_at(e_.name, ('v', 't')) or sym.rooted_at(e_.name, ('v', 'e'))]
    ck.verdict(not writes, 'C01.b', 'rv_validate:pure', where,
               'rv_validate stores nothing into the table or the entry' if not writes else 'rv_validate modifies %s' % fmt(writes[0].name))
    R.validate_pure = not writes
    E = R.E
    e, v = ('v', 'e'), ('v', 'v')
    etype = ('f', e, 'type')
    vtype = ('f', ('&', v), 'type')
    ctype = ('f', ('&', ('f', e, 'check')), 'type')

    def vval(m):
        return ('f', ('&', ('f', ('&', v), 'value')), m)

    def lim(*path):
        t = ('f', ('&', ('f', e, 'check')), 'arg')
        for nme in path:
            t = ('f', ('&', t), nme)
        return t
    types = R.types()
    kinds = dict(R.u.enum_decls.get('RegisterValidatorType', []))
    ck.floor('C01.b', 'RegisterValidatorType enumerators', len(kinds), 6)
    # group paths
    accept = {}     # (kind value or 'default', type value or None) -> list of (value conds, ret)
    for p in ps:
        conds = p.cond_terms()
        teq = any(c == ('cmp', '==', etype, vtype) or c == ('cmp', '==', vtype, etype) for c in conds)
        r = p.ret
        truthy = not (r is not None and r == C(0))
        if truthy and not teq:
            ck.violation('C01.b', 'type-test', where, 'a path can accept without e->type == v.type: %s' % p.describe())
        kv = None
        for c in conds:
            if c[0] == 'cmp' and c[1] == '==' and c[2] == ctype and sym.is_c(c[3]):
                kv = c[3][1]
        tv = None
        for c in conds:
            if c[0] == 'cmp' and c[1] == '==' and c[2] == vtype and sym.is_c(c[3]):
                tv = c[3][1]
        if not teq:
            continue
        if kv is None:
            kv = 'default'
        valueconds = [c for c in conds if any(x[0] == 'f' and x[2] in ('value', 'arg') for x in sym.subterms(c))
                      and not (c[2] in (etype, vtype, ctype))]
        accept.setdefault((kv, tv), []).append((valueconds, r))
    ck.verdict(any(p.ret == C(0) and any(c[0] == 'cmp' and c[1] == '!=' and {c[2], c[3]} == {etype, vtype} for c in p.cond_terms()) for p in ps),
               'C01.b', 'type-test', where, 'a value whose type differs from the register\'s is rejected; every accepting path has passed the type test')

    def accepted_set(kv, tv):
        """set of frozensets of conditions under which (kind, type) accepts"""
        out = set()
        for vc, r in accept.get((kv, tv), []):
            if r == C(0):
                continue
            cs = list(vc)
            if r != C(1):
                cs.append(sym.truth(r) if r[0] != 'cmp' else r)
            out.add(frozenset(cs))
        return out
    K = {n: kinds.get('REGV_TYPE_' + n) for n in ('TRIVIAL', 'FAIL', 'MIN', 'MAX', 'RANGE', 'CALLBACK')}
    # TRIVIAL / FAIL / CALLBACK do not depend on the type
    def kind_paths(kv):
        return [x for (k_, t_), lst in accept.items() if k_ == kv for x in lst]
    tr = kind_paths(K['TRIVIAL'])
    ck.verdict(len(tr) == 1 and tr[0][1] == C(1), 'C01.b', 'kind:TRIVIAL', where,
               'always accepts (after the type test)' if len(tr) == 1 and tr[0][1] == C(1) else 'TRIVIAL arm: %s' % [(fmt(r)) for _, r in tr])
    fl = kind_paths(K['FAIL'])
    during = R.E.get('REG_TF_DURING_INIT')
    want_fail = ('cmp', '==', ('&b', ('f', ('v', 't'), 'flags'), C(during)), C(during))
    okf = len(fl) == 1 and fl[0][1] == want_fail
    ck.verdict(okf, 'C01.b', 'kind:FAIL', where,
               'accepts exactly while the table is DURING_INIT' if okf else 'FAIL arm returns %s' % [fmt(r) for _, r in fl])
    cb = kind_paths(K['CALLBACK'])
    okc = len(cb) == 1 and cb[0][1][0] == 'call' and cb[0][1][1].endswith('check.arg.cb') and cb[0][1][2][0] == e
    ck.verdict(okc, 'C01.b', 'kind:CALLBACK', where,
               'forwards the verdict of check.arg.cb(e, v)' if okc else 'CALLBACK arm returns %s' % [fmt(r) for _, r in cb])
    df = kind_paths('default')
    okd = all(r == C(0) for _, r in df) and df
    ck.verdict(okd, 'C01.b', 'kind:unknown', where, 'an unknown validator kind rejects' if okd else 'unknown validator kind: %s' % [fmt(r) for _, r in df])
    narms = 0
    for tname, tval in sorted(types.items(), key=lambda kv_: kv_[1]):
        m = TYPE_SUFFIX[tname.replace('REG_TYPE_', '')][0]
        for kn, want in (('MIN', {frozenset([('cmp', '<=', lim('min', m), vval(m))])}),
                         ('MAX', {frozenset([('cmp', '<=', vval(m), lim('max', m))])}),
                         ('RANGE', {frozenset([('cmp', '<=', lim('range', 'min', m), vval(m)),
                                               ('cmp', '<=', vval(m), lim('range', 'max', m))])})):
            got = accepted_set(K[kn], tval)
            # inlined frames rename the by-value parameter: normalise 'callee@N:v' to v
            got = {frozenset(normalise(c, v) for c in s_) for s_ in got}
            narms += 1
            ck.verdict(got == want, 'C01.b', '%s:%s' % (kn, tname), where,
                       'accepts exactly when %s' % ' and '.join(fmt(c) for c in sorted(list(want)[0], key=str)) if got == want else
                       '%s constraint on %s accepts when {%s}; the property demands {%s} (inclusive bound, same union member on both sides)'
                       % (kn, tname, ' | '.join(' and '.join(fmt(c) for c in sorted(s_, key=str)) for s_ in got) or 'never',
                          ' and '.join(fmt(c) for c in sorted(list(want)[0], key=str))))
        # INVALID / other types reject: covered by 'never' when missing
    ck.floor('C01.b', 'min/max/range arms', narms, 24)
    inv = R.E.get('REG_TYPE_INVALID')
    for kn in ('MIN', 'MAX', 'RANGE'):
        got = accepted_set(K[kn], inv)
        ck.verdict(not got, 'C01.b', '%s:REG_TYPE_INVALID' % kn, where, 'the invalid type never passes a %s constraint' % kn if not got else 'REG_TYPE_INVALID accepted')


def normalise(c, v):
    """map inlined copies of the by-value parameter back to v"""
    def f(t):
        if not isinstance(t, tuple):
            return t
        if t[0] == 'v' and t[1].endswith(':v') and '@' in t[1]:
            return v
        return tuple(f(x) if isinstance(x, tuple) else x for x in t)
    return f(c)


def rule_c(ck, R, ser_des):
    """float guards: classes reaching the store / accepted by the deserialiser"""
    n = 0
    for tval, (ser, des, member, width, kind_) in sorted((ser_des or {}).items()):
        if kind_ != 'f':
            continue
        for fn, is_ser in ((ser, True), (des, False)):
            ps = R.paths(fn, 'C01.c')
            if ps is None:
                continue
            n += 1
            ok_classes = set()
            bad_store = None
            for p in ps:
                if is_ser:
                    X = ('f', ('&', ('f', ('&', ('v', 'v')), 'value')), member)
                    stores = [e for e in p.calls() if e.name.startswith('bf_set_')]
                    cls = fclass.classes_of_path(p.cond_terms(), X, width)
                    if stores:
                        ok_classes |= cls
                        if p.ret != C(1):
                            bad_store = 'stores but returns %s' % fmt(p.ret)
                    elif p.ret == C(1):
                        bad_store = 'reports success without storing'
                else:
                    refs = [e for e in p.calls() if e.name.startswith('bf_ref_')]
                    if not refs:
                        bad_store = 'no load of the stored value'
                        continue
                    X = refs[0].result
                    cls = fclass.classes_of_path(p.cond_terms(), X, width)
                    if p.ret is not None and p.ret != C(0):
                        ok_classes |= cls
            want = {'zero', 'normal'}
            ok = ok_classes == want and bad_store is None
            ck.verdict(ok, 'C01.c', fn, R.where(fn),
                       '%s exactly the classes {zero, normal}; NaN, infinities and subnormals are refused' % ('stores' if is_ser else 'accepts')
                       if ok else (bad_store or '%s the float classes %s, the property allows exactly {normal, zero}' % (
                           'stores' if is_ser else 'accepts', sorted(ok_classes))))
    ck.floor('C01.c', 'float ser/des guards', n, 4)


def entry_accesses(p, eng):
    """(effect, index term) for loads/stores through t->entry + idx"""
    out = []
    ent = ('f', T, 'entry')
    for e in p.effects:
        keys = []
        if e.kind in ('load', 'store'):
            keys.append(e.name)
        for k in keys:
            x = k
            # find a base of the form entry + idx
            while isinstance(x, tuple) and x[0] in ('f', 'i'):
                b = x[1]
                if x[0] == 'i' and b == ent:
                    out.append((e, x[2]))
                    break
                if b[0] == '+' and b[1] == ent:
                    out.append((e, b[2]))
                    break
                if b[0] == '&':
                    x = b[1]
                else:
                    x = b
    return out


def rule_d(ck, R):
    eng = sym.Engine(R.u, sizeof=R.so, inline=set())
    eng.record_loads = True
    INIT = R.E.get('REG_TF_INITIALISED')
    NOENTRY = R.E.get('REG_ACCESS_NOENTRY')
    UNINIT = R.E.get('REG_ACCESS_UNINITIALISED')
    entries = ('f', T, 'entries')
    nfun = 0
    for fn in ('register_setx', 'register_get', 'register_default'):
        ps = R.paths(fn, 'C01.d', eng)
        if ps is None:
            continue
        nfun += 1
        where = R.where(fn)
        idx = ('v', 'idx')
        bad = None
        nacc = 0
        for p in ps:
            facts = eng.path_facts(p)
            acc = entry_accesses(p, eng)
            for e, ix in acc:
                nacc += 1
                goal = L(ix) + 1 - L(entries)
                if not eng.entails(facts, goal):
                    guards = [fmt(c) for c in p.cond_terms() if sym.contains(c, idx)]
                    bad = ('entry %s is accessed at %s with only {%s} established: cannot entail %s <= 0 '
                           '(a handle equal to the entry count passes the guard)' % (fmt(ix), e.where(), '; '.join(guards), goal))
            # pointer computed from the handle and used for calls
            for e in p.effects:
                if e.kind in ('call', 'icall'):
                    for a in e.args:
                        for x in sym.subterms(a):
                            if x[0] == '+' and x[1] == ('f', T, 'entry'):
                                nacc += 1
                                if not eng.entails(facts, L(x[2]) + 1 - L(entries)):
                                    bad = bad or 'entry pointer entry+%s passed to %s without idx < entries established' % (fmt(x[2]), e.name)
        ck.verdict(bad is None and nacc > 0, 'C01.d', fn + ':bound', where,
                   'every use of t->entry[idx] (%d on all paths) is dominated by idx < t->entries' % nacc if bad is None and nacc else (bad or 'no entry access found'))
        # refusing branch
        ref = [p for p in ps if p.ret is not None and p.ret[0] == 'struct' and dict(p.ret[2]).get('code') == C(NOENTRY)]
        okr = bool(ref)
        detail = ''
        for p in ref:
            d = dict(p.ret[2])
            if strip_cast(d.get('address')) != idx:
                okr, detail = False, 'NOENTRY reports address %s, expected the handle' % fmt(d.get('address'))
            if [e for e in p.effects if e.kind in ('icall',)]:
                okr, detail = False, 'area accessed on the NOENTRY path'
            # must be reachable for idx == entries
            if not eng.feasible(p.cond_terms(), lin.eq(L(idx), L(entries))):
                okr, detail = False, 'a handle equal to the entry count is not refused as NOENTRY'
        if not ref:
            detail = 'no path returns REG_ACCESS_NOENTRY'
        ck.verdict(okr, 'C01.d', fn + ':noentry', where,
                   'handles >= t->entries are answered NOENTRY with the handle as address, before any area access' if okr else detail)
        # INITIALISED first
        oki = True
        for p in ps:
            first = p.cond_terms()[0] if p.cond_terms() else None
            if first is None or not (first[0] == 'cmp' and first[2] == ('&b', ('f', T, 'flags'), C(INIT))):
                oki = False
        un = [p for p in ps if p.ret is not None and p.ret[0] == 'struct' and dict(p.ret[2]).get('code') == C(UNINIT)]
        ck.verdict(oki and un, 'C01.d', fn + ':init-first', where,
                   'the INITIALISED test is the first decision; uninitialised tables answer UNINITIALISED' if oki and un else
                   'INITIALISED is not tested first / no UNINITIALISED answer')
    ck.floor('C01.d', 'handle-taking functions', nfun, 3)


def rule_e(ck, R):
    eng = sym.Engine(R.u, sizeof=R.so, inline={'register_area_can_write'})
    if getattr(R, 'validate_pure', False):
        eng.pure = {'rv_validate'}
    ps = R.paths('register_setx', 'C01.e', eng)
    if ps is None:
        return
    where = R.where('register_setx')
    wv = ('v', 'withvalidator')
    E = R.E
    t, idx, v = T, ('v', 'idx'), ('v', 'v')
    ent = sym.add(('f', t, 'entry'), idx)

    def classify(p):
        names = []
        for e in p.effects:
            if e.kind == 'call' and e.name == 'rv_validate':
                names.append('validate')
            elif e.kind == 'icall' and e.name.endswith('.ser'):
                names.append('ser')
            elif e.kind == 'icall' and e.name.endswith('write'):
                names.append('write')
            elif e.kind in ('call', 'icall'):
                names.append(e.name)
        return names
    bad = None
    sig = {0: set(), 1: set()}
    nwrite = 0
    for p in ps:
        names = classify(p)
        wvc = [c for c in p.cond_terms() if sym.contains(c, wv)]
        mode = None
        for c in wvc:
            if c == ('cmp', '==', wv, C(0)):
                mode = 0
            elif c == ('cmp', '!=', wv, C(0)):
                mode = 1
        val = p.calls('rv_validate')
        if mode == 0 and val:
            bad = 'validator called by the unchecked variant'
        if mode == 1 and not val and ('ser' in names or 'write' in names):
            bad = 'checked variant reaches the serialiser without rv_validate'
        if val:
            a = val[0].args
            if a[0] != t or L(a[1]) != L(ent) or strip_cast(a[2]) != v and a[2] != v:
                bad = 'rv_validate called with (%s, %s, %s)' % tuple(fmt(x) for x in a)
            vr = val[0].result
            rejected = any(c[0] == 'cmp' and c[1] == '==' and sym.contains(c, vr) and c[3] == C(0) for c in p.cond_terms())
            if rejected:
                d = dict(p.ret[2]) if p.ret is not None and p.ret[0] == 'struct' else {}
                if d.get('code') != C(E.get('REG_ACCESS_RANGE')) or names != ['validate']:
                    bad = 'validator rejection does not end in REG_ACCESS_RANGE before any other effect'
                continue
        # order
        order = [n for n in names if n in ('validate', 'ser', 'write')]
        if order not in (['validate'], [], ['validate', 'ser'], ['ser'], ['validate', 'ser', 'write'], ['ser', 'write']):
            bad = 'effects in order %s; expected validate -> serialise -> write' % order
        if 'write' in names:
            nwrite += 1
            w = [e for e in p.effects if e.kind == 'icall' and e.name.endswith('write')][0]
            if strip_cast(p.ret) != w.result:
                bad = 'the area write is not in tail position (its result is not what is returned)'
            s = [e for e in p.effects if e.kind == 'icall' and e.name.endswith('.ser')][0]
            if not any(c[0] == 'cmp' and c[1] == '!=' and sym.contains(c, s.result) and c[3] == C(0) for c in p.cond_terms()):
                bad = 'write reached without the serialiser having succeeded'
            # arguments: (a, raw, e->offset, rds_size[e->type])
            wa = w.args
            if 'offset' not in fmt(wa[2]) or 'rds_size' not in fmt(eng.expand(wa[3])) or 'type' not in fmt(eng.expand(wa[3])):
                bad = 'write called with (offset=%s, n=%s), expected (e->offset, rds_size[e->type])' % (fmt(wa[2]), fmt(wa[3]))
            if s.args[1] != wa[1]:
                bad = 'the atoms written (%s) are not the ones serialised (%s)' % (fmt(wa[1]), fmt(s.args[1]))
            if strip_cast(s.args[0]) != v and s.args[0] != v:
                bad = 'serialiser applied to %s, not to the value argument' % fmt(s.args[0])
            if 'rds_serdes' not in s.name and 'rds_serdes' not in fmt(s.extra or ('c', 0)):
                pass
        else:
            # constant failure: no write
            if p.ret is not None and p.ret[0] == 'struct' and dict(p.ret[2]).get('code') not in (None, C(E.get('REG_ACCESS_SUCCESS'))):
                if 'write' in names:
                    bad = 'failure path after a write'
        # signature for "skips only these"
        if mode is not None:
            conds = tuple(fmt(c) for c in p.cond_terms() if not sym.contains(c, wv) and not (val and sym.contains(c, val[0].result)))
            effs = tuple(n for n in names if n != 'validate')
            rr = fmt(p.ret) if p.ret is not None else ''
            import re
            rr = re.sub(r'[#@]\d+', '#', rr)
            conds = tuple(re.sub(r'[#@]\d+', '#', c) for c in conds)
            sig[mode].add((conds, effs, rr))
    # honesty of the reported status: SUCCESS can only be what the area write reported; every path that stops before
    # the write reports a failure code
    SUCC = C(E.get('REG_ACCESS_SUCCESS'))

    def write_elided(p):
        """the one way to report SUCCESS without the write: the path has established that the write would change nothing
        and could not fail - the area is written by the library's own memory writer (a->write == reg_mem_write) and the
        serialised image has been compared equal, octet for octet (memcmp == 0 over the register's size), with the memory
        the writer would copy it to (a->mem + e->offset).  Storage then holds exactly the value, as after the write."""
        own = any(c[0] == 'cmp' and c[1] == '==' and fmt(c[2]).endswith('->write') and strip_cast(c[3]) == ('fn', 'reg_mem_write') or
                  c[0] == 'cmp' and c[1] == '==' and fmt(c[3]).endswith('->write') and strip_cast(c[2]) == ('fn', 'reg_mem_write') for c in p.cond_terms())
        if not own:
            return False
        for c in p.cond_terms():
            if c[0] == 'cmp' and c[1] == '==' and c[3] == C(0) and strip_cast(c[2])[0] == 'call' and strip_cast(c[2])[1] == 'memcmp':
                a = strip_cast(c[2])[2]
                dst, img, ln = fmt(a[0]), fmt(a[1]), fmt(a[2])
                if ('->mem' in dst and '->offset' in dst and 'raw' in img and 'rds_size' in ln) or ('->mem' in img and '->offset' in img and 'raw' in dst and 'rds_size' in ln):
                    return True
        return False
    for p in ps:
        if 'write' in classify(p) or p.end != 'return':
            continue
        code = dict(p.ret[2]).get('code') if p.ret is not None and p.ret[0] == 'struct' else None
        if code == SUCC and write_elided(p):
            continue
        if code is None or code == SUCC or not sym.is_c(code):
            bad = bad or ('the path {%s} ends without writing but reports %s: the caller is told the value was stored'
                          % ('; '.join(fmt(c) for c in p.cond_terms()[-2:])[:200], 'REG_ACCESS_SUCCESS' if code in (None, SUCC) else fmt(code)))
    ck.verdict(bad is None and nwrite >= 2, 'C01.e', 'register_setx:order', where,
               'init/handle checks -> [validate] -> can-write -> serialise -> write (tail); failures never after a write; written atoms are the serialised ones at (e->offset, rds_size[e->type])'
               if bad is None and nwrite >= 2 else (bad or 'write paths not found'))
    only = sig[0] == sig[1] and sig[0]
    ck.verdict(bool(only), 'C01.e', 'register_setx:skips-only-validation', where,
               'the unchecked variant differs from the checked one only by the rv_validate call and its failure return' if only else
               'checked and unchecked variants differ beyond the validator: %s' % sorted(sig[0] ^ sig[1])[:2])
    # wrappers
    for fn, flag in (('register_set', 1), ('register_set_unsafe', 0)):
        ps2 = R.paths(fn, 'C01.e')
        if ps2 is None:
            continue
        ok = len(ps2) == 1 and len(ps2[0].calls('register_setx')) == 1
        if ok:
            c = ps2[0].calls('register_setx')[0]
            ok = c.args[0] == T and c.args[1] == ('v', 'idx') and c.args[3] == C(flag) and strip_cast(ps2[0].ret) == c.result
        ck.verdict(ok, 'C01.e', fn, R.where(fn), 'forwards to register_setx(t, idx, v, %s)' % ('true' if flag else 'false') if ok else 'does not forward to register_setx with withvalidator=%d' % flag)
    # sibling: get reads the same window as set writes
    psg = R.paths('register_get', 'C01.e')
    if psg is not None:
        okg = False
        for p in psg:
            rd = [e for e in p.effects if e.kind == 'icall' and e.name.endswith('read')]
            for r in rd:
                if 'offset' in fmt(r.args[2]) and 'rds_size' in fmt(r.args[3]) and 'type' in fmt(r.args[3]):
                    okg = True
                else:
                    okg = False
                    break
        ck.verdict(okg, 'C01.e', 'register_get:window', R.where('register_get'),
                   'get reads (e->offset, rds_size[e->type]), the window set writes' if okg else 'get does not read (e->offset, rds_size[e->type])')
        # des applied to the atoms read, result written to the caller's value
        okd = False
        okd_why = 'deserialiser is not applied to the atoms read / not into *v'
        for p in psg:
            rd = [e for e in p.effects if e.kind == 'icall' and e.name.endswith('read')]
            ds = [e for e in p.effects if e.kind == 'icall' and e.name.endswith('.des')]
            if rd and ds:
                okd = ds[0].args[0] == rd[0].args[1] and ds[0].args[1] == ('v', 'v')
        # honesty of the status: a failed area read is returned as it is, a failed decode is a failure code, and SUCCESS
        # needs both to have succeeded
        SUCC = C(R.E.get('REG_ACCESS_SUCCESS'))
        for p in psg:
            rd = [e for e in p.effects if e.kind == 'icall' and e.name.endswith('read')]
            ds = [e for e in p.effects if e.kind == 'icall' and e.name.endswith('.des')]
            if p.end != 'return' or not rd:
                continue
            r = p.ret
            code = None
            if r is not None and r[0] == 'struct':
                code = dict(r[2]).get('code')
                if code is None and r[1] == rd[0].result:
                    code = ('fv', rd[0].result, 'code')
            elif r is not None and strip_cast(r) == rd[0].result:
                code = ('fv', rd[0].result, 'code')
            if ds:
                failed = any(c[0] == 'cmp' and c[1] == '==' and sym.contains(c[2], ds[0].result) and c[3] == C(0) for c in p.cond_terms())
                if failed and not (code is not None and sym.is_c(code) and code != SUCC):
                    okd = False
                    okd_why = 'a value the deserialiser rejected is returned with status %s' % (fmt(code) if code else 'of the area read (SUCCESS)')
            else:
                rdfail = any(c[0] == 'cmp' and c[1] == '!=' and sym.contains(c[2], rd[0].result) and c[3] == SUCC for c in p.cond_terms())
                if not rdfail or code != ('fv', rd[0].result, 'code'):
                    okd = False
                    okd_why = 'returns without decoding although the area read is not known to have failed'
        ck.verdict(okd, 'C01.e', 'register_get:decode', R.where('register_get'),
                   'the atoms read are the ones deserialised into the caller\'s value; read failures returned, rejected decodes reported as failure' if okd else okd_why)


def rule_macros(ck, R):
    """C01.a (declaration side): every front-end macro REG_<T><kind> / REGx_<T><kind> puts the type tag, the default and
    the bound(s) into the union member of that type, selects the validator kind of its name and keeps minimum and maximum
    apart.  The table is what rv_validate later reads (`limit.<member of the type>`): a bound written into another
    member is read back as a different number.  Decided from the compiler's own expansion of all 96 macros."""
    from .regs import TYPE_SUFFIX
    E = R.E
    kinds = [('', 'REGV_TYPE_TRIVIAL', ()), ('FAIL', 'REGV_TYPE_FAIL', ()), ('MIN', 'REGV_TYPE_MIN', ('min',)), ('MAX', 'REGV_TYPE_MAX', ('max',)),
             ('RANGE', 'REGV_TYPE_RANGE', ('min', 'max')), ('FNC', 'REGV_TYPE_CALLBACK', ('cb',))]
    rows, meta = [], []
    addr = 0
    for tn, (m, w, k) in sorted(TYPE_SUFFIX.items()):
        for suffix, vkind, args in kinds:
            for x in ('', 'x'):
                name = 'REG%s_%s%s' % (x, m.upper(), suffix)
                a = {'min': '1', 'max': '2', 'cb': 'vp_cb'}
                params = ['%d' % len(rows), '%d' % addr] + [a[q] for q in args] + ['3'] + (['&vp_u'] if x else [])
                rows.append('%s(%s)' % (name, ', '.join(params)))
                meta.append((name, 'REG_TYPE_' + tn, m, vkind, args, bool(x)))
                addr += 8
    src = ('#include <ufw/register-table.h>\nstatic int vp_u;\n'
           'static bool vp_cb(const RegisterEntry *e, const RegisterValue v) { (void)e; (void)v; return true; }\n'
           'RegisterEntry vp_tab[] = { %s };\n' % ',\n '.join(rows))
    try:
        pu = cast.load('src/registers/core.c', source_text=src)
        f = cast.init_fields(pu, 'vp_tab')
    except Exception as e:
        return ck.broken('C01.a', 'macros', 'include/ufw/register-table.h', 'probe of the REG_* macro family failed: %s' % str(e)[:200])
    if not f:
        return ck.broken('C01.a', 'macros', 'include/ufw/register-table.h', 'probe table not understood')
    nbad = 0
    for i, (name, tname, m, vkind, args, isx) in enumerate(meta):
        row = {k[len('[%d].' % i):]: v for k, v in f.items() if k.startswith('[%d].' % i)}
        bad = None
        if row.get('type') != E.get(tname):
            bad = 'type tag is %s, expected %s' % (row.get('type'), tname)
        dv = {k: v for k, v in row.items() if k.startswith('default_value.')}
        if bad is None and list(dv) != ['default_value.' + m]:
            bad = 'the default is written to %s, the %s member is .%s' % (sorted(dv), tname, m)
        elif bad is None and dv['default_value.' + m] not in (3, 3.0, None):
            bad = 'the default argument ends up as %s' % dv['default_value.' + m]
        if bad is None and row.get('check.type') != E.get(vkind):
            bad = 'validator kind is %s, expected %s' % (row.get('check.type'), vkind)
        ca = {k[len('check.arg.'):]: v for k, v in row.items() if k.startswith('check.arg.')}
        want = {}
        if args == ('min',):
            want = {'min.' + m: 1}
        elif args == ('max',):
            want = {'max.' + m: 2}
        elif args == ('min', 'max'):
            want = {'range.min.' + m: 1, 'range.max.' + m: 2}
        elif args == ('cb',):
            want = {'cb': ('ref', 'vp_cb')}
        if bad is None and set(ca) != set(want):
            bad = 'bounds are written to %s, expected %s (the validator reads the .%s member)' % (sorted(ca), sorted(want), m)
        elif bad is None:
            for k_, v_ in want.items():
                if ca[k_] is not None and ca[k_] != v_ and not (isinstance(ca[k_], float) and ca[k_] == float(v_)):
                    bad = '%s receives %s, expected %s (minimum and maximum exchanged?)' % (k_, ca[k_], v_)
        if bad is None and isx and row.get('user') != ('ref', 'vp_u'):
            bad = 'the user pointer is not stored'
        if bad:
            nbad += 1
            ck.violation('C01.a', 'macro:' + name, 'include/ufw/register-table.h', '%s: %s' % (name, bad))
    if nbad == 0:
        ck.holds('C01.a', 'macros', 'include/ufw/register-table.h',
                 'all %d REG_*/REGx_* macros: type tag, default and bounds in the member of the type, validator kind of the name, min/max kept apart' % len(meta))


def run(ck):
    ck.rule('C01.g', 'validation depends on the table flag REG_TF_DURING_INIT (always-fail registers accept their default during initialisation only): the flag is written by register_init alone and is clear on every exit of it (C04.a re-evaluated)')
    ck.rule('C01.f', 'typed access to callback-backed areas: the area callback is called only after a test that it exists (a write-only area has no read callback, a read-only one no write callback)')
    ck.rule('C01.a', 'per RegisterType: rds_serdes[T] pair and rds_size[T] agree with the type the REG_* macros associate; bit summary (K8) of ser_T writes exactly the big/little-endian image of v.value.m(T), des_T is its bitwise inverse and sets type T  [proof for all values]')
    ck.rule('C01.b', 'rv_validate: type test dominates acceptance; per validator kind and type the accepted set is exactly min <= v / v <= max / both (inclusive, same union member), TRIVIAL always, FAIL only DURING_INIT, CALLBACK the callback verdict, unknown kind rejects')
    ck.rule('C01.c', 'float serialisers store, and deserialisers accept, exactly the IEEE classes {zero, normal}')
    ck.rule('C01.d', 'every t->entry[idx] access in register_setx/get/default is dominated by idx < t->entries (linear entailment); handles >= entries answer NOENTRY with the handle; INITIALISED tested first')
    ck.rule('C01.e', 'set path order validate -> can-write -> serialise -> write(tail); no write on failing paths; the unchecked variant differs only by the validator; get reads the window set writes')
    ck.not_decided += ['callback-backed areas and callback validators (user code)', 'storage unchanged beyond the library\'s own writes']
    R = Regs(ck)
    ck.rule('C01.h', 'a refused typed set / get / default leaves nothing behind in the table (no memo, cursor or mark on a refusing path): what a later call is answered does not depend on it')
    from .regs import refusals_leave_no_trace
    refusals_leave_no_trace(R, 'C01.h', ('register_setx', 'register_get', 'register_default'))
    distinct_enums(ck, R.u, 'C01.a', ('REG_TYPE_', 'REGV_TYPE_'), 'include/ufw/register-table.h')
    rule_macros(ck, R)
    sd = rule_a(ck, R)
    rule_b(ck, R)
    rule_c(ck, R, sd)
    rule_d(ck, R)
    rule_e(ck, R)
    for fn_ in ('register_get', 'register_setx'):
        callback_guard(R, 'C01.f', fn_)
    from .common import reevaluate
    ck.rule('C01.i', 'typed set / get reach the register as register_init linked it (area, offset = address - base): the register lies wholly inside that area, so offset + size stays inside the area\'s memory (containment predicate and wrap freedom of C04.d / C04.g, area records of C04.e re-evaluated)')
    reevaluate(ck, lambda r, k: 'C01.g' if r == 'C04.a' else 'C01.i', 'c04',
               lambda r, k: (r == 'C04.a' and k.startswith('flags:')) or r in ('C04.d', 'C04.g', 'C04.e'),
               {'C01.g': 'the always-fail constraint is lifted only while REG_TF_DURING_INIT is set: nothing but register_init sets that flag, and register_init clears it on every exit',
                'C01.i': 'set / get write and read (area, offset, size of the type): init admits a register only wholly inside one area and links it with offset = address - base'})
