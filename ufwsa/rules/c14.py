"""C14 Varint coding is canonical, lossless and bounded.

Decided: the decoder's read bound (a), agreement of the sibling loops on the
code's parameters (b), the constants (c), the 32/64-bit and signed wrappers as
exact bit maps (d).  Not decided: value round trip for all integers (loop
arithmetic)."""
from .. import cast, sym, lin, bitdom, front
from ..sym import C, fmt, linearize as L
from ..lin import Lin
from ..bitdom import BV, Ptr, ZERO

UNIT = 'src/variable-length-integer.c'


def consts_under(t, ops):
    """set of (op, constant) for subterms op(x, const)"""
    out = set()
    for x in sym.subterms(t):
        if x[0] in ops and len(x) == 3:
            for a in (x[1], x[2]):
                if sym.is_c(a):
                    out.add((x[0], a[1]))
    return out


def run(ck):
    ck.rule('C14.f', 'sink_put_chunk, through which the *_to_sink encoders emit, offers exactly the octets of the region it was given, in order, retrying in place (C17.a-d re-evaluated)')
    ck.rule('C14.e', 'the buffer and chunk-list source drivers the octet-wise decoder reads through deliver every unread octet in order and report the end of data only when no chunk is left (C17.g, C17.h re-evaluated): buffer decoder and source decoder see the same octets')
    ck.rule('C14.g', 'decoding from a Source is a function of the octets it delivers: no decoder keeps progress of one value in the Source object beyond the return that ends it (resuming after -EINTR / -EAGAIN excepted)')
    ck.rule('C14.h', 'the source decoder reads each octet through the exact-count reader (repeats on 0 / -EINTR / -EAGAIN) and uses it only after the read succeeded: it sees the same octets as the buffer decoder however the source fragments its reads')
    ck.rule('C14.a', 'varint_decode: every octet read buf[offset+i] is proved inside the buffer (offset+i+1 <= used/size) by the path guards; failing paths leave the buffer untouched; offset advances by exactly the consumed count')
    ck.rule('C14.b', 'sibling agreement: buffer decoder and source decoder use the same data mask, shift step, terminator test, bound and error code; encoder and length query the same shift step / stop test / counting')
    ck.rule('C14.c', 'constants: 7 data bits, mask 0x7f, continuation 0x80, max octets ceil(32/7)=5 and ceil(64/7)=10 (compiler-evaluated)')
    ck.rule('C14.d', 'wrappers as exact bit maps (K8): 32-bit variants truncate to 32 bits, signed variants are bit-identical reinterpretations, encode and length wrappers hand the same 64-bit value to the core loops, max-octet arguments match the width')
    ck.not_decided += ['decode(encode(v)) = v for all v as a whole (follows from C14.b/c given the loop shapes, not proved)',
                       'minimality of the encoding beyond the shared stop test n>>7 == 0']
    u = cast.load(UNIT)
    ck.unit(UNIT)
    eng = sym.Engine(u, sizeof=sym.unit_sizeofs(UNIT, u), inline={'varint_done'})
    eng.record_loads = True
    P = {}
    for fn in ('varint_decode', 'varint_from_source', 'varint_encode', 'varint_u64_length'):
        ck.function(fn)
        if u.fn(fn) is None:
            ck.broken('C14.a', fn, '', 'function missing')
            continue
        try:
            P[fn] = eng.paths(fn)
            ck.analysed['paths'] += len(P[fn])
        except (sym.Unsupported, sym.PathLimit) as e:
            ck.broken('C14.a', fn, cast.where(u.fn(fn)), 'path enumeration: %s' % e)
    if 'varint_decode' in P:
        rule_a(ck, u, eng, P['varint_decode'])
    rule_b(ck, u, eng, P)
    rule_c(ck, u)
    rule_d(ck, u)
    rule_source_state(ck, u, eng)
    rule_source_reader(ck, u, eng, P)
    from .common import reevaluate
    reevaluate(ck, 'C14.f', 'c17', lambda r, k: r in ('C17.a', 'C17.b', 'C17.c', 'C17.d') and k.startswith(('sink_put_chunk', 'sink_adapt')),
               'the *_to_sink encoders hand their scratch buffer to sink_put_chunk: exactly its used octets reach the sink, from its start, whatever the driver answers')
    reevaluate(ck, 'C14.e', 'c17', lambda r, k: r == 'C17.g' or (r == 'C17.h'),
               'the source decoder reads its octets through the buffer / chunk-list drivers: they deliver the unread octets of the buffer, of every chunk in turn, and report the end only when none is left')

def rule_a(ck, u, eng, paths):
    where = cast.where(u.fn('varint_decode'))
    b = ('v', 'b')
    off, used, size, data = (('f', b, x) for x in ('offset', 'used', 'size', 'data'))
    inv = [lin.le(L(off), L(used)), lin.le(L(used), L(size))]
    nloads = 0
    from .common import unify_progress
    for p in paths:
        # a walking pointer / a remaining count are the octet index in another spelling
        sub, K_ = unify_progress(paths, p, eng, want_k=True)
        facts = (eng.path_facts([sym.substitute(c, sub) for c in p.cond_terms()]) if sub else eng.path_facts(p)) + inv
        if K_ is not None:
            facts.append(Lin.const(0) - L(K_))                  # iterations completed so far: not negative (induction)
        for h_, v_ in sub.items():
            if '*' not in (eng.types.get(h_) or '') and (eng.types.get(h_) or '').replace('const ', '').strip() in ('size_t', 'unsigned long', 'unsigned int', 'uint32_t', 'uint64_t'):
                facts.append(Lin.const(0) - L(v_))          # what the replaced unsigned variable was: not negative
        for e in p.effects:
            if e.kind != 'load':
                continue
            key = sym.substitute(e.name, sub) if sub else e.name
            try:
                base = L(key[1])
            except Exception:      # noqa: BLE001 - not a linear address
                continue
            if base.t.get(data) != 1:
                continue
            nloads += 1
            idx = base - Lin.atom(data) + L(key[2])
            # the index refers to the entry-time offset unless offset was modified before
            goal_used = idx + 1 - L(used)
            goal_size = idx + 1 - L(size)
            ok = eng.entails(facts, goal_used) or eng.entails(facts, goal_size)
            if ok and not eng.entails(facts, L(off) - idx):
                ck.violation('C14.a', 'varint_decode:load:%s:start' % p.end, e.where(),
                             'read of data[%s] is not proved to lie at or behind the read position data[offset]: octets in front of the unread region '
                             '(or in front of the buffer) are read' % idx)
                continue
            ck.verdict(ok, 'C14.a', 'varint_decode:load:%s' % p.end, e.where(),
                       'read of data[%s] proved inside the buffer on %s' % (idx, p.describe()) if ok else
                       'read of data[%s] is bounded only by {%s}: cannot entail %s <= 0 (a varint cut off by the end of the buffer is over-read)'
                       % (idx, '; '.join(fmt(c) for c in p.cond_terms()), goal_used))
        if p.end == 'return' and p.ret is not None:
            st = [e for e in p.stores() if e.name == off]
            if p.ret[0] == 'c' and p.ret[1] < 0:
                touched = [e for e in p.stores() if sym.rooted_at(e.name, b)]
                ck.verdict(not touched, 'C14.a', 'varint_decode:fail:%d' % p.ret[1], where,
                           'failing path (%d) consumes nothing' % p.ret[1] if not touched else
                           'failing path (%d) modifies %s' % (p.ret[1], fmt(touched[0].name)))
            else:
                # success: offset' - offset_before = returned count
                if len(st) != 1:
                    ck.violation('C14.a', 'varint_decode:success', where, 'success path stores offset %d times' % len(st))
                else:
                    newv = L(st[0].args[0])
                    retv = p.ret[2] if p.ret[0] == 'cast' else p.ret
                    # offset atom before the store may be a loop-havoc copy; accept offset_k + r with r == ret
                    atoms = [a for a in newv.atoms() if 'offset' in fmt(a)]
                    delta = newv
                    for a in atoms:
                        delta = delta - Lin.atom(a)
                    ok = len(atoms) == 1 and (delta - L(retv)).is_const() and (delta - L(retv)).c == 0
                    ck.verdict(ok, 'C14.a', 'varint_decode:success', where,
                               'offset advances by exactly the returned count %s' % fmt(retv) if ok else
                               "offset' = %s but the function returns %s" % (newv, fmt(retv)))
    ck.floor('C14.a', 'octet reads in varint_decode', nloads, 1)


def loop_features(paths, valuekey_pred):
    """features of a decode loop from its iteration paths"""
    feats = {'mask_shift': set(), 'term': set(), 'bound': set(), 'err': set(), 'ret_ok': set(), 'err_inloop': set()}
    for p in paths:
        for e in p.stores():
            if valuekey_pred(e.name):
                cs = consts_under(e.args[0], ('&b', '*', '<<'))
                if cs:
                    feats['mask_shift'] |= cs
        for c in p.cond_terms():
            for x in sym.subterms(c):
                if x[0] == '&b':
                    feats['term'] |= {('&b', a[1]) for a in (x[1], x[2]) if sym.is_c(a)}
            if c[0] == 'cmp' and c[1] in ('<', '<=') and ('v', 'maxoctets') in (c[2], c[3]):
                # loop bound i < maxoctets  (or its negation maxoctets <= i)
                feats['bound'].add('i<maxoctets' if (c[1] == '<' and c[3] == ('v', 'maxoctets')) or
                                   (c[1] == '<=' and c[2] == ('v', 'maxoctets')) else 'other:%s' % fmt(c))
        if p.end == 'return' and p.ret is not None:
            if p.ret[0] == 'c':
                # error of the exhausted bound (loop exit) vs. refusals inside the loop
                exhausted = any(c[0] == 'cmp' and c[1] in ('<=', '<') and c[2] == ('v', 'maxoctets') for c in p.cond_terms())
                feats['err' if exhausted else 'err_inloop'].add(p.ret[1])
            else:
                r = p.ret
                while r[0] == 'cast':
                    r = r[2]
                if r[0] == 'call':
                    continue                      # a reader's error, handed on (whatever its integer type)
                l = L(r)
                feats['ret_ok'].add(str(Lin({'i': sum(l.t.values())}, l.c)) if len(l.t) == 1 else fmt(r))
    return feats


def decoder_by_role(ck, u, eng, fn, ps):
    """The decoder loop in a form that does not index its octets from 0 (counting down, accumulating the shift, walking
    a pointer): the number K of octets taken so far is read off the loop's progress variables - one that starts at 0 and
    steps by 1 (K), starts at maxoctets and steps by -1 (maxoctets - K), starts at 0 and steps by 7 (7K); they agree by
    induction.  Then: an octet is merged as (octet & 0x7f) << 7K under K < maxoctets, success returns K + 1, the loop is
    exhausted only at K == maxoctets and that returns -EILSEQ, other in-loop refusals are negative and not -EILSEQ."""
    from .common import loop_steps, _strip_cast as strip
    where = cast.where(u.fn(fn))
    MAXO = ('v', 'maxoctets')
    NU = ('f', ('v', 'n'), 'u')
    bad = None
    nupd = nsucc = nexh = 0

    def count_of(p):
        node, lmap = p.loops[-1]
        st = loop_steps(ps, node)
        forms = []
        for k, step in st.items():
            h, pre = lmap[k]
            if pre is None or h[0] != 'h':
                continue
            pr = strip(pre)
            if step == 1 and pr == C(0):
                forms.append((L(h), 1))
            elif step == -1 and pr == MAXO:
                forms.append((L(MAXO) - L(h), 1))
            elif step == 7 and pr == C(0):
                forms.append((L(h), 7))
        ones = [e for e, d in forms if d == 1]
        if not ones:
            return None, []
        K = ones[0]
        inv = [Lin.const(0) - K, K - L(MAXO)]
        for e, d in forms:
            inv += [e - K.scale(d), K.scale(d) - e]
        return K, inv
    for p in ps:
        if not p.loops:
            continue
        K, inv = count_of(p)
        if K is None:
            return ck.broken('C14.b', fn + ':decoder', where, 'no loop variable counts the octets taken (from 0 up by one, or from maxoctets down by one)')
        facts = eng.path_facts(p) + inv
        upd = [e for e in p.stores() if e.name == NU and e.inloop]
        for e in upd[-1:]:
            nupd += 1
            sh = [x for x in sym.subterms(e.args[0]) if x[0] == '<<' and len(x) == 3]
            if len(sh) != 1 or ('&b', 0x7f) not in consts_under(sh[0][1], ('&b',)) or strip(e.args[0])[0] != '|b':
                bad = bad or 'value update is %s, expected value | (octet & 0x7f) << 7K' % fmt(e.args[0])
                continue
            S = L(strip(sh[0][2]))
            if not (eng.entails(facts, S - K.scale(7)) and eng.entails(facts, K.scale(7) - S)):
                bad = bad or 'octet number K is shifted by %s, expected 7K' % fmt(sh[0][2])
            if not eng.entails(facts, K + 1 - L(MAXO)):
                bad = bad or 'an octet is merged although maxoctets may already have been taken'
        if p.end == 'return' and p.ret is not None:
            r = strip(p.ret)
            if r[0] == 'c' and r[1] < 0:
                if upd:
                    bad = bad or 'a refusal after the octet was merged'
                exhausted = eng.entails(facts, L(MAXO) - K)
                if exhausted:
                    nexh += 1
                    if r[1] != -84:
                        bad = bad or 'an exhausted bound returns %d, expected -EILSEQ' % r[1]
                elif r[1] == -84:
                    bad = bad or 'an in-loop refusal returns -EILSEQ, which is reserved for a missing terminator'
            elif r[0] == 'call':
                pass                        # the source's own error, unchanged
            else:
                nsucc += 1
                d = L(r) - K - 1
                if not (eng.entails(facts, d) and eng.entails(facts, -d)):
                    bad = bad or 'success returns %s, expected the number of octets taken (K + 1)' % fmt(p.ret)
                if not any(('&b', 0x80) in consts_under(c, ('&b',)) for c in p.cond_terms()):
                    bad = bad or 'success is not decided by the continuation bit (octet & 0x80)'
    if bad is None and not (nupd and nsucc and nexh):
        bad = 'decoder paths not found (updates %d, successes %d, exhausted exits %d)' % (nupd, nsucc, nexh)
    ck.verdict(bad is None, 'C14.b', fn + ':decoder', where,
               'octet K is merged as (octet & 0x7f) << 7K under K < maxoctets; success = continuation bit clear, returning K + 1; exhausted at K == maxoctets with -EILSEQ' if bad is None else bad)


def rule_b(ck, u, eng, P):
    def index_form(paths):
        # the decoder rule reads loops that number their octets by an index counting up from 0
        from .common import loop_counter
        for q in paths:
            if q.end == 'loopback' and q.loops:
                return any(pre is not None and sym.is_c(pre, 0) for k, h, pre in loop_counter(paths, q))
        return False
    if 'varint_decode' in P and 'varint_from_source' in P and not (index_form(P['varint_decode']) and index_form(P['varint_from_source'])):
        for fn in ('varint_decode', 'varint_from_source'):
            decoder_by_role(ck, u, eng, fn, P[fn])
    elif 'varint_decode' in P and 'varint_from_source' in P:
        fa = loop_features(P['varint_decode'], lambda k: k[0] == 'f' and k[1] == ('v', 'n'))
        fb = loop_features(P['varint_from_source'], lambda k: k[0] == 'f' and k[1] == ('v', 'n'))
        diffs = [k for k in fa if fa[k] != fb[k] and k != 'err_inloop']
        bad_inloop = [e for e in fa['err_inloop'] | fb['err_inloop'] if e >= 0 or e == -84]
        ck.verdict(not bad_inloop, 'C14.b', 'decoders:cutoff', cast.where(u.fn('varint_decode')),
                   'in-loop refusals (input cut off) use a negative code distinct from the illegal-sequence verdict: %s' % sorted(fa['err_inloop'] | fb['err_inloop'])
                   if not bad_inloop else 'in-loop refusal returns %s (must be negative and not -EILSEQ, which is reserved for a missing terminator)' % bad_inloop)
        ck.verdict(not diffs, 'C14.b', 'decoders', cast.where(u.fn('varint_from_source')),
                   'varint_decode and varint_from_source agree: value update %s, terminator %s, bound %s, error %s, count %s'
                   % (sorted(fa['mask_shift']), sorted(fa['term']), sorted(fa['bound']), sorted(fa['err']), sorted(fa['ret_ok']))
                   if not diffs else 'decoders disagree on %s: buffer %s vs source %s' % (
                       diffs[0], sorted(fa[diffs[0]], key=str), sorted(fb[diffs[0]], key=str)))
        want = {'mask_shift': {('&b', 0x7f), ('*', 7)}, 'term': {('&b', 0x80)}, 'bound': {'i<maxoctets'}, 'err': {-84}}
        for k, v in want.items():
            ck.verdict(fa[k] == v, 'C14.b', 'decoder:' + k, cast.where(u.fn('varint_decode')),
                       '%s = %s' % (k, sorted(v, key=str)) if fa[k] == v else
                       '%s is %s, the code demands %s' % (k, sorted(fa[k], key=str), sorted(v, key=str)))
        ok = fa['ret_ok'] == {'i + 1'}
        ck.verdict(ok, 'C14.b', 'decoder:count', cast.where(u.fn('varint_decode')),
                   'success returns i+1 consumed octets' if ok else 'success returns %s' % sorted(fa['ret_ok']))
    # encoder vs length query
    if 'varint_encode' in P and 'varint_u64_length' in P:
        def enc_feats(paths, with_store):
            f = {'shift': set(), 'stop': set(), 'mask': set(), 'cont': set(), 'count': set()}
            for p in paths:
                for c in p.cond_terms():
                    if c[0] == 'cmp' and c[1] in ('==', '!=') and sym.is_c(c[3], 0):
                        f['stop'].add('n>>k==0')
                        f['shift'] |= {k for op, k in consts_under(c[2], ('>>',))}
                for e in p.stores():
                    if e.name[0] == 'i':
                        v = e.args[0]
                        f['mask'] |= {k for op, k in consts_under(v, ('&b',))}
                        f['cont'] |= {k for op, k in consts_under(v, ('|b',))}
                if p.end == 'return' and p.ret is not None:
                    f['count'].add('counter')
            return f
        fe = enc_feats(P['varint_encode'], True)
        fl = enc_feats(P['varint_u64_length'], False)
        same = fe['shift'] == fl['shift'] and fe['stop'] == fl['stop']
        ck.verdict(same and fe['shift'] == {7}, 'C14.b', 'encoder-vs-length', cast.where(u.fn('varint_u64_length')),
                   'encoder and length query both stop when n >> 7 == 0 after each emitted octet'
                   if same and fe['shift'] == {7} else
                   'encoder uses shift %s / stop %s, length query %s / %s' % (sorted(fe['shift']), sorted(fe['stop']), sorted(fl['shift']), sorted(fl['stop'])))
        ck.verdict(fe['mask'] == {0x7f} and fe['cont'] == {0x80}, 'C14.b', 'encoder:octet', cast.where(u.fn('varint_encode')),
                   'emitted octet = (n & 0x7f) | 0x80 on continuation' if fe['mask'] == {0x7f} and fe['cont'] == {0x80} else
                   'emitted octet uses mask %s / continuation %s' % (sorted(fe['mask']), sorted(fe['cont'])))
        # the count returned is the number of iterations (one octet each): with a loop variable that every completed
        # iteration advances by one from c0, the result in the last iteration is (its value at the loop head) + d with
        # c0 + d == 1 - whichever way the loop is written (for(i = 1;;) returning i, do { ++i } while returning i, ...)
        from .common import loop_counter, _strip_cast as strip_cast
        for fn in ('varint_encode', 'varint_u64_length'):
            f = u.fn(fn)
            ok = None
            why = 'no returning path'
            for pth in P[fn]:
                if pth.end != 'return' or pth.ret is None:
                    continue
                if not pth.loops:
                    ok, why = False, 'a result is returned without running the loop'
                    continue
                r = strip_cast(pth.ret)
                good = False
                for k, h, pre in loop_counter(P[fn], pth):
                    pre_ = strip_cast(pre) if pre is not None else None
                    d = L(r) - L(h)
                    if pre_ is not None and sym.is_c(pre_) and d.is_const() and pre_[1] + int(d.c) == 1:
                        good = True
                if not good:
                    why = 'result %s is not 1 + the number of completed iterations' % fmt(r)
                ok = good if ok is None else (ok and good)
            ck.verdict(bool(ok), 'C14.b', fn + ':counter', cast.where(f),
                       'the result counts one per emitted octet (1 + completed iterations)' if ok else
                       'octet counter wrong: %s' % why)


def rule_source_state(ck, u, eng):
    """C14.g: a decoder that reads from a Source keeps nothing of ONE value in the Source object beyond the call that
    finished it.  The Source is the driver's object; the decoders use it through source_get_octet only.  If a decoder
    does keep progress there (to resume after a driver's -EINTR / -EAGAIN), that progress is state across calls, and
    every return that ends the item - success, -EILSEQ, a hard error - has to leave it as the source constructors set it;
    otherwise the next value read from the same Source starts from the remains of this one (buffer decoder and source
    decoder then disagree on the same octets)."""
    from .. import cast as _cast
    from .common import _strip_cast as strip_cast
    RETRY = {-4, -11}
    fns = []
    for fn, fd in sorted(u.functions.items()):
        if not (_cast.node_file(fd) or '').endswith('variable-length-integer.c'):
            continue
        for prm in u.params(fn):
            if 'Source' in _cast.qual_type(prm) and '*' in _cast.qual_type(prm):
                fns.append((fn, prm['name']))
    nst = 0
    bad = None
    ctor = None
    for fn, pname in fns:
        try:
            ps = eng.paths(fn)
        except (sym.Unsupported, sym.PathLimit) as e:
            ck.broken('C14.g', fn + ':source-state', cast.where(u.fn(fn)), 'path enumeration: %s' % e)
            continue
        root = ('v', pname)
        fields = set()
        for p in ps:
            for e in p.stores():
                if isinstance(e.name, tuple) and sym.rooted_at(e.name, root) and e.name != root:
                    fields.add(e.name)
        if not fields:
            continue
        nst += len(fields)
        if ctor is None:
            ctor = {}
            try:
                uc = cast.load('src/endpoints/core.c')
                ce = sym.Engine(uc, sizeof=sym.unit_sizeofs('src/endpoints/core.c', uc))
                for cf in ('octet_source_init', 'chunk_source_init'):
                    for cp in ce.paths(cf):
                        for e in cp.stores():
                            ctor.setdefault(cf, {})[fmt(sym.substitute(e.name, {('v', 'instance'): ('v', '@')}))] = e.args[0]
            except Exception as e:      # noqa: BLE001
                ck.broken('C14.g', 'source-constructors', 'src/endpoints/core.c', str(e))
                ctor = {}
        for p in ps:
            if p.end != 'return':
                continue
            r = strip_cast(p.ret) if p.ret is not None else None
            retry = False
            if r is not None:
                if sym.is_c(r) and r[1] in RETRY:
                    retry = True
                else:
                    eqs = [c[3][1] for c in p.cond_terms() if c[0] == 'cmp' and c[1] == '==' and strip_cast(c[2]) == r and sym.is_c(c[3])]
                    retry = bool(eqs) and all(v in RETRY for v in eqs)
            if retry:
                continue
            for f in sorted(fields, key=fmt):
                v = strip_cast(sym.mem_read(p.mem, f))
                if v == f and not any(lm.get(f) for nd, lm in p.loops):
                    continue                        # untouched on this path and never written in a loop before it
                kf = fmt(sym.substitute(f, {root: ('v', '@')}))
                want = [c_[kf] for c_ in ctor.values() if kf in c_]
                if not want or not all(w == want[0] for w in want):
                    bad = bad or ('%s keeps %s in the Source object, a field the source constructors do not set: its content is whatever an earlier item left' % (fn, fmt(f)))
                elif v != want[0]:
                    bad = bad or ('%s returns %s with %s = %s left in the Source object (the constructors set %s): the item is over - accepted, refused or failed - but its '
                                  'progress stays, and the next value decoded from this Source starts from it; buffer decoder and source decoder give different answers for '
                                  'the same octets from then on' % (fn, fmt(p.ret), fmt(f), fmt(v), fmt(want[0])))
    if not fns:
        return ck.broken('C14.g', 'source-state', UNIT, 'no decoder taking a Source found (anchor vanished)')
    ck.verdict(bad is None, 'C14.g', 'source-state', UNIT,
               ('the decoders keep nothing in the Source object (%d functions taking a Source)' % len(fns)) if (bad is None and nst == 0) else
               ('progress kept in the Source object (%d fields) is back to its constructed value on every return that ends an item' % nst) if bad is None else bad)


def rule_source_reader(ck, u, eng, P):
    """C14.h: the source decoder takes its octets through the exact-count reader (source_get_chunk with count 1), as the
    fixed-width prefixes of length-prefix.c and sts_cbc do, and looks at an octet only after the reader reported success.
    The one-shot source_get_octet hands the driver's answer through: 0 ("nothing moved, ask again") is then taken for a
    delivered octet (an uninitialised one), and -EINTR / -EAGAIN end the value after part of it was consumed - the
    repeated call decodes the rest as a value of its own, and a length-prefixed stream is out of step from there on.
    Buffer decoder and source decoder then disagree on the same octets for a source that fragments its reads."""
    fn = 'varint_from_source'
    ps = P.get(fn)
    if ps is None:
        return
    where = cast.where(u.fn(fn))
    bad = None
    nget = 0
    for p in ps:
        gets = [e for e in p.calls() if e.name in ('source_get_octet', 'source_get_chunk', 'source_get_chunk_atmost')]
        for e in gets:
            nget += 1
            if e.name == 'source_get_octet' or e.name == 'source_get_chunk_atmost':
                bad = bad or ('the decoder reads through %s (%s), which hands a driver answer of 0 / -EINTR / -EAGAIN through: an octet never delivered is used, or the value is '
                              'abandoned after part of it was consumed; the exact-count reader source_get_chunk(source, &octet, 1) repeats the request until the octet has moved'
                              % (e.name, e.where()))
            elif e.name == 'source_get_chunk' and e.args[2] != C(1):
                bad = bad or 'reads %s octets per step' % fmt(e.args[2])
        # an error result ends the call before anything derived from the octet is stored into the result
        for e in gets:
            failed = any(c == ('cmp', '<', e.result, C(0)) for c in p.cond_terms())
            if not failed or p.end != 'return':
                continue
            after = [st for st in p.stores() if p.effects.index(st) > p.effects.index(e) and sym.rooted_at(st.name, ('v', 'n'))]
            if after:
                bad = bad or ('the octet is merged into the result (%s) before the reader\'s result is tested: on a failed read an indeterminate octet is used' % after[0].where())
    if nget == 0:
        return ck.broken('C14.h', fn + ':reader', where, 'no read call found')
    ck.verdict(bad is None, 'C14.h', fn + ':reader', where,
               'octets are taken through the exact-count reader and used only after it succeeded (%d read sites on all paths)' % nget if bad is None else bad)


def rule_c(ck, u):
    names = ['VARINT_DATA_BITS', 'VARINT_DATA_MASK', 'VARINT_CONTINUATION_MASK',
             'VARINT_32BIT_MAX_OCTETS', 'VARINT_64BIT_MAX_OCTETS']
    try:
        v = dict(zip(names, front.probe_values(UNIT, names)))
    except front.FrontError as e:
        return ck.broken('C14.c', 'constants', '', str(e))
    bits = v['VARINT_DATA_BITS']
    want = {'VARINT_DATA_BITS': 7, 'VARINT_DATA_MASK': (1 << bits) - 1, 'VARINT_CONTINUATION_MASK': 1 << bits,
            'VARINT_32BIT_MAX_OCTETS': -(-32 // bits), 'VARINT_64BIT_MAX_OCTETS': -(-64 // bits)}
    for n in names:
        ck.verdict(v[n] == want[n], 'C14.c', n, 'include/ufw/variable-length-integer.h',
                   '%s = %d' % (n, v[n]) if v[n] == want[n] else '%s = %d, expected %d' % (n, v[n], want[n]))


def rule_d(ck, u):
    """wrappers through the bit domain"""
    captured = {}

    def mk_hooks(tag):
        def h_decode(fr, args, node):
            # args: (b|source, maxoctets, &data) -> fills *data with fresh symbols, returns success
            captured[tag] = {'max': args[1].const_value()}
            p = args[2]
            if not (isinstance(p, Ptr) and p.base[0] == 'local'):
                raise bitdom.Unsupported('decoder result not a local')
            o = fr.objs[p.base[1]]
            o['bits'] = [(0, frozenset(['out.%d' % i])) for i in range(o['size'] * 8)]
            return BV.const(1, 32, True)

        def h_enc(fr, args, node):
            captured[tag] = {'value': args[0]}
            return BV.const(1, 32, True)

        def h_len(fr, args, node):
            captured[tag] = {'value': args[0]}
            return BV.const(1, 64, False)

        def h_avail(fr, args, node):
            return BV.const(64, 64, False)
        return {'varint_decode': h_decode, 'varint_from_source': h_decode, 'varint_encode': h_enc,
                'varint_u64_length': h_len, 'byte_buffer_avail': h_avail}

    def run_wrapper(name, args):
        ip = bitdom.Interp(u, hooks=mk_hooks(name), skip_guard_returns=True)
        return ip.run(name, args)

    # decoders / from_source
    for fam, first in (('varint_decode_%s', 'b'), ('varint_%s_from_source', 'source')):
        for w, signed in ((32, False), (32, True), (64, False), (64, True)):
            name = fam % ('%s%d' % ('s' if signed else 'u', w))
            f = u.fn(name)
            if f is None:
                ck.broken('C14.d', name, '', 'function missing')
                continue
            ck.function(name)
            try:
                ret, stores, loads = run_wrapper(name, [Ptr(('param', first)), Ptr(('param', 'n'))])
            except bitdom.Unsupported as e:
                ck.broken('C14.d', name, cast.where(f), 'outside the bit domain: %s' % e)
                continue
            cap = captured.get(name, {})
            want_max = -(-w // 7)
            exp = {(('param', 'n'), j): [(0, frozenset(['out.%d' % (8 * j + k)])) for k in range(8)] for j in range(w // 8)}
            d = None
            if cap.get('max') != want_max:
                d = 'passes max octets %s, a %d-bit value needs %d' % (cap.get('max'), w, want_max)
            elif stores != exp:
                d = 'delivered value is not the low %d bits of the decoded number, bit for bit' % w
            ck.verdict(d is None, 'C14.d', name, cast.where(f),
                       d or 'delivers exactly bits 0..%d of the decoded number (max %d octets)' % (w - 1, want_max))
    # encoders and length queries
    vals = {}
    for fam in ('varint_encode_%s', 'varint_%s_length'):
        for w, signed in ((32, False), (32, True), (64, False), (64, True)):
            t = '%s%d' % ('s' if signed else 'u', w)
            name = fam % t
            if name == 'varint_u64_length':
                continue            # the core loop itself
            f = u.fn(name)
            if f is None:
                ck.broken('C14.d', name, '', 'function missing')
                continue
            ck.function(name)
            n = BV.sym('n', w, signed)
            try:
                if fam.startswith('varint_encode'):
                    run_wrapper(name, [Ptr(('param', 'b')), n])
                else:
                    run_wrapper(name, [n])
            except bitdom.Unsupported as e:
                ck.broken('C14.d', name, cast.where(f), 'outside the bit domain: %s' % e)
                continue
            v = captured.get(name, {}).get('value')
            exp = list(n.bits) + [ZERO] * (64 - w)
            ok = v is not None and list(v.convert(64, False).bits) == exp
            vals[name] = v
            ck.verdict(ok, 'C14.d', name, cast.where(f),
                       'hands the core loop exactly the %d-bit pattern of n, zero-extended to 64 bits' % w if ok else
                       'value handed to the core loop is not the zero-extended %d-bit pattern of n: %r' % (w, v))
    # encode guard constants: avail < MAX for the width
    # whichever way the room is computed (byte_buffer_avail or size - used spelled out): the encoder refuses exactly when
    # fewer than the width's maximum are free
    eng = sym.Engine(u, sizeof={}, other_units=[cast.load('src/byte-buffer.c')])
    for w, mx in ((32, 5), (64, 10)):
        for sgn in 'us':
            name = 'varint_encode_%s%d' % (sgn, w)
            if u.fn(name) is None:
                continue
            ps = eng.paths(name)
            bpar = [q['name'] for q in u.params(name) if '*' in cast.qual_type(q)]
            if not bpar:
                ck.broken('C14.d', name + ':room', cast.where(u.fn(name)), 'no buffer parameter')
                continue
            B = ('v', bpar[0])
            AVAIL = L(('f', B, 'size')) - L(('f', B, 'used'))
            nref = 0
            ok = True
            for p in ps:
                facts = eng.path_facts(p)
                if p.ret is not None and p.ret[0] == 'c' and p.ret[1] < 0:
                    nref += 1
                    if not eng.entails(facts, AVAIL - (mx - 1)):
                        ok = False
                elif not eng.entails(facts, Lin.const(mx) - AVAIL):
                    ok = False
            ok = ok and nref >= 1
            ck.verdict(ok, 'C14.d', name + ':room', cast.where(u.fn(name)),
                       'refuses unless %d octets are available' % mx if ok else
                       'does not refuse when fewer than %d octets are available' % mx)
    # to_sink wrappers: scratch array and space() length >= max octets of the width
    for w, mx in ((32, 5), (64, 10)):
        for sgn in 'us':
            name = 'varint_%s%d_to_sink' % (sgn, w)
            f = u.fn(name)
            if f is None:
                ck.broken('C14.d', name, '', 'function missing')
                continue
            ps = eng.paths(name)
            ok = bool(ps)
            detail = ''
            for p in ps:
                sp = p.calls('byte_buffer_space')
                en = p.calls('varint_encode_%s%d' % (sgn, w))
                sk = p.calls('sink_put_chunk')
                if not sp and len(en) == 1 and len(sk) == 1:
                    bb = [x for x in cast.walk(f) if cast.kind(x) == 'VarDecl' and ('ByteBuffer' in cast.qual_type(x) or 'byte_buffer' in cast.qual_type(x))]
                    other = [c_ for c_ in p.calls() if c_.name.startswith('byte_buffer_')]
                    if any(x.get('inner') for x in bb) or other:
                        ok, detail = None, 'the scratch buffer is set up by an initialiser or another helper, not by byte_buffer_space: the rule reads the capacity off that call'
                    else:
                        ok, detail = False, 'the scratch ByteBuffer is handed to the encoder without having been set up (no byte_buffer_space, no initialiser): data, size and used are indeterminate'
                    break
                if len(sp) != 1 or len(en) != 1 or len(sk) != 1:
                    ok, detail = False, 'expected space/encode/put sequence'
                    break
                if not (sym.is_c(sp[0].args[2]) and sp[0].args[2][1] >= mx):
                    ok, detail = False, 'scratch space %s < %d' % (fmt(sp[0].args[2]), mx)
                # array size from the declaration
                arr = [x for x in cast.walk(f) if cast.kind(x) == 'VarDecl' and '[' in cast.qual_type(x)]
                if arr:
                    n_el = int(cast.qual_type(arr[0]).split('[')[1].split(']')[0])
                    if n_el < sp[0].args[2][1]:
                        ok, detail = False, 'array of %d octets announced as %d' % (n_el, sp[0].args[2][1])
                rv = p.ret[2] if p.ret is not None and p.ret[0] == 'cast' else p.ret
                if rv != sk[0].result:
                    ok, detail = False, 'does not return the sink result'
            if ok is None:
                ck.broken('C14.d', name, cast.where(f), detail)
                continue
            ck.verdict(ok, 'C14.d', name, cast.where(f),
                       'encodes into a %d-octet scratch buffer and puts exactly its used octets' % mx if ok else detail)
