"""C13 Length-prefix framing carries exactly the designated octets.

Decided: the kind table (a), the ByteBuffer region discipline of every buffer
entry point (b), chunk-list totals and emission (c), refusal before emission and
reported totals (d), decoder capacity check (e).  Not decided: behaviour under
source fragmentation (that is C17's retry discipline)."""
from .. import cast, sym, lin, bitdom, front
from .common import distinct_enums
from ..sym import C, fmt, linearize as L
from ..lin import Lin
from ..bitdom import BV, Ptr

UNIT = 'src/length-prefix.c'
ORACLE = {   # enumerator -> (size, union member, endianness, width)   [property text: "varint, one octet, 16/32-bit little/big endian"]
    'LENP_VARIABLE': (0, None, None, 0),
    'LENP_OCTET': (1, 'u8', None, 8),
    'LENP_LE_16BIT': (2, 'u16', 'l', 16),
    'LENP_LE_32BIT': (4, 'u32', 'l', 32),
    'LENP_BE_16BIT': (2, 'u16', 'b', 16),
    'LENP_BE_32BIT': (4, 'u32', 'b', 32),
}


SHORT_READERS = ('source_get_chunk_atmost', 'source.chunk', 'source_adapt')   # may return before n octets arrived


def strip_cast(t):
    while t is not None and t[0] == 'cast':
        t = t[2]
    return t


def fnref(n):
    n = cast.strip_all_casts(n)
    if cast.kind(n) == 'DeclRefExpr':
        return n['referencedDecl']['name']
    if cast.kind(n) == 'ImplicitValueInitExpr':
        return None
    v = None
    return v


def rule_a(ck, u):
    g = u.globals.get('kind')
    if g is None:
        return ck.broken('C13.a', 'kind[]', '', 'table not found')
    where = cast.where(g)
    il = cast.strip(g['inner'][0])
    rows = cast.inner(il)
    enum = dict(u.enum_decls.get('ufw_lenp_kind', []))
    ck.floor('C13.a', 'LengthPrefixKind enumerators', len(enum), 6)
    if len(rows) != len(enum):
        ck.violation('C13.a', 'kind[]:rows', where, 'table has %d rows, the enum has %d enumerators' % (len(rows), len(enum)))
    maxsize = 0
    for name, idx in sorted(enum.items(), key=lambda kv: kv[1]):
        if idx >= len(rows):
            ck.violation('C13.a', 'kind[%s]' % name, where, 'no table row')
            continue
        want = ORACLE.get(name)
        if want is None:
            ck.broken('C13.a', 'kind[%s]' % name, where, 'enumerator unknown to the oracle table')
            continue
        row = cast.strip(rows[idx])
        if cast.kind(row) != 'InitListExpr':
            ck.violation('C13.a', 'kind[%s]' % name, where, 'row not initialised')
            continue
        cells = cast.inner(row)
        size = u.const_value(cells[0])
        cb = cast.strip(cells[1])
        maximum = u.const_value(cells[2])
        member = cb.get('field', {}).get('name') if cast.kind(cb) == 'InitListExpr' else None
        parse = gen = None
        if cast.kind(cb) == 'InitListExpr' and cb.get('inner'):
            sd = cast.strip(cb['inner'][0])
            if cast.kind(sd) == 'InitListExpr' and len(sd.get('inner', [])) >= 2:
                parse, gen = fnref(sd['inner'][0]), fnref(sd['inner'][1])
        wsize, wmember, wend, wwidth = want
        maxsize = max(maxsize, size or 0)
        problems = []
        if size != wsize:
            problems.append('size %s, expected %d' % (size, wsize))
        if wsize:
            if member != wmember:
                problems.append('callbacks stored in member %s, expected %s' % (member, wmember))
            if maximum != (1 << (8 * wsize)) - 1:
                problems.append('maximum %s, expected %d' % (maximum, (1 << (8 * wsize)) - 1))
            if wend:
                if parse != 'bf_ref_u%d%s' % (wwidth, wend):
                    problems.append('parse is %s, expected bf_ref_u%d%s' % (parse, wwidth, wend))
                if gen != 'bf_set_u%d%s' % (wwidth, wend):
                    problems.append('generate is %s, expected bf_set_u%d%s' % (gen, wwidth, wend))
            else:
                # one-octet pair: check by bit summary
                for fn, is_set in ((parse, False), (gen, True)):
                    if fn is None or u.fn(fn) is None:
                        problems.append('octet callback missing')
                        continue
                    ip = bitdom.Interp(u)
                    try:
                        if is_set:
                            v = BV.sym('value', 8)
                            ret, st, ld = ip.run(fn, [Ptr(('param', 'ptr'), 0, 1), v])
                            if st != {(('param', 'ptr'), 0): list(v.bits)} or not (isinstance(ret, Ptr) and ret.off == 1):
                                problems.append('%s does not store exactly one octet and return ptr+1' % fn)
                        else:
                            ret, st, ld = ip.run(fn, [Ptr(('param', 'ptr'), 0, 1)])
                            exp = [(0, frozenset(['ptr[0].%d' % b])) for b in range(8)]
                            if list(ret.bits[:8]) != exp or st:
                                problems.append('%s does not load exactly one octet' % fn)
                    except bitdom.Unsupported as e:
                        problems.append('%s outside bit domain: %s' % (fn, e))
        ck.verdict(not problems, 'C13.a', 'kind[%s]' % name, where,
                   'size %d, member %s, %s/%s, maximum %s' % (size, member, parse, gen, maximum) if not problems else '; '.join(problems))
    # size switch -> member agreement in encode_prefix / decode_prefix
    for fn, cbname in (('encode_prefix', 'generate'), ('decode_prefix', 'parse')):
        f = u.fn(fn)
        if f is None:
            ck.broken('C13.a', fn + ':switch', '', 'function missing')
            continue
        ck.function(fn)
        # decided on the paths, so that a switch, an if-chain or a helper read the same: every call through
        # kind[k].cb.<member>.<callback> is made under kind[k].size == <the member's width>, and each width has its call
        try:
            pps = sym.Engine(u, sizeof={}, inline=set()).paths(fn)
        except (sym.Unsupported, sym.PathLimit) as e:
            ck.broken('C13.a', fn + ':switch', cast.where(f), 'path enumeration: %s' % e)
            continue
        arms = {}
        odd = None
        for p in pps:
            for e in p.effects:
                if e.kind != 'icall' or not e.chain or e.chain[-1] != cbname or len(e.chain) < 2:
                    continue
                member = e.chain[-2]
                sizes = [c[3][1] for c in p.cond_terms() if c[0] == 'cmp' and c[1] == '==' and sym.is_c(c[3])
                         and strip_cast(c[2])[0] == 'f' and strip_cast(c[2])[2] == 'size']
                if len(set(sizes)) != 1:
                    odd = 'the %s call through member %s is not made under one value of kind[k].size (%s)' % (cbname, member, sizes)
                    continue
                if arms.setdefault(sizes[0], member) != member:
                    odd = 'size %d dispatches to members %s and %s' % (sizes[0], arms[sizes[0]], member)
        want = {1: 'u8', 2: 'u16', 4: 'u32'}
        ok = arms == want and odd is None
        ck.verdict(ok, 'C13.a', fn + ':switch', cast.where(f),
                   'size 1/2/4 dispatch to members u8/u16/u32' if ok else (odd or 'size -> member map is %s, expected %s' % (arms, want)))
    # scratch arrays
    f = u.fn('decode_prefix')
    if f is not None:
        arr = [x for x in cast.walk(f) if cast.kind(x) == 'VarDecl' and '[' in cast.qual_type(x)]
        n = int(cast.qual_type(arr[0]).split('[')[1].split(']')[0]) if arr else 0
        ck.verdict(n >= maxsize, 'C13.a', 'decode_prefix:scratch', cast.where(f),
                   'scratch of %d octets holds the largest fixed prefix (%d)' % (n, maxsize) if n >= maxsize else
                   'scratch of %d octets, largest prefix is %d' % (n, maxsize))
    try:
        vals = front.probe_values(UNIT, ['sizeof(((LengthPrefixBuffer*)0)->prefix_)', 'VARINT_64BIT_MAX_OCTETS',
                                         'sizeof(((LengthPrefixChunks*)0)->prefix_)'])
        ok = vals[0] >= max(vals[1], maxsize) and vals[2] >= max(vals[1], maxsize)
        ck.verdict(ok, 'C13.a', 'prefix_:capacity', 'include/ufw/length-prefix.h',
                   'prefix_ arrays (%d/%d octets) hold the longest prefix (%d)' % (vals[0], vals[2], max(vals[1], maxsize)) if ok else
                   'prefix_ arrays of %d/%d octets, longest prefix is %d' % (vals[0], vals[2], max(vals[1], maxsize)))
    except front.FrontError as e:
        ck.broken('C13.a', 'prefix_:capacity', '', str(e))
    return maxsize


def run(ck):
    ck.rule('C13.g', 'the endpoint calls the framing rests on (sink_put_chunk, source_get_chunk, their adaptors, sts_n / sts_cbc) keep their transfer-position and retry discipline (C17.a-d, C17.f re-evaluated): a frame\'s octets are exactly the designated ones also when the driver interrupts')
    ck.rule('C13.a', 'kind table: per LengthPrefixKind the size, union member, parse/generate pair (width, endianness; C15-proved codecs) and maximum 2^(8*size)-1 agree; size switches dispatch to the matching member; scratch arrays hold the largest prefix')
    ck.rule('C13.b', 'region discipline of the ByteBuffer entry points: payload read = (data+offset, unread count or n <= unread) advancing offset by n; decoder writes at data+used bounded by size-used advancing used by the decoded length')
    ck.rule('C13.c', 'chunk lists: prefix = sum of unread counts over [active, chunks); each emitted chunk is its unread region; zero-length chunks are never handed to sink_put_chunk (which refuses 0)')
    ck.rule('C13.d', 'refusal (length beyond the kind maximum / SSIZE_MAX) precedes every emission; reported total = prefix length + payload length')
    ck.rule('C13.e', 'decoder: prefix read of exactly kind.size octets; length > capacity gives -ENOMEM before the payload read; payload read of exactly the decoded length')
    ck.not_decided += ['consecutive frames under arbitrary source fragmentation (C17 retry discipline)',
                       'payload length 0 (outside the stated range 1..max)']
    u = cast.load(UNIT)
    ub = cast.load('src/byte-buffer.c')
    ck.unit(UNIT)
    rule_a(ck, u)
    so = sym.unit_sizeofs(UNIT, u)
    eng = sym.Engine(u, sizeof=so, inline={'byte_buffer_rest', 'byte_buffer_avail'}, other_units=[ub])
    b = ('v', 'b')
    off, used, size, data = (('f', b, x) for x in ('offset', 'used', 'size', 'data'))
    inv = [lin.le(L(off), L(used)), lin.le(L(used), L(size))]

    def paths(fn):
        ck.function(fn)
        if u.fn(fn) is None:
            ck.broken('C13.b', fn, '', 'function missing')
            return None
        try:
            ps = eng.paths(fn)
            ck.analysed['paths'] += len(ps)
            return ps
        except (sym.Unsupported, sym.PathLimit) as e:
            ck.broken('C13.b', fn, cast.where(u.fn(fn)), 'path enumeration: %s' % e)
            return None

    def eq(facts, a, b_):
        d = (a if isinstance(a, Lin) else L(a)) - (b_ if isinstance(b_, Lin) else L(b_))
        return eng.entails(facts, d) and eng.entails(facts, -d)

    # ---- C13.a wrappers: the varint front end lenp_X(args) is flenp_X(LENP_VARIABLE, args) ------------------------
    names = sorted(n for n in u.functions_in_file('length-prefix.h') if n.startswith('lenp_'))
    ck.floor('C13.a', 'lenp_* wrappers in length-prefix.h', len(names), 11)
    distinct_enums(ck, u, 'C13.a', ('LENP_',), 'include/ufw/length-prefix.h')
    VAR = u.enums.get('LENP_VARIABLE')
    engw = sym.Engine(u, sizeof=so, inline=set())
    for w in names:
        ck.function(w)
        try:
            ps = engw.paths(w)
        except (sym.Unsupported, sym.PathLimit) as e:
            ck.broken('C13.a', w, 'include/ufw/length-prefix.h', str(e))
            continue
        bad = None
        params = [('v', q['name']) for q in u.params(w)]
        for p in ps:
            cs = [e for e in p.effects if e.kind in ('call', 'icall')]
            if len(cs) != 1 or cs[0].name != 'f' + w:
                bad = 'does not forward to f%s: %s' % (w, [e.name for e in cs])
                continue
            a = list(cs[0].args)
            if not a or a[0] != C(VAR):
                nm = [k for k, v in u.enums.items() if k.startswith('LENP_') and a and a[0] == C(v)]
                bad = ('selects prefix kind %s, the lenp_ family is the variable-length (varint) encoding: frames of 128 octets and more get a different prefix than the '
                       'decoder of the same family expects' % (nm[0] if nm else (fmt(a[0]) if a else '?')))
            elif [strip_cast(x) for x in a[1:]] != params:
                bad = 'arguments are passed on as (%s)' % ', '.join(fmt(x) for x in a[1:])
            elif strip_cast(p.ret) != cs[0].result:
                bad = 'the result of f%s is not returned' % w
        ck.verdict(bad is None, 'C13.a', w, cast.where(u.fn(w)), 'forwards to f%s(LENP_VARIABLE, ...) unchanged' % w if bad is None else bad)

    # ---- C13.b encoders from a buffer ------------------------------------------------
    def reader(fn, callee, ptr_i, len_i, counted):
        ps = paths(fn)
        if ps is None:
            return
        # a counted variant that frames a window of the buffer through its plain sibling (flenp_buffer_encode(k, lpb, &w)):
        # the sibling is looked into, so that the region it hands on is read in terms of the caller's buffer
        sib = fn[:-2] if fn.endswith('_n') else None
        if sib and any(p.calls(sib) for p in ps):
            try:
                ps = sym.Engine(u, sizeof=so, inline={'byte_buffer_rest', 'byte_buffer_avail', sib}, other_units=[ub]).paths(fn)
            except (sym.Unsupported, sym.PathLimit) as e:
                return ck.broken('C13.b', fn, cast.where(u.fn(fn)), 'path enumeration through %s: %s' % (sib, e))
        where = cast.where(u.fn(fn))
        bad = None
        ncall = 0
        for p in ps:
            facts = eng.path_facts(p) + inv
            cs = p.calls(callee)
            n = ('v', 'n')
            if not cs:
                if counted and p.ret is not None and p.ret[0] == 'c' and p.ret[1] < 0:
                    # refusal must mean n > unread
                    if eng.feasible(p.cond_terms(), inv + [lin.le(L(n), L(used) - L(off))]):
                        bad = 'refuses although n unread octets are present: %s' % p.describe()
                    if p.stores():
                        bad = 'refusing path modifies the buffer'
                    continue
                bad = 'path without %s: %s' % (callee, p.describe())
                continue
            ncall += 1
            c = cs[0]
            if not eq(facts, c.args[ptr_i], sym.add(data, off)):
                bad = 'payload pointer is %s, the unread content starts at data+offset' % fmt(c.args[ptr_i])
            want_len = L(n) if counted else L(used) - L(off)
            if not eq(facts, L(c.args[len_i]), want_len):
                bad = 'frames %s octets, expected %s (%s)' % (fmt(c.args[len_i]), want_len, 'the first n unread octets' if counted else 'the unread content')
            if counted:
                if not eng.entails(facts, L(n) - (L(used) - L(off))):
                    bad = 'n <= unread count not established before framing'
                fo = p.mem.get(off, off)
                # the n octets are consumed when they were framed; a refusal (length beyond the kind's maximum, a failing
                # sink) has emitted no frame and must leave them where they are
                failed = eng.entails(facts, L(c.result) + 1)
                worked = eng.entails(facts, -L(c.result))
                if failed:
                    if fo != off:
                        bad = ('the buffer is advanced by n although %s refused (result < 0): nothing was framed, yet the n octets are gone from the buffer' % callee)
                elif worked:
                    if not eq(facts, L(fo), L(off) + L(n)):
                        bad = "offset' = %s, expected offset + n" % fmt(fo)
                else:
                    if fo != off:
                        bad = ('the buffer is advanced by n whatever %s reports: on a refusal (length beyond the kind\'s maximum, failing sink) nothing was framed, '
                               'yet the n octets are gone from the buffer' % callee)
                    else:
                        bad = 'offset is not advanced after successful framing'
            else:
                if p.mem.get(off, off) != off:
                    bad = 'offset modified by the whole-content variant'
            if p.mem.get(used, used) != used or p.mem.get(size, size) != size:
                bad = 'used/size modified'
            if strip_cast(p.ret) != c.result:
                bad = 'does not return the result of %s' % callee
        if ncall == 0 and bad is None:
            bad = 'never calls %s' % callee
        ck.verdict(bad is None, 'C13.b', fn, where,
                   'hands (data+offset, %s) to %s%s' % ('n' if counted else 'used-offset', callee, ', advances offset by n' if counted else '') if bad is None else bad)

    reader('flenp_buffer_encode', 'flenp_memory_encode', 2, 3, False)
    reader('flenp_buffer_encode_n', 'flenp_memory_encode', 2, 3, True)
    reader('flenp_buffer_to_sink', 'flenp_memory_to_sink', 2, 3, False)
    reader('flenp_buffer_to_sink_n', 'flenp_memory_to_sink', 2, 3, True)

    # ---- C13.b decoder into a buffer -----------------------------------------------
    fn = 'flenp_buffer_from_source'
    ps = paths(fn)
    if ps is not None:
        bad = None
        for p in ps:
            facts = eng.path_facts(p) + inv
            cs = p.calls('flenp_memory_from_source')
            if len(cs) != 1:
                bad = 'expected one flenp_memory_from_source call'
                continue
            c = cs[0]
            if not eq(facts, c.args[2], sym.add(data, used)):
                bad = 'decodes to %s, the free region starts at data+used (appending to the filled region)' % fmt(c.args[2])
            elif not eq(facts, L(c.args[3]), L(size) - L(used)):
                bad = 'capacity passed is %s, the free region has size-used octets' % fmt(c.args[3])
            r = c.result
            ok_branch = any(cc == ('cmp', '<=', C(0), r) for cc in p.cond_terms())
            fu = p.mem.get(used, used)
            fo = p.mem.get(off, off)
            if ok_branch:
                if not eq(facts, L(fu), L(used) + L(r)):
                    bad = bad or "used' = %s after a successful decode, expected used + decoded length" % fmt(fu)
                if fo != off:
                    bad = bad or 'offset modified: the decoded octets must become unread content, not consumed'
            else:
                if fu != used or fo != off:
                    bad = bad or 'buffer fields modified on failure'
            if strip_cast(p.ret) != r:
                bad = bad or 'does not return the decode result'
        ck.verdict(bad is None, 'C13.b', fn, cast.where(u.fn(fn)),
                   'decodes to (data+used, size-used) and advances used by the decoded length' if bad is None else bad)

    # ---- flenp_memory_encode ----------------------------------------------------------
    fn = 'flenp_memory_encode'
    ps = paths(fn)
    if ps is not None:
        bad = None
        for p in ps:
            ep = p.calls('encode_prefix')
            bu = p.calls('byte_buffer_use')
            if len(ep) != 1:
                bad = 'expected one encode_prefix call'
                continue
            if len(ep[0].args) != 4:
                ck.broken('C13.d', fn if 'fn' in dir() else 'encode_prefix:use', cast.where(ep[0].node) if ep[0].node else '',
                          'encode_prefix is called with %d arguments; the rule reads the confirmed form (kind, memory, capacity, length)' % len(ep[0].args))
                bad = None
                break
            if ep[0].args[0] != ('v', 'k') or ep[0].args[3] != ('v', 'n'):
                bad = 'encode_prefix called with (%s, .., %s)' % (fmt(ep[0].args[0]), fmt(ep[0].args[3]))
            neg = any(c == ('cmp', '<', ep[0].result, C(0)) for c in p.cond_terms())
            if neg:
                if bu or strip_cast(p.ret) != ep[0].result:
                    bad = 'prefix refusal not returned unchanged / payload set up anyway'
            else:
                if len(bu) != 1 or bu[0].args[1] != ('v', 'buf') or bu[0].args[2] != ('v', 'n'):
                    bad = 'payload buffer not set to (buf, n)'
        ck.verdict(bad is None, 'C13.d', fn, cast.where(u.fn(fn)),
                   'prefix for n then payload window (buf, n); refusal returned before the payload is set' if bad is None else bad)

    # ---- C13.d totals keep their width ------------------------------------------------------------------------
    # The reported total is prefix length + payload length, up to 2^32 + 4 for the 32-bit kinds: a result that passes
    # through a narrower object on its way out (an `int` local) comes back truncated or as a bogus negative "error".
    nfn = 0
    for fn in sorted(f for f in u.functions_in_file('length-prefix.c') if u.body(f) is not None):
        rt = cast.qual_type(u.fn(fn)).split('(')[0].strip()
        if rt not in ('ssize_t', 'long', 'size_t', 'unsigned long'):
            continue
        ps = paths(fn)
        if ps is None:
            continue
        nfn += 1
        bad = None
        for p in ps:
            if p.ret is None:
                continue
            for x in sym.subterms(p.ret):
                if x[0] == 'cast' and x[1] in eng.INT_MAX_OF and not sym.is_c(x[2]):
                    inner = x[2]
                    # results that can be as large as a payload: totals of the unit's own entry points, or transfers whose
                    # count involves a parameter of this function (the prefix itself is a handful of octets)
                    params = {('v', q['name']) for q in u.params(fn)}
                    wide = [y for y in sym.subterms(inner) if y[0] == 'call' and
                            (y[1].startswith(('flenp_', 'lenp_')) or any(sym.contains(a, q) for a in y[2][2:] for q in params if isinstance(a, tuple)))]
                    if not wide:
                        continue
                    facts = eng.path_facts(p)
                    mx = eng.INT_MAX_OF[x[1]]
                    if not (eng.entails(facts, L(inner) - mx) and eng.entails(facts, Lin.const(-mx - 1) - L(inner))):
                        bad = bad or ('the result %s is returned through an object of type %s: totals beyond %d (a 32-bit kind near its maximum, '
                                      'or a varint frame of 2 GiB) come back truncated or negative although the frame was emitted' % (fmt(inner), x[1], mx))
        ck.verdict(bad is None, 'C13.d', fn + ':width', cast.where(u.fn(fn)),
                   'the reported total reaches the caller in full width' if bad is None else bad)
    ck.floor('C13.d', 'entry points returning a total', nfn, 8)

    # ---- C13.d encode_prefix refusal and flenp_memory_to_sink totals --------------------
    fn = 'encode_prefix'
    ps = paths(fn)
    if ps is not None:
        bad = None
        nrefuse = 0
        k, n = ('v', 'k'), ('v', 'n')
        for p in ps:
            emits = [e for e in p.effects if (e.kind == 'icall' and e.name.endswith('generate')) or
                     (e.kind == 'call' and e.name in ('varint_encode_u64', 'byte_buffer_space', 'byte_buffer_use'))]
            if p.ret is not None and p.ret[0] == 'c' and p.ret[1] < 0:
                nrefuse += 1
                if emits:
                    bad = 'refusing path already wrote the prefix'
                continue
            facts = eng.path_facts(p)
            isvar = any(c == ('cmp', '==', k, C(0)) for c in p.cond_terms())
            if not isvar:
                # n <= kind[k].maximum must be on the path
                got = any(c[0] == 'cmp' and c[1] == '<=' and c[2] == n and 'maximum' in fmt(c[3]) for c in p.cond_terms())
                if not got:
                    bad = 'fixed-width prefix emitted without n <= kind[k].maximum: %s' % p.describe()
            gens = [e for e in p.effects if e.kind == 'icall' and e.name.endswith('generate')]
            for g in gens:
                if strip_cast(g.args[1]) != n or g.args[0] != ('v', 'mem'):
                    bad = 'generate called with (%s, %s), expected (mem, n)' % (fmt(g.args[0]), fmt(g.args[1]))
            ve = p.calls('varint_encode_u64')
            for v in ve:
                if strip_cast(v.args[1]) != n:
                    bad = 'varint prefix encodes %s, expected n' % fmt(v.args[1])
            if not gens and not ve:
                bad = 'success path emits no prefix: %s' % p.describe()
        if nrefuse < 2 and bad is None:
            bad = 'expected refusing paths (n > SSIZE_MAX, n > maximum), found %d' % nrefuse
        ck.verdict(bad is None, 'C13.d', fn, cast.where(u.fn(fn)),
                   'lengths beyond SSIZE_MAX / the kind maximum are refused before anything is written; the prefix encodes exactly n' if bad is None else bad)

    for fn, sizeterm in (('flenp_memory_to_sink', ('v', 'n')),):
        ps = paths(fn)
        if ps is None:
            continue
        bad = None
        for p in ps:
            ep = p.calls('encode_prefix')
            sk = p.calls('sink_put_chunk')
            if len(ep) != 1:
                bad = 'expected one encode_prefix'
                continue
            neg = any(c == ('cmp', '<', ep[0].result, C(0)) for c in p.cond_terms())
            if neg and sk:
                bad = 'emits after the prefix was refused'
            if p.ret is not None and p.ret[0] == 'c' and p.ret[1] < 0 and sk:
                bad = 'constant refusal after emission started'
            if len(sk) == 2:
                if sk[1].args[1] != ('v', 'buf') or sk[1].args[2] != sizeterm:
                    bad = 'payload put is (%s, %s), expected (buf, n)' % (fmt(sk[1].args[1]), fmt(sk[1].args[2]))
                pre_len = sk[0].args[2]
                ok_tail = p.ret is not None and p.ret[0] != 'c'
                if ok_tail and strip_cast(p.ret) not in (sk[0].result, sk[1].result):
                    d = L(strip_cast(p.ret)) - L(pre_len) - L(sizeterm)
                    if not (d.is_const() and d.c == 0):
                        bad = 'reports %s, expected prefix length + n' % fmt(p.ret)
        ck.verdict(bad is None, 'C13.d', fn, cast.where(u.fn(fn)),
                   'prefix then exactly (buf, n); reports prefix length + n; nothing emitted after a refusal' if bad is None else bad)

    # a refused prefix (encode_prefix < 0) ends the call: nothing is emitted and nothing but the refusal is reported
    for fn in ('flenp_memory_to_sink', 'flenp_chunks_to_sink', 'flenp_chunks_use', 'flenp_memory_encode'):
        ps = paths(fn)
        if ps is None:
            continue
        bad = None
        nref = 0
        for p in ps:
            ep = p.calls('encode_prefix')
            if len(ep) != 1:
                if p.end == 'return' and not p.loops:
                    bad = 'path without exactly one encode_prefix: %s' % p.describe(3)
                continue
            r = ep[0].result
            refused_possible = eng.feasible(p.cond_terms() + [('cmp', '<', r, C(0))])
            if not refused_possible:
                continue
            after = [e for e in p.effects[p.effects.index(ep[0]) + 1:] if e.kind in ('call', 'icall') and e.name in ('sink_put_chunk', 'sink_put_octet')]
            if after:
                bad = 'sink_put_chunk at %s is reached although encode_prefix may have refused the length (its result is not known to be >= 0 there)' % after[0].where()
            elif p.end == 'return':
                if strip_cast(p.ret) == r:
                    nref += 1
                else:
                    bad = 'returns %s on a path where encode_prefix may have refused (%s): the refusal is not reported' % (fmt(p.ret), p.describe(3))
        if bad is None and nref < 1:
            bad = 'no path returns the refusal of encode_prefix'
        ck.verdict(bad is None, 'C13.d', fn + ':refusal', cast.where(u.fn(fn)),
                   'a negative encode_prefix result is returned unchanged before any emission; every emission and success return lies behind result >= 0' if bad is None else bad)

    # ---- C13.c chunks -------------------------------------------------------------------
    for fn, chunks_base in (('flenp_chunks_use', ('+', ('v', 'lpc'), None)), ('flenp_chunks_to_sink', ('v', 'oc'))):
        ps = paths(fn)
        if ps is None:
            continue
        where = cast.where(u.fn(fn))
        bad = None
        sum_ok = False
        emit_seen = False
        for p in ps:
            facts = eng.path_facts(p)
            for ln, lmap in p.loops:
                pass
            # summation loop iteration: size' = size + (chunk[i].used - chunk[i].offset)
            if p.end == 'loopback':
                lmap = p.loops[-1][1]
                accs = [(k_, h) for k_, (h, pre) in lmap.items() if pre == C(0)]
                sk = p.calls('sink_put_chunk')
                if accs and not [e for e in sk if e.inloop]:
                    k_, h = accs[0]
                    after = p.mem.get(k_, h)
                    inc = L(after) - L(h)
                    terms = sorted(fmt(a) for a in inc.atoms())
                    pos = [a for a, c_ in inc.t.items() if c_ == 1]
                    neg = [a for a, c_ in inc.t.items() if c_ == -1]
                    idxs = [hh for kk, (hh, pre) in lmap.items() if pre is not None and 'active' in fmt(pre)]
                    if (len(inc.t) == 2 and inc.c == 0 and len(pos) == 1 and len(neg) == 1 and pos[0][0] == 'f' and neg[0][0] == 'f'
                            and pos[0][2] == 'used' and neg[0][2] == 'offset' and pos[0][1] == neg[0][1]
                            and any(strip_cast(pos[0][1]) in (('+', strip_cast(pos[0][1])[1], hh), ('i', strip_cast(pos[0][1])[1], hh))
                                    for hh in idxs if len(strip_cast(pos[0][1])) == 3)):
                        sum_ok = True
                    else:
                        bad = 'accumulator grows by %s per chunk, expected chunk[i].used - chunk[i].offset of the chunk under the loop index' % inc
                inl = [e for e in sk if e.inloop]
                for e in inl:
                    emit_seen = True
                    ptr, cnt = e.args[1], e.args[2]
                    # ptr = chunk[i].data + chunk[i].offset ; cnt = used - offset of the same chunk
                    pf, cf = fmt(ptr), fmt(cnt)
                    cnt0 = strip_cast(cnt)
                    if not (cnt0[0] == '-' and cnt0[1][0] == 'f' and cnt0[2][0] == 'f' and cnt0[1][1] == cnt0[2][1]
                            and cnt0[1][2] == 'used' and cnt0[2][2] == 'offset'):
                        bad = 'emitted count is %s, expected used - offset of the chunk' % cf
                    else:
                        X = cnt0[1][1]
                        dptr = L(ptr) - L(('f', X, 'data')) - L(('f', X, 'offset'))
                        if not (dptr.is_const() and dptr.c == 0):
                            bad = 'emitted region starts at %s, expected data + offset of the same chunk (its unread octets)' % pf
                    bbinv = []
                    if cnt[0] == '-' and cnt[1][0] == 'f' and cnt[2][0] == 'f' and cnt[1][1] == cnt[2][1] \
                            and cnt[1][2] == 'used' and cnt[2][2] == 'offset':
                        bbinv = [-L(cnt)]        # ByteBuffer invariant of that chunk: offset <= used (C18)
                    if not eng.entails(facts + bbinv, Lin.const(1) - L(cnt)):
                        bad = ('chunk of %s octets handed to sink_put_chunk without excluding 0: an empty chunk in the list '
                               'makes the sink refuse (-EINVAL) after the prefix was emitted' % cf)
        if not sum_ok and bad is None:
            bad = 'summation loop over the unread counts not recognised'
        if fn == 'flenp_chunks_to_sink' and not emit_seen and bad is None:
            bad = 'emission loop not recognised'
        ck.verdict(bad is None, 'C13.c', fn, where,
                   'prefix = sum of unread counts; every emitted chunk is its unread region and is non-empty' if bad is None else bad)
        # loop ranges from the resolved program: the index starts at `active` (pre-loop value of the
        # loop-carried index) and every iteration is guarded by index < chunks; the exit needs chunks <= index
        okr = True
        nloops = 0
        seen_loops = set()
        for p in ps:
            for lnode, lmap in p.loops:
                if id(lnode) in seen_loops:
                    continue
                seen_loops.add(id(lnode))
                nloops += 1
                idx = [(k_, h, pre) for k_, (h, pre) in lmap.items() if k_[0] == 'v' and pre is not None and 'active' in fmt(pre)]
                if not idx:
                    okr = False
                    continue
        for p in ps:
            if p.end == 'loopback' and p.loops:
                lmap = p.loops[-1][1]
                idx = [(k_, h, pre) for k_, (h, pre) in lmap.items() if k_[0] == 'v' and pre is not None and 'active' in fmt(pre)]
                if not idx:
                    continue
                k_, h, pre = idx[0]
                guard = [c for c in p.cond_terms() if c[0] == 'cmp' and c[1] == '<' and c[2] == h and 'chunks' in fmt(c[3])]
                if not guard:
                    okr = False
                d = L(sym.mem_read(p.mem, k_, h)) - L(h)
                if not (d.is_const() and d.c == 1):
                    okr = False
        ck.verdict(okr and nloops >= 1, 'C13.c', fn + ':range', where,
                   'chunk loops start at active, step by one and run while index < chunks' if okr and nloops else 'a chunk loop does not run over [active, chunks)')

    # ---- C13.e decoder --------------------------------------------------------------------
    fn = 'flenp_memory_from_source'
    ps = paths(fn)
    if ps is not None:
        bad = unknown = None
        nacc = 0
        seen_nomem = False
        for p in ps:
            facts = eng.path_facts(p)
            dp = p.calls('decode_prefix')
            gc = p.calls('source_get_chunk')
            if len(dp) != 1:
                bad = 'expected one decode_prefix'
                continue
            if p.ret == C(-12):
                seen_nomem = True
                if gc:
                    bad = 'payload read before the capacity refusal'
            for g in gc:
                ln = strip_cast(g.args[2])
                if g.args[1] != ('v', 'mem'):
                    bad = 'payload read into %s' % fmt(g.args[1])
                if not eng.entails(facts, L(ln) - L(('v', 'size'))):
                    bad = 'payload read of %s octets not proved <= size' % fmt(ln)
                if 'len' not in fmt(ln):
                    bad = 'payload read length %s is not the decoded length' % fmt(ln)
            ok_branch = dp and any(c == ('cmp', '<=', C(0), dp[0].result) for c in p.cond_terms())
            if ok_branch and p.ret != C(-12):
                others = [e for e in p.effects if e.kind in ('call', 'icall') and e is not dp[0]]
                if len(others) != 1 or (others[0].name != 'source_get_chunk' and others[0].name not in SHORT_READERS):
                    unknown = 'payload reader %s is not one this rule knows' % [e.name for e in others]
                elif others[0].name != 'source_get_chunk':
                    bad = ('payload is read with %s; only one source_get_chunk call guarantees that the whole frame has left the '
                           'stream before the next prefix is parsed' % [e.name for e in others])
                elif strip_cast(p.ret) != others[0].result or others[0].args[0] != ('v', 'source'):
                    bad = 'result of the payload read is not what is returned'
                else:
                    nacc += 1
            elif dp and not ok_branch and (strip_cast(p.ret) != dp[0].result or len([e for e in p.effects if e.kind in ('call', 'icall')]) != 1):
                bad = 'prefix failure must be returned unchanged before any payload read'
        if not seen_nomem and bad is None:
            bad = 'no -ENOMEM path for length > capacity'
        if bad is None and unknown is None and nacc != 1:
            bad = 'expected exactly one accepting path, found %d' % nacc
        if unknown and bad is None:
            ck.broken('C13.e', fn, cast.where(u.fn(fn)), unknown)
        else:
          ck.verdict(bad is None, 'C13.e', fn, cast.where(u.fn(fn)),
                   'length > size gives -ENOMEM before any payload read; payload read of exactly the decoded length into mem' if bad is None else bad)
    fn = 'decode_prefix'
    ps = paths(fn)
    if ps is not None:
        # every path is one of: variable kind -> varint_u64_from_source(source, len) returned;
        # fixed kind -> exactly one *exact-count* read (source_get_chunk, C17: returns only when all
        # n octets arrived; the at-most variant may stop inside the prefix) of kind[k].size octets into
        # the scratch array, its failure returned unchanged, the member parser applied to that array
        # only after the read succeeded, and the parsed value stored through len.
        bad = unknown = None
        nfixed = nvar = 0
        ksize = ('f', sym.add(('&', ('v', 'kind')), ('v', 'k')), 'size')
        for p in ps:
            calls = [e for e in p.effects if e.kind in ('call', 'icall')]
            names = [e.name for e in calls]
            reads = [e for e in calls if e.kind == 'call' and e.name not in ('varint_u64_from_source',)]
            if names == ['varint_u64_from_source']:
                e = calls[0]
                if list(e.args) != [('v', 'source'), ('v', 'len')] or strip_cast(p.ret) != e.result:
                    bad = 'variable kind: expected varint_u64_from_source(source, len) returned unchanged'
                nvar += 1
                continue
            if not calls or (calls[0].name != 'source_get_chunk' and calls[0].name not in SHORT_READERS):
                unknown = 'prefix reader %s is not one this rule knows' % (names[0] if names else '(none)')
                continue
            if calls[0].name != 'source_get_chunk':
                bad = ('the prefix is read with %s; only source_get_chunk guarantees that all kind[k].size octets have '
                       'arrived before the length is parsed (a short read leaves part of the prefix in the stream)'
                       % (names[0] if names else 'no call'))
                continue
            g = calls[0]
            if strip_cast(g.args[2]) != ksize:
                bad = 'prefix read of %s octets, expected kind[k].size' % fmt(g.args[2])
            if g.args[0] != ('v', 'source'):
                bad = 'prefix read from %s' % fmt(g.args[0])
            failed = any(c == ('cmp', '<', g.result, C(0)) for c in p.cond_terms())
            if failed:
                if len(calls) != 1 or strip_cast(p.ret) != g.result or p.stores():
                    bad = 'a failed prefix read must be returned unchanged without parsing'
                continue
            if not eng.entails(p, -L(g.result)):
                bad = 'parser reached without the prefix read known to have succeeded'
            rest = calls[1:]
            if p.ret == C(0):
                nfixed += 1
                if len(rest) != 1 or rest[0].kind != 'icall' or not rest[0].name.endswith('.parse'):
                    bad = 'success path without exactly one parser call: %s' % names
                    continue
                pc = rest[0]
                if pc.args[0] != g.args[1]:
                    bad = 'parser reads %s, the prefix was read into %s' % (fmt(pc.args[0]), fmt(g.args[1]))
                st = [e for e in p.stores() if e.name == ('i', ('v', 'len'), C(0))]
                if len(st) != 1 or strip_cast(st[0].args[0]) != pc.result:
                    bad = 'parsed length is not stored through len'
            elif rest or p.stores():
                bad = 'non-success path parses or stores'
        if bad is None and unknown is None and (nfixed < 3 or nvar != 1):
            bad = 'expected 3 fixed-size success paths and one variable path, found %d/%d' % (nfixed, nvar)
        if unknown and bad is None:
            ck.broken('C13.e', fn, cast.where(u.fn(fn)), unknown)
        else:
          ck.verdict(bad is None, 'C13.e', fn, cast.where(u.fn(fn)),
                   'variable kind delegates to varint_u64_from_source; fixed kinds read exactly kind[k].size octets with the exact-count reader, return its failure unchanged, parse the scratch array and store through len' if bad is None else bad)
    fn = 'flenp_decode_source_to_sink'
    ps = paths(fn)
    if ps is not None:
        bad = None
        nok = 0
        for p in ps:
            dp = p.calls('decode_prefix')
            if len(dp) != 1 or list(dp[0].args[:2]) != [('v', 'k'), ('v', 'source')]:
                bad = 'expected one decode_prefix(k, source, &len)'
                continue
            failed = any(c == ('cmp', '<', dp[0].result, C(0)) for c in p.cond_terms())
            others = [e for e in p.effects if e.kind in ('call', 'icall') and e is not dp[0]]
            if failed:
                if others or strip_cast(p.ret) != dp[0].result:
                    bad = 'prefix failure must be returned unchanged before any transfer'
                continue
            if len(others) != 1 or others[0].name != 'sts_n':
                bad = 'payload transfer is %s, expected sts_n (exact count, C17)' % [e.name for e in others]
                continue
            t = others[0]
            ln = strip_cast(t.args[2])
            if t.args[0] != ('v', 'source') or t.args[1] != ('v', 'sink') or not (ln[0] == 'h' and 'decode_prefix:len' in fmt(ln)):
                bad = 'transfers %s, expected sts_n(source, sink, decoded length)' % ', '.join(fmt(a) for a in t.args)
            if strip_cast(p.ret) != t.result:
                bad = 'result of the transfer is not returned'
            nok += 1
        if bad is None and nok != 1:
            bad = 'no transfer path'
        ck.verdict(bad is None, 'C13.e', fn, cast.where(u.fn(fn)),
                   'prefix failure returned unchanged; otherwise exactly the decoded length is moved with sts_n and its result returned' if bad is None else bad)
    from .common import reevaluate
    reevaluate(ck, 'C13.g', 'c17', lambda r, k: (r in ('C17.a', 'C17.b', 'C17.c', 'C17.d') and k.startswith(('sink_put_chunk', 'source_get_chunk', 'sink_adapt', 'source_adapt'))) or
               (r == 'C17.f' and k.startswith(('sts_n', 'sts_cbc', 'sts_atmost'))),
               'frames are emitted through sink_put_chunk and decoded through source_get_chunk / sts_n: the exact transfer calls move exactly the designated octets whatever the driver answers')
    ck.rule('C13.h', 'the variable-length prefix is read like the fixed-width ones: through the exact-count reader, octet used only after the read succeeded (C14.h re-evaluated) - consecutive frames decode in order however the source fragments its reads')
    reevaluate(ck, 'C13.h', 'c14', lambda r, k: r == 'C14.h',
               'the varint prefix of a frame is taken from the source whole, whatever the driver answers in between')
    ck.rule('C13.i', 'the buffer entry points pair data + used with byte_buffer_avail (room to write) and data + offset with byte_buffer_rest (octets to read), and commit with byte_buffer_add / consume: those accessors and mutators mean what C18.b-d decide (re-evaluated) - a decoded frame is refused with -ENOMEM instead of being written past the destination')
    reevaluate(ck, 'C13.i', 'c18', lambda r, k: r in ('C18.b', 'C18.c', 'C18.d'),
               'flenp_buffer_* read and write a ByteBuffer through its accessors: room, window and cursor updates as the buffer invariant defines them')

