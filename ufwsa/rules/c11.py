"""C11 - see c10.py (shared implementation)."""
from .c10 import run_c11


def run(ck):
    ck.rule('C11.w', 'the instance records its data size, addresses and checksum size at full width and consistently (C10.b re-evaluated): an image is not silently cut to a narrower field')
    run_c11(ck)
    from .common import reevaluate
    reevaluate(ck, 'C11.w', 'c10', lambda r, k: r == 'C10.b' and ('width' in k or 'layout' in k),
               'store, validate and fetch work on the size and addresses the set-up functions recorded')
