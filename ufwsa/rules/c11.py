"""C11 - see c10.py (shared implementation)."""
from .c10 import run_c11


def run(ck):
    ck.rule('C11.w', 'the instance records its data size, addresses and checksum size at full width and consistently (C10.b re-evaluated): an image is not silently cut to a narrower field')
    run_c11(ck)
    from .common import reevaluate
    reevaluate(ck, 'C11.w', 'c10', lambda r, k: r == 'C10.b' and ('width' in k or 'layout' in k),
               'store, validate and fetch work on the size and addresses the set-up functions recorded')
    # validation (and the partial store) recompute the checksum from the medium: that says something about the image only
    # when the recomputation walks the WHOLE data region, whatever the placement - a walk that stops short (or never
    # starts) lets a mixed image validate
    ck.rule('C11.x', 'the checksum recomputation walks the whole data region chunk by chunk, address and count moving together, and reports success only with nothing left (C10.b/C10.c walker instances of persistent_calculate_checksum re-evaluated; what the fold computes from the chunks is decided under C10)')
    reevaluate(ck, 'C11.x', 'c10', lambda r, k: r in ('C10.b', 'C10.c') and k.startswith('persistent_calculate_checksum:') and not k.endswith((':fold', ':result')),
               'the recomputed checksum covers every octet of the data region')
    # an operation that changes the instance's description of the store for its own purposes (a narrowed window, a
    # temporary seed) has to put it back on every way out - also on the I/O-error return, after which the instance is used on
    ck.rule('C11.y', 'a field of the instance that an operation changes and restores (save / modify / restore, busy marks) is restored on every way out, the I/O-error returns included')
    from .common import bracket_rule
    from .. import cast as _cast, sym as _sym
    from .c10 import UNIT as _UNIT
    _u = _cast.load(_UNIT)
    bracket_rule(ck, 'C11.y', _u, lambda: _sym.Engine(_u, sizeof=_sym.unit_sizeofs(_UNIT, _u)), ('persistent-storage.c',))

