"""C11 - see c10.py (shared implementation)."""
from .c10 import run_c11


def run(ck):
    run_c11(ck)
