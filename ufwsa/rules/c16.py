"""C16 The checksum is CRC-16/ARC for every input (proof: K8 + fold recogniser)."""
from .. import cast, bitdom, sym
from ..bitdom import BV, Ptr, ZERO, ONE, TOP, Unsupported, bxor
from ..sym import fmt, linearize as L
from ..lin import Lin

UNIT = 'src/crc-16-arc.c'
POLY_REFLECTED = 0xA001     # x^16+x^15+x^2+1 (0x8005) bit-reversed


def ref_table():
    """CRC-16/ARC table from the definition (own reference, not repo code)."""
    t = []
    for i in range(256):
        c = i
        for _ in range(8):
            c = (c >> 1) ^ POLY_REFLECTED if c & 1 else c >> 1
        t.append(c)
    return t


def ref_step_symbolic(crc, data):
    """bitwise definition of one CRC-16/ARC octet step on affine bit vectors"""
    bits = list(crc.bits)
    for i in range(8):
        bits[i] = bxor(bits[i], data.bits[i])
    for _ in range(8):
        lsb = bits[0]
        bits = bits[1:] + [ZERO]
        for k in range(16):
            if (POLY_REFLECTED >> k) & 1:
                bits[k] = bxor(bits[k], lsb)
    return bits


def table_values(u, name):
    g = u.globals.get(name)
    if g is None:
        return None
    il = None
    for c in cast.inner(g):
        if cast.kind(cast.strip(c)) == 'InitListExpr':
            il = cast.strip(c)
    if il is None:
        return None
    vals = []
    for e in cast.inner(il):
        v = u.const_value(e)
        if v is None:
            return None
        vals.append(v)
    return vals


def is_ref(n, decl_id):
    n = cast.strip_all_casts(n)
    return cast.kind(n) == 'DeclRefExpr' and n['referencedDecl']['id'] == decl_id


FOLD_FNS = ('ufw_crc16_arc', 'ufw_crc16_arc_u16')     # (crc, pointer, count) folds decided by this rule


class Shape(Exception):
    """construct the fold rule does not know -> BROKEN"""


def strip_cast(t):
    while t is not None and t[0] == 'cast':
        t = t[2]
    return t


def lane_step_factory(u, eng, host_big):
    """-> lane_step(p, by_h, octets, ptr_elem): one iteration that folds k octets into a wide accumulator without calling
    crc16_octet is decided in the bit domain: with the accumulator's bits above 15 zero at the loop head (they are at
    entry: the seed is a uint16_t; and every round has to leave them zero again), the value after the round is exactly
    the definition's fold of the octets loaded, in SOME order of those octets - that order is returned for the position
    rule.  Returns (accumulator havoc, [octet offsets fed, in order], new accumulator term), a str (violation), or None
    (not an accumulator update this reads)."""
    tabs = {}
    for nm, g in u.globals.items():
        vals = table_values(u, nm)
        if vals and len(vals) == 256:
            tabs[nm] = vals

    def lane_step(p, by_h, octets, ptr_elem):
        cands = []
        for h, (k_, pre) in by_h.items():
            v = strip_cast(p.mem.get(k_, h))
            if v != h and not (eng.pointer(h) or '*' in (eng.types.get(k_) or '')):
                try:
                    d = L(v) - L(h)
                    if d.is_const():
                        continue                      # a counter
                except Exception:                     # noqa: BLE001 - not linear: the accumulator
                    pass
                cands.append((h, k_, p.mem.get(k_, h)))
        if len(cands) != 1:
            return None
        h_acc, k_acc, newv = cands[0]
        ti = bitdom.type_info(bitdom.resolve_typedefs(u, eng.types.get(k_acc) or eng.types.get(h_acc) or ''))
        W = ti[0] if ti and len(ti) == 3 and isinstance(ti[0], int) else 64
        loads = []
        for t in sym.subterms(newv):
            if t[0] in ('i', '*') and not (t[0] == 'i' and t[1][0] == '&' and t[1][1][0] == 'v' and t[1][1][1] in tabs) and t not in loads:
                loads.append(t)
        if not loads:
            return None
        atoms = {h_acc: ('acc', W, False)}
        widths = {}
        for i, ld in enumerate(loads):
            w = ptr_elem(ld[1])
            widths[ld] = w
            atoms[ld] = ('e%d' % i, 8 * w, False)
        try:
            bv = bitdom.term_bits(newv, atoms, max(W, 64), tabs, eng.optype).convert(W, False)
        except Unsupported as ex:
            return None if 'outside the bit domain' in str(ex) else ('the accumulator update %s is outside the bit domain: %s' % (fmt(newv)[:120], ex))
        # substitute: accumulator bits above 15 are zero at the head
        def head0(b):
            if b in (ZERO, bitdom.ONE) or b is None:
                return b
            c, syms = b
            return (c, frozenset(x for x in syms if not (x.startswith('acc.') and int(x.split('.')[1]) >= 16)))
        bits = [head0(b) for b in bv.bits]
        if any(b is None for b in bits):
            return 'the accumulator update %s has bits that are not a XOR of input bits (a carry, a sign extension of a data-dependent value)' % fmt(newv)[:160]
        # candidate octet orders: per element its octets in memory order; elements in every order (small k)
        import itertools
        def mem_octets(i, ld):
            w = widths[ld]
            lanes = [(w - 1 - byte) if host_big else byte for byte in range(w)]
            return [(ld, byte, ['e%d.%d' % (i, 8 * vl + b) for b in range(8)]) for byte, vl in enumerate(lanes)]
        per = [mem_octets(i, ld) for i, ld in enumerate(loads)]
        for order in itertools.permutations(range(len(loads))):
            seq = [o for i in order for o in per[i]]
            crc = BV([(0, frozenset(['acc.%d' % b])) for b in range(16)], False)
            for ld, byte, names in seq:
                crc = BV(ref_step_symbolic(crc, BV([(0, frozenset([nm])) for nm in names], False)), False)
            if list(bits[:16]) == list(crc.bits):
                up = [i for i, b in enumerate(bits[16:], 16) if b != ZERO]
                if up:
                    return ('after a round the accumulator\'s bit %d is not zero (%s): the next round folds it into the checksum - with a %d-bit accumulator a data word '
                            'that is shifted as an int is sign-extended into the upper half' % (up[0], 'a XOR of input bits' if bits[up[0]] not in (ZERO, bitdom.ONE) else 'constant', W))
                at = []
                for ld, byte, names in seq:
                    addr = sym.add(ld[1], ld[2]) if ld[0] == 'i' else ld[1]
                    at.append(octets(addr) + byte)
                return (h_acc, at, strip_cast(newv))
        return ('an iteration folds %d octet(s) into the accumulator by a step of its own (%s), and the result is not the CRC-16/ARC fold of those octets in any order of the '
                'elements loaded (bit domain: low 16 bits differ from the definition, assuming a clean accumulator at the loop head)' % (sum(widths.values()), fmt(newv)[:140]))
    def lane_tail(term, h_acc, octets, ptr_elem):
        """the same decision for a value computed from the accumulator h_acc behind the loop -> [octet offsets] | str | None"""
        class _P:
            pass
        p_ = _P()
        key = ('v', '#tail')
        p_.mem = {key: term}
        r = lane_step(p_, {h_acc: (key, None)}, octets, ptr_elem)
        if r is None or isinstance(r, str):
            return r
        return r[1]
    lane_step.tail = lane_tail
    return lane_step


def fold_check(ck, u, eng, name, host_big, tag, proved):
    """Decides `name(crc, p, n) == left fold of crc16_octet over the first n*unit octets at p, in
    address order` as an inductive invariant over the path engine's loop abstraction:

      folded(K): the accumulator equals Fold(crc, p[0..K))      (K in octets)
      base   : at loop entry the accumulator is the crc parameter (K = 0) or the result of an
               already decided fold started from it at p (K = unit_g * count_g); the cursor is at
               p + K and  K + remaining*unit == n*unit
      step   : one iteration feeds exactly the `unit` octets at the cursor, lowest address first,
               each step seeded by the previous result; cursor +1 element, remaining -1
      exit   : the loop is left only with remaining == 0 and the accumulator is returned."""
    rule = 'C16.fold'
    key = name + tag
    f = u.fn(name)
    if f is None:
        return ck.broken(rule, key, '', 'function missing')
    if u.fn('crc16_octet') is None:
        return ck.broken(rule, key, cast.where(f), 'the fold is decided in terms of calls of crc16_octet, which no longer exists as a function')
    where = cast.where(f)
    ck.function(name)
    params = u.params(name)
    if len(params) != 3:
        return ck.broken(rule, key, where, 'expected (crc, buffer, count)')
    crc_p, buf_p, n_p = (('v', q['name']) for q in params)

    def elem(qt):
        ti = bitdom.type_info(bitdom.resolve_typedefs(u, qt or ''))
        if not ti or ti[0] != 'ptr':
            raise Shape('not a pointer type: %r' % qt)
        return ti[1]
    unit = elem(cast.qual_type(params[1]))

    def ptr_elem(t):
        if t[0] == 'cast':
            return elem(t[1]) if '*' in t[1] else ptr_elem(t[2])
        if t[0] in ('+', '-'):
            return ptr_elem(t[1])
        qt = eng.types.get(t)
        if qt is None:
            raise Shape('pointer term of unknown type: %s' % fmt(t))
        return elem(qt)

    def octets_from_buffer(t):
        """address of pointer term t minus the buffer parameter, in octets (Lin)"""
        if t == buf_p:
            return Lin.const(0)
        if t[0] == 'cast':
            if '*' not in t[1]:
                raise Shape('pointer through integer cast: %s' % fmt(t))
            return octets_from_buffer(t[2])
        if t[0] == '+':
            return octets_from_buffer(t[1]) + L(t[2]) * ptr_elem(t[1])
        if t[0] == '-':
            return octets_from_buffer(t[1]) - L(t[2]) * ptr_elem(t[1])
        raise Shape('pointer not derived from the buffer parameter: %s' % fmt(t))

    lane_step = lane_step_factory(u, eng, host_big)
    lane_tail = lane_step.tail
    KNOWN = {}

    def folded(t, facts):
        """K (Lin, octets) such that t == Fold(crc, buffer[0..K)), or a str saying why not"""
        t = strip_cast(t)
        if t == crc_p:
            return Lin.const(0)
        if t in KNOWN:
            return KNOWN[t]
        if t[0] == 'call' and t[1] in FOLD_FNS:
            if t[1] not in proved and t[1] != name:
                return '%s is not itself a decided fold' % t[1]
            a = t[2]
            k0 = folded(a[0], facts)
            if isinstance(k0, str):
                return k0
            at = octets_from_buffer(a[1])
            d = at - k0
            if not (eng.entails(facts, d) and eng.entails(facts, -d)):
                return ('%s continues at buffer+%s although %s octets have been folded' % (t[1], at, k0))
            gunit = elem(cast.qual_type(u.params(t[1])[1]))
            return k0 + L(a[2]) * gunit
        return 'accumulator %s is not derived from the crc parameter by folds' % fmt(t)

    try:
        paths = eng.paths(name)
    except (sym.Unsupported, sym.PathLimit) as e:
        return ck.broken(rule, key, where, 'path enumeration: %s' % e)
    ck.analysed['paths'] = ck.analysed.get('paths', 0) + len(paths)
    total = L(n_p) * unit
    bad = None
    lanes_seen = None
    ngroups = 0

    def same(facts, d):
        return eng.entails(facts, d) and eng.entails(facts, -d)

    def lin_subst(l, m):
        out = Lin.const(l.c)
        for a, c in l.t.items():
            out = out + (m[a] * c if a in m else Lin.atom(a) * c)
        return out

    try:
        state = {'ngroups': 0}
        groups = {}
        for p in paths:
            if not p.loops:
                if p.end != 'return':
                    raise Shape('path without loop does not return')
                facts = eng.path_facts(p)
                k = folded(p.ret, facts)
                if isinstance(k, str):
                    bad = 'loop-free path returns without folding: %s' % k
                elif not same(facts, k - total):
                    bad = 'path %s returns the fold over %s octets, the buffer has %s' % (p.describe(4), k, total)
                if bad:
                    break
                state['ngroups'] += 1
                continue
            lmap = p.loops[0][1]
            gid = tuple(sorted((repr(h) for k_, (h, pre) in lmap.items())))
            groups.setdefault(gid, []).append(p)
        def group(level, ps, known, carried, outer_heads):
            state['ngroups'] += 1
            nonlocal lanes_seen
            bad = None
            lmap = ps[0].loops[level][1]
            # variables declared inside the loop body carry nothing from one iteration to the next (pre is None for them)
            by_h = {h: (k_, pre) for k_, (h, pre) in lmap.items() if pre is not None}
            heads = set(by_h) | set(outer_heads)
            iters = [p for p in ps if p.end == 'loopback' and len(p.loops) == level + 1]
            exits = [p for p in ps if p.end == 'return' and len(p.loops) == level + 1]
            cont = [p for p in ps if len(p.loops) > level + 1]
            if not (exits or cont) or len(iters) + len(exits) + len(cont) != len(ps):
                raise Shape('loop without exit path')
            if not iters:
                # the loop condition can never hold on entry: the loop-carried variables keep their entry values
                pre_conds = [c for c in ps[0].cond_terms() if not any(sym.contains(c, h) for h in by_h)]
                pf = eng.path_facts(pre_conds) + carried
                for p in exits:
                    r = strip_cast(p.ret)
                    v = by_h[r][1] if r in by_h else r
                    k = folded(v, pf) if v is not None else 'no value'
                    if isinstance(k, str) or not same(pf, k - total):
                        bad = ('the loop body can never run (its condition is false for every count), so the function returns the fold over %s '
                               'octets instead of the %s octets of the buffer' % (k if not isinstance(k, str) else 0, total))
                        break
                if bad:
                    return bad
                if cont:
                    raise Shape('a loop that never runs is followed by another loop')
                return None

            def octets(t):
                if t in heads:
                    return Lin.atom(('poff', t))
                if t == buf_p:
                    return Lin.const(0)
                if t[0] == 'cast':
                    if '*' not in t[1]:
                        raise Shape('pointer through integer cast: %s' % fmt(t))
                    return octets(t[2])
                if t[0] in ('+', '-'):
                    o = L(t[2]) * ptr_elem(t[1])
                    return octets(t[1]) + o if t[0] == '+' else octets(t[1]) - o
                raise Shape('pointer not derived from the buffer parameter: %s' % fmt(t))
            # ---- step: every iteration feeds cunit octets at Pos, Pos+1, ... --------------------------
            pos = None
            cunit = None
            h_acc = None
            posts = []
            inside = set(n.get('id') for n in cast.walk(ps[0].loops[level][0]))

            def effects_inside(p):
                """effects of the loop body, those of helpers the engine looked through included (enter/leave markers)"""
                out, depth_in = [], 0
                for e in p.effects:
                    here = e.node is not None and e.node.get('id') in inside
                    if e.kind == 'enter':
                        if depth_in or here:
                            depth_in += 1
                        continue
                    if e.kind == 'leave':
                        if depth_in:
                            depth_in -= 1
                        continue
                    if here or depth_in:
                        out.append(e)
                return out
            for p in iters:
                eff = effects_inside(p)
                steps = [e for e in eff if e.kind == 'call' and e.name == 'crc16_octet']
                other = [e for e in eff if e.kind in ('call', 'icall') and e.name != 'crc16_octet']
                if other:
                    raise Shape('call to %s inside the loop' % other[0].name)
                lane_proof = None
                if not steps:
                    moved = [fmt(k_) for h, (k_, pre) in by_h.items() if strip_cast(p.mem.get(k_, h)) != h]
                    if not moved:
                        continue
                    # no call of the step function - but the accumulator may be folded by a step of its own (several
                    # octets per round in a wider register): decided in the bit domain against the definition
                    lane_proof = lane_step(p, by_h, octets, ptr_elem)
                    if isinstance(lane_proof, str):
                        return lane_proof
                    if lane_proof is None:
                        bad = ('an iteration (%s) changes %s without feeding an octet to crc16_octet: octets are skipped'
                               % (p.describe(2), ', '.join(sorted(moved))))
                        return bad
                if lane_proof is not None:
                    ha, at, prev = lane_proof
                    if h_acc is not None and ha != h_acc:
                        return 'iterations fold into different accumulators'
                    h_acc = ha
                    steps = [type('E', (), {'where': staticmethod(lambda p=p: cast.where(p.loops[level][0]))})()]
                else:
                    ha = strip_cast(steps[0].args[0])
                    if ha not in by_h or (h_acc is not None and ha != h_acc):
                        bad = 'first step of an iteration (%s) is seeded with %s, not with the running accumulator' % (steps[0].where(), fmt(steps[0].args[0]))
                        return bad
                    h_acc = ha
                    prev = h_acc
                    at = []
                for e in (steps if lane_proof is None else []):
                    if strip_cast(e.args[0]) != prev:
                        bad = 'step at %s is seeded with %s, not with the previous result' % (e.where(), fmt(e.args[0]))
                        return bad
                    prev = e.result
                    loads = set(t for t in sym.subterms(e.args[1]) if t[0] in ('i', '*'))
                    if len(loads) != 1:
                        raise Shape('datum %s is not one memory load' % fmt(e.args[1]))
                    ld = loads.pop()
                    addr = sym.add(ld[1], ld[2]) if ld[0] == 'i' else ld[1]
                    w = ptr_elem(ld[1])
                    try:
                        v8 = bitdom.term_bits(e.args[1], {ld: ('elem', w * 8, False)}, 64).convert(8, False)
                    except Unsupported as ex:
                        raise Shape('datum outside the bit domain: %s' % ex)
                    lane = None
                    for byte in range(w):
                        vl = (w - 1 - byte) if host_big else byte        # value lane held at memory octet `byte`
                        if list(v8.bits) == [(0, frozenset(['elem.%d' % (8 * vl + b)])) for b in range(8)]:
                            lane = byte
                    if lane is None:
                        bad = 'datum at %s is not one octet of the element it loads: %s' % (e.where(), fmt(e.args[1]))
                        return bad
                    at.append(octets(addr) + lane)
                if bad:
                    return bad
                facts = eng.path_facts(p)
                if pos is None:
                    pos, cunit = at[0], len(at)
                for i, a in enumerate(at):
                    if not same(facts, a - pos - i) or len(at) != cunit:
                        bad = ('iteration at %s feeds the octets at %s; address order from the loop position is %s'
                               % (steps[0].where(), ', '.join(str(x) for x in at), ', '.join(str(pos + k_) for k_ in range(len(at)))))
                        return bad
                if bad:
                    return bad
                acc_key = by_h[h_acc][0]
                if strip_cast(p.mem.get(acc_key, h_acc)) != prev:
                    bad = 'accumulator after an iteration is %s, not the result of the last step' % fmt(p.mem.get(acc_key, h_acc))
                    return bad
                post = {}
                for h, (k_, pre) in by_h.items():
                    v = p.mem.get(k_, h)
                    if eng.pointer(h) or '*' in (eng.types.get(k_) or ''):
                        post[('poff', h)] = octets(v)
                    elif h != h_acc:
                        post[h] = L(v)
                posts.append((p, facts, post))
                if not same(facts, lin_subst(pos, post) - pos - cunit):
                    bad = ('after an iteration that fed %d octet(s) the position moves from %s to %s'
                           % (cunit, pos, lin_subst(pos, post)))
                    return bad
                lanes_seen = list(range(cunit))
            if bad:
                return bad
            # ---- base: what has been folded on entry is exactly what lies before the position ----------
            pre_m = {}
            for h, (k_, pre) in by_h.items():
                if pre is None:
                    raise Shape('loop variable %s without a pre-loop value' % fmt(k_))
                if eng.pointer(h) or '*' in (eng.types.get(k_) or ''):
                    pre_m[('poff', h)] = octets(strip_cast(pre)) if strip_cast(pre) not in by_h else octets(pre)
                elif h != h_acc:
                    pre_m[h] = L(pre)
            pre_conds = [c for c in ps[0].cond_terms() if not any(sym.contains(c, h) for h in by_h)]
            pf = eng.path_facts(pre_conds) + carried
            k = folded(by_h[h_acc][1], pf)
            if isinstance(k, str):
                bad = 'at loop entry: %s' % k
                return bad
            pos0 = lin_subst(pos, pre_m)
            if not same(pf, pos0 - k):
                bad = ('at loop entry %s octets have been folded but the first datum is read at buffer+%s: octets are skipped or fed twice'
                       % (k, pos0))
                return bad
            # ---- auxiliary invariants (discovered, then proved inductive): Pos + v*cunit == total for a
            #      countdown variable v, and Pos <= total -------------------------------------------------
            # (a countdown in elements with several elements folded per round counts `unit` octets each, not `cunit`)
            cands = [('%s + %d*%s == %s' % (pos, m_, fmt(by_h[h][0]), total), pos + Lin.atom(h) * m_ - total, True)
                     for h in sorted(by_h, key=repr) if h != h_acc and ('poff', h) not in pre_m for m_ in sorted({cunit, unit})]
            cands.append(('%s <= %s' % (pos, total), pos - total, False))
            invs = []
            for label, g, is_eq in cands:
                g0 = lin_subst(g, pre_m)
                if not (same(pf, g0) if is_eq else eng.entails(pf, g0)):
                    continue
                invs.append((label, g, is_eq))
            changed = True
            while changed:                      # greatest inductive subset
                changed = False
                hyp = []
                for _, g, is_eq in invs:
                    hyp += [g, -g] if is_eq else [g]
                for it in list(invs):
                    label, g, is_eq = it
                    for p, facts, post in posts:
                        g1 = lin_subst(g, post)
                        okg = same(facts + hyp, g1) if is_eq else eng.entails(facts + hyp, g1)
                        if not okg:
                            invs.remove(it)
                            changed = True
                            break
            hyp = []
            for _, g, is_eq in invs:
                hyp += [g, -g] if is_eq else [g]
            # ---- no read beyond the image, and exit only when everything is folded ----------------------
            for p, facts, post in posts:
                if not eng.entails(facts + hyp, pos + cunit - total):
                    bad = ('an iteration reads octets [%s, %s+%d) although only %s octets belong to the buffer '
                           '(invariants available: %s)' % (pos, pos, cunit, total, '; '.join(l for l, _, _ in invs) or 'none'))
                    return bad
            if bad:
                return bad
            for p in exits:
                facts = eng.path_facts(p)
                if strip_cast(p.ret) != h_acc:
                    # a tail folded behind the loop in straight-line code (the element the last round left over): the
                    # returned value is decided like a round - against the definition, over the accumulator and the
                    # octets it loads, which have to be the next ones in address order
                    tail = lane_tail(p.ret, h_acc, octets, ptr_elem)
                    if isinstance(tail, str):
                        return tail
                    if tail is None:
                        bad = 'returns %s, which is not the loop accumulator' % fmt(p.ret)
                        return bad
                    for i_, a_ in enumerate(tail):
                        if not same(facts + hyp, a_ - pos - i_):
                            return ('the tail behind the loop folds the octets at %s; the loop had reached %s' % (', '.join(str(x) for x in tail), pos))
                    if not same(facts + hyp, pos + len(tail) - total):
                        return ('the loop is left (%s) with %s octets folded and %d more are folded behind it; not provably all %s octets of the buffer '
                                '(invariants available: %s)' % (p.describe(3), pos, len(tail), total, '; '.join(l for l, _, _ in invs) or 'none'))
                    continue
                if not same(facts + hyp, pos - total):
                    bad = ('the loop is left (%s) with %s octets folded; not provably all %s octets of the buffer '
                           '(invariants available: %s)' % (p.describe(3), pos, total, '; '.join(l for l, _, _ in invs) or 'none'))
                    return bad
            # ---- paths that go on to a later loop: what this loop established is known there -----------------
            if cont:
                if pos is None:
                    raise Shape('a loop without checksum steps is followed by another loop')
                nxt = {}
                for p in cont:
                    lm = p.loops[level + 1][1]
                    g2 = tuple(sorted(repr(h) for k_, (h, pre) in lm.items()))
                    nxt.setdefault(g2, []).append(p)
                known2 = dict(known)
                known2[h_acc] = pos
                KNOWN[h_acc] = pos
                for g2, ps2 in sorted(nxt.items()):
                    b2 = group(level + 1, ps2, known2, carried + hyp, heads)
                    if b2:
                        return b2
            return None
        for gid, ps in ([] if bad else sorted(groups.items())):
            bad = group(0, ps, {}, [], set())
            if bad:
                break
    except Shape as e:
        return ck.broken(rule, key, where, str(e))
    if bad is None and state['ngroups'] < 1:
        return ck.broken(rule, key, where, 'no path found')
    if bad is None:
        proved.add(name)
    return ck.verdict(bad is None, rule, key, where,
                      ('inductive fold invariant holds on %d paths: accumulator := crc16_octet(acc, octet) for memory octets %s of each '
                       'element in address order; entry state folds exactly the octets before the read position; position advances by the '
                       'octets fed; left only when position == n*%d => CRC of the whole image and the concatenation law'
                       % (len(paths), lanes_seen, unit))
                      if bad is None else bad)


def wrapper_check(ck, u, name, target, tag):
    rule = 'C16.init'
    f = u.fn(name)
    if f is None:
        return ck.broken(rule, name + tag, '', 'function missing')
    ck.function(name)
    where = cast.where(f)
    params = u.params(name)
    body = [s for s in cast.inner(u.body(name))]
    if len(body) != 1 or cast.kind(body[0]) != 'ReturnStmt':
        return ck.broken(rule, name + tag, where, 'wrapper shape not recognised')
    call = cast.strip_all_casts(body[0]['inner'][0])
    if cast.kind(call) != 'CallExpr' or cast.callee_name(call) != target:
        return ck.violation(rule, name + tag, where, 'does not forward to %s' % target)
    args = call['inner'][1:]
    ok = (u.const_value(args[0]) == 0 and is_ref(args[1], params[0]['id']) and is_ref(args[2], params[1]['id']))
    return ck.verdict(ok, rule, name + tag, where,
                      'forwards (0x0000, buffer, len) to %s' % target if ok else
                      'arguments are not (CRC16_ARC_INITIAL=0, buffer, len)')


def run_config(ck, variant, tag):
    host_big = bool(variant and variant.get('big_endian'))
    u = cast.load(UNIT, variant)
    ck.unit(UNIT + tag)
    tab = table_values(u, 'crc16_table')
    ref = ref_table()
    if tab is None:
        ck.broken('C16.table', 'crc16_table' + tag, '', 'table initialiser not found')
        return
    where = cast.where(u.globals['crc16_table'])
    if len(tab) != 256:
        ck.violation('C16.table', 'crc16_table' + tag, where, 'table has %d entries' % len(tab))
        return
    bad = [i for i in range(256) if tab[i] != ref[i]]
    ck.verdict(not bad, 'C16.table', 'crc16_table' + tag, where,
               '256 entries equal the table generated from polynomial 0xA001 (reflected 0x8005)' if not bad else
               'entry %d is 0x%04x, CRC-16/ARC table has 0x%04x (%d entries differ)' % (bad[0], tab[bad[0]], ref[bad[0]], len(bad)))
    lin = tab[0] == 0 and all(tab[a ^ b] == tab[a] ^ tab[b] for a in range(256) for b in (1, 2, 4, 8, 16, 32, 64, 128))
    ip = bitdom.Interp(u, big_endian=host_big,
                       linear_tables={'crc16_table': (tab, 16)} if lin else {})
    ck.function('crc16_octet')
    f = u.fn('crc16_octet')
    if f is None:
        ck.broken('C16.step', 'crc16_octet' + tag, '', 'function missing')
    else:
        crc = BV.sym('crc', 16)
        data = BV.sym('data', 8)
        try:
            if not lin:
                raise Unsupported('table is not GF(2)-linear, lookup cannot be summarised')
            ret, stores, loads = ip.run('crc16_octet', [crc, data])
            exp = ref_step_symbolic(crc, data)
            got = list(ret.convert(16, False).bits)
            diff = [i for i in range(16) if got[i] != exp[i]]
            ck.verdict(not diff and not stores and not loads, 'C16.step', 'crc16_octet' + tag, cast.where(f),
                       '16x24 GF(2) matrix of the step equals the bitwise CRC-16/ARC definition (all 2^24 (state,octet) pairs)'
                       if not diff else 'output bit %d differs from the CRC-16/ARC step' % diff[0])
        except Unsupported as e:
            if bad:
                ck.violation('C16.step', 'crc16_octet' + tag, cast.where(f), 'step uses a table that is not the CRC-16/ARC table')
            else:
                ck.broken('C16.step', 'crc16_octet' + tag, cast.where(f), 'outside the bit domain: %s' % e)
    eng = sym.Engine(u, sizeof=sym.unit_sizeofs(UNIT, u, variant), inline=set())
    proved = set()
    # the word variant first: the octet variant may delegate to it (and vice versa on a second pass)
    fold_check(ck, u, eng, 'ufw_crc16_arc_u16', host_big, tag, proved)
    fold_check(ck, u, eng, 'ufw_crc16_arc', host_big, tag, proved)
    wrapper_check(ck, u, 'ufw_buffer_crc16_arc', 'ufw_crc16_arc', tag)
    wrapper_check(ck, u, 'ufw_buffer_crc16_arc_u16', 'ufw_crc16_arc_u16', tag)


def run(ck):
    ck.level = 'proof'
    ck.rule('C16.table', 'crc16_table equals the table generated from the reflected polynomial 0xA001')
    ck.rule('C16.step', 'bit summary of crc16_octet equals the bitwise definition of one CRC-16/ARC octet step for all states and octets')
    ck.rule('C16.fold', 'ufw_crc16_arc/_u16 are left folds of crc16_octet over the memory octet image, seeded by the parameter, returning the accumulator')
    ck.rule('C16.init', 'ufw_buffer_* pass CRC16_ARC_INITIAL = 0 and forward buffer/length unchanged')
    ck.trusted_base = ['clang 14 front end/JSON AST', 'ufwsa.bitdom (GF(2)-affine domain, linear-table rule)',
                       'own bitwise reference definition of CRC-16/ARC (poly 0x8005 reflected, no final xor)',
                       'fold recogniser (structural match of the accumulator loop)']
    ck.assumptions += ['CHAR_BIT = 8', 'host endianness per build flags (thorough: also big-endian variant)']
    run_config(ck, None, '')
    if ck.tier == 'thorough':
        run_config(ck, {'big_endian': True}, '@big')
