"""C16 The checksum is CRC-16/ARC for every input (proof: K8 + fold recogniser)."""
from .. import cast, bitdom
from ..bitdom import BV, Ptr, ZERO, ONE, TOP, Unsupported, bxor

UNIT = 'src/crc-16-arc.c'
POLY_REFLECTED = 0xA001     # x^16+x^15+x^2+1 (0x8005) bit-reversed


def ref_table():
    """CRC-16/ARC table from the definition (own reference, not repo code)."""
    t = []
    for i in range(256):
        c = i
        for _ in range(8):
            c = (c >> 1) ^ POLY_REFLECTED if c & 1 else c >> 1
        t.append(c)
    return t


def ref_step_symbolic(crc, data):
    """bitwise definition of one CRC-16/ARC octet step on affine bit vectors"""
    bits = list(crc.bits)
    for i in range(8):
        bits[i] = bxor(bits[i], data.bits[i])
    for _ in range(8):
        lsb = bits[0]
        bits = bits[1:] + [ZERO]
        for k in range(16):
            if (POLY_REFLECTED >> k) & 1:
                bits[k] = bxor(bits[k], lsb)
    return bits


def table_values(u, name):
    g = u.globals.get(name)
    if g is None:
        return None
    il = None
    for c in cast.inner(g):
        if cast.kind(cast.strip(c)) == 'InitListExpr':
            il = cast.strip(c)
    if il is None:
        return None
    vals = []
    for e in cast.inner(il):
        v = u.const_value(e)
        if v is None:
            return None
        vals.append(v)
    return vals


def is_ref(n, decl_id):
    n = cast.strip_all_casts(n)
    return cast.kind(n) == 'DeclRefExpr' and n['referencedDecl']['id'] == decl_id


def fold_check(ck, u, name, host_big, tag):
    """accumulator loop == left fold of crc16_octet over the memory image"""
    rule = 'C16.fold'
    f = u.fn(name)
    if f is None:
        return ck.broken(rule, name + tag, '', 'function missing')
    where = cast.where(f)
    ck.function(name)
    params = u.params(name)
    if len(params) != 3:
        return ck.broken(rule, name + tag, where, 'expected (crc, buffer, count)')
    p_crc, p_buf, p_n = params
    elem = bitdom.type_info(bitdom.resolve_typedefs(u, cast.qual_type(p_buf)))
    body = u.body(name)
    stmts = [s for s in cast.inner(body)]
    cursor = p_buf['id']
    cursor_elem = None
    loop = None
    ret = None
    for s in stmts:
        k = cast.kind(s)
        if k == 'DeclStmt':
            for d in cast.inner(s):
                init = d.get('inner', [None])[0]
                if init is not None and is_ref(init, p_buf['id']):
                    cursor = d['id']
                    cursor_elem = bitdom.type_info(bitdom.resolve_typedefs(u, cast.qual_type(d)))
                else:
                    return ck.broken(rule, name + tag, where, 'unrecognised local %s' % d.get('name'))
        elif k in ('WhileStmt', 'ForStmt'):
            if loop is not None:
                return ck.broken(rule, name + tag, where, 'more than one loop')
            loop = s
        elif k == 'ReturnStmt':
            ret = s
        else:
            return ck.broken(rule, name + tag, where, 'unrecognised statement %s' % k)
    if loop is None or ret is None:
        return ck.broken(rule, name + tag, where, 'no loop/return')
    if cursor_elem is None:
        cursor_elem = elem
    if cast.kind(loop) != 'WhileStmt':
        return ck.broken(rule, name + tag, where, 'loop form not recognised')
    cond, lbody = loop['inner'][0], loop['inner'][1]
    c = cast.strip_all_casts(cond)
    ok_cond = False
    if cast.kind(c) == 'BinaryOperator' and c['opcode'] in ('>', '!='):
        ok_cond = is_ref(c['inner'][0], p_n['id']) and u.const_value(c['inner'][1]) == 0
    elif is_ref(c, p_n['id']):
        ok_cond = True
    if not ok_cond:
        return ck.violation(rule, name + tag, where, 'loop does not run while the count is non-zero')
    steps = []          # data argument nodes in order
    cursor_inc = 0
    count_dec = 0
    for s in cast.inner(lbody):
        s0 = cast.strip(s)
        k = cast.kind(s0)
        if k == 'BinaryOperator' and s0['opcode'] == '=' and is_ref(s0['inner'][0], p_crc['id']):
            call = cast.strip_all_casts(s0['inner'][1])
            if cast.kind(call) != 'CallExpr' or cast.callee_name(call) != 'crc16_octet':
                return ck.violation(rule, name + tag, cast.where(s0), 'accumulator updated by something other than crc16_octet')
            if not is_ref(call['inner'][1], p_crc['id']):
                return ck.violation(rule, name + tag, cast.where(s0), 'step is not seeded with the running accumulator')
            steps.append((call['inner'][2], bool(cursor_inc)))
        elif k == 'UnaryOperator' and s0['opcode'] in ('++', '--'):
            tgt = s0['inner'][0]
            if is_ref(tgt, cursor) and s0['opcode'] == '++':
                cursor_inc += 1
            elif is_ref(tgt, p_n['id']) and s0['opcode'] == '--':
                count_dec += 1
            else:
                return ck.violation(rule, name + tag, cast.where(s0), 'unexpected %s' % s0['opcode'])
        else:
            return ck.broken(rule, name + tag, cast.where(s0), 'unrecognised loop statement')
    if cursor_inc != 1 or count_dec != 1:
        return ck.violation(rule, name + tag, where,
                            'per iteration cursor advances %d times, count decreases %d times (expected 1/1)'
                            % (cursor_inc, count_dec))
    if any(after for _, after in steps):
        return ck.violation(rule, name + tag, where, 'datum read after the cursor moved')
    if not is_ref(ret['inner'][0], p_crc['id']):
        return ck.violation(rule, name + tag, where, 'does not return the accumulator')
    # which octets of the element does each step feed?
    ew = cursor_elem[1] * 8 if cursor_elem and cursor_elem[0] == 'ptr' else 8
    lanes = []
    ip = bitdom.Interp(u, big_endian=host_big)
    for arg, _ in steps:
        fr = bitdom.Frame(ip, name, 0)
        # bind cursor to parameter memory
        decl = u.by_id[cursor]
        fr.objs[cursor] = {'ptr': Ptr(('param', 'buf'), 0, ew // 8)}
        try:
            v = fr.rvalue(arg)
        except Unsupported as e:
            return ck.broken(rule, name + tag, cast.where(arg), 'datum expression outside bit domain: %s' % e)
        v8 = v.convert(8, False)
        # value bits of the element -> memory octet index under host endianness
        lane = None
        nb = ew // 8
        for byte in range(nb):
            exp = [(0, frozenset(['buf[%d].%d' % (byte, b)])) for b in range(8)]
            if list(v8.bits) == exp:
                lane = byte
        if lane is None:
            return ck.violation(rule, name + tag, cast.where(arg), 'datum is not one octet of the current element: %r' % (v8,))
        lanes.append(lane)
    want = list(range(ew // 8))
    ok = lanes == want
    return ck.verdict(ok, rule, name + tag, where,
                      ('accumulator := crc16_octet(acc, octet) for memory octets %s of each element in '
                       'address order; cursor +1, count -1 per iteration; returns acc => concatenation law' % lanes)
                      if ok else 'feeds memory octets %s of each element, memory order is %s' % (lanes, want))


def wrapper_check(ck, u, name, target, tag):
    rule = 'C16.init'
    f = u.fn(name)
    if f is None:
        return ck.broken(rule, name + tag, '', 'function missing')
    ck.function(name)
    where = cast.where(f)
    params = u.params(name)
    body = [s for s in cast.inner(u.body(name))]
    if len(body) != 1 or cast.kind(body[0]) != 'ReturnStmt':
        return ck.broken(rule, name + tag, where, 'wrapper shape not recognised')
    call = cast.strip_all_casts(body[0]['inner'][0])
    if cast.kind(call) != 'CallExpr' or cast.callee_name(call) != target:
        return ck.violation(rule, name + tag, where, 'does not forward to %s' % target)
    args = call['inner'][1:]
    ok = (u.const_value(args[0]) == 0 and is_ref(args[1], params[0]['id']) and is_ref(args[2], params[1]['id']))
    return ck.verdict(ok, rule, name + tag, where,
                      'forwards (0x0000, buffer, len) to %s' % target if ok else
                      'arguments are not (CRC16_ARC_INITIAL=0, buffer, len)')


def run_config(ck, variant, tag):
    host_big = bool(variant and variant.get('big_endian'))
    u = cast.load(UNIT, variant)
    ck.unit(UNIT + tag)
    tab = table_values(u, 'crc16_table')
    ref = ref_table()
    if tab is None:
        ck.broken('C16.table', 'crc16_table' + tag, '', 'table initialiser not found')
        return
    where = cast.where(u.globals['crc16_table'])
    if len(tab) != 256:
        ck.violation('C16.table', 'crc16_table' + tag, where, 'table has %d entries' % len(tab))
        return
    bad = [i for i in range(256) if tab[i] != ref[i]]
    ck.verdict(not bad, 'C16.table', 'crc16_table' + tag, where,
               '256 entries equal the table generated from polynomial 0xA001 (reflected 0x8005)' if not bad else
               'entry %d is 0x%04x, CRC-16/ARC table has 0x%04x (%d entries differ)' % (bad[0], tab[bad[0]], ref[bad[0]], len(bad)))
    lin = tab[0] == 0 and all(tab[a ^ b] == tab[a] ^ tab[b] for a in range(256) for b in (1, 2, 4, 8, 16, 32, 64, 128))
    ip = bitdom.Interp(u, big_endian=host_big,
                       linear_tables={'crc16_table': (tab, 16)} if lin else {})
    ck.function('crc16_octet')
    f = u.fn('crc16_octet')
    if f is None:
        ck.broken('C16.step', 'crc16_octet' + tag, '', 'function missing')
    else:
        crc = BV.sym('crc', 16)
        data = BV.sym('data', 8)
        try:
            if not lin:
                raise Unsupported('table is not GF(2)-linear, lookup cannot be summarised')
            ret, stores, loads = ip.run('crc16_octet', [crc, data])
            exp = ref_step_symbolic(crc, data)
            got = list(ret.convert(16, False).bits)
            diff = [i for i in range(16) if got[i] != exp[i]]
            ck.verdict(not diff and not stores and not loads, 'C16.step', 'crc16_octet' + tag, cast.where(f),
                       '16x24 GF(2) matrix of the step equals the bitwise CRC-16/ARC definition (all 2^24 (state,octet) pairs)'
                       if not diff else 'output bit %d differs from the CRC-16/ARC step' % diff[0])
        except Unsupported as e:
            if bad:
                ck.violation('C16.step', 'crc16_octet' + tag, cast.where(f), 'step uses a table that is not the CRC-16/ARC table')
            else:
                ck.broken('C16.step', 'crc16_octet' + tag, cast.where(f), 'outside the bit domain: %s' % e)
    fold_check(ck, u, 'ufw_crc16_arc', host_big, tag)
    fold_check(ck, u, 'ufw_crc16_arc_u16', host_big, tag)
    wrapper_check(ck, u, 'ufw_buffer_crc16_arc', 'ufw_crc16_arc', tag)
    wrapper_check(ck, u, 'ufw_buffer_crc16_arc_u16', 'ufw_crc16_arc_u16', tag)


def run(ck):
    ck.level = 'proof'
    ck.rule('C16.table', 'crc16_table equals the table generated from the reflected polynomial 0xA001')
    ck.rule('C16.step', 'bit summary of crc16_octet equals the bitwise definition of one CRC-16/ARC octet step for all states and octets')
    ck.rule('C16.fold', 'ufw_crc16_arc/_u16 are left folds of crc16_octet over the memory octet image, seeded by the parameter, returning the accumulator')
    ck.rule('C16.init', 'ufw_buffer_* pass CRC16_ARC_INITIAL = 0 and forward buffer/length unchanged')
    ck.trusted_base = ['clang 14 front end/JSON AST', 'ufwsa.bitdom (GF(2)-affine domain, linear-table rule)',
                       'own bitwise reference definition of CRC-16/ARC (poly 0x8005 reflected, no final xor)',
                       'fold recogniser (structural match of the accumulator loop)']
    ck.assumptions += ['CHAR_BIT = 8', 'host endianness per build flags (thorough: also big-endian variant)']
    run_config(ck, None, '')
    if ck.tier == 'thorough':
        run_config(ck, {'big_endian': True}, '@big')
