"""C12 SLIP framing is transparent, bounded and self-resynchronising.

Decided: escape tables of encoder and decoder are inverse (a), per-octet cost
and worst-case macro (b), decoder never emits more than it consumed (c), error
propagation (d), the decoder's complete transition table extracted from the
state switch equals the oracle table of DESIGN appendix A.4 (e).  Transparency
for all payloads/concatenations is the consequence of a+c+e (argued, not
explored)."""
from .. import cast, sym, front
from .common import distinct_enums
from ..sym import C, fmt

UNIT = 'src/rfc1055.c'
END, ESC, ESC_END, ESC_ESC = 0xc0, 0xdb, 0xdc, 0xdd
NAMES = {END: 'END', ESC: 'ESC', ESC_END: 'ESC_END', ESC_ESC: 'ESC_ESC'}
ENDPOINT = ('source_get_octet', 'sink_put_octet', 'sink_put_chunk')
EILSEQ, ENODATA = -84, -61


def strip_cast(t):
    while t is not None and t[0] == 'cast':
        t = t[2]
    return t


def is_neg(p, res):
    return any(c[0] == 'cmp' and c[1] == '<' and strip_cast(c[2]) == res and c[3] == C(0) for c in p.cond_terms())


def octet_class(p, atom):
    """classify the octet value `atom` by the path's equalities/disequalities"""
    eqs, nes = set(), set()
    for c in p.cond_terms():
        if c[0] == 'cmp' and c[1] in ('==', '!=') and c[2] == atom and sym.is_c(c[3]):
            (eqs if c[1] == '==' else nes).add(c[3][1])
    if eqs:
        return NAMES.get(min(eqs), 'x%02x' % min(eqs))
    return 'not{%s}' % ','.join(sorted(NAMES.get(v, hex(v)) for v in nes)) if nes else 'any'


def events(p):
    """ordered octet events of a path: list of class names or 'ERR'"""
    ev = []
    atoms = []
    for e in p.effects:
        if e.kind == 'call' and e.name == 'source_get_octet':
            res = e.result
            if is_neg(p, res):
                # a source that itself reports -EILSEQ cannot be told from an invalid escape
                # at this interface (comment in rfc1055_decode_octet): separate class
                same = any(c[0] == 'cmp' and c[1] == '==' and strip_cast(c[2]) == res and c[3] == C(EILSEQ) for c in p.cond_terms())
                ev.append('ERR(EILSEQ)' if same else 'ERR')
                atoms.append(None)
                continue
            dst = e.args[1]
            atom = None
            # value the callee stored: first havoc atom created for the destination after this call
            want = 'call:source_get_octet:' + fmt(dst[1]) if dst[0] == '&' else None
            for c in p.cond_terms():
                for x in sym.subterms(c):
                    if x[0] == 'h' and want and x[1] == want:
                        atom = x
            if atom is None:
                for ee in p.effects:
                    for a in (ee.args or ()):
                        for x in sym.subterms(a):
                            if x[0] == 'h' and want and x[1] == want:
                                atom = x
            atoms.append(atom)
            ev.append(octet_class(p, atom) if atom is not None else 'any')
    return ev, atoms


def run(ck):
    ck.rule('C12.g', 'the payload the encoder frames comes through a source, and the encoder takes an answer of 0 for the end of the payload: the library\'s own buffer and chunk-list sources deliver every unread octet in order and answer "no more" only when none is left (C17.g re-evaluated)')
    ck.rule('C12.f', 'sink_put_chunk, through which the encoder writes its escape pairs, returns a hard driver error unchanged and never reports a pair as written when one octet was refused (C17.a-d re-evaluated)')
    ck.rule('C12.a', 'escape tables: encoder maps ESC->(ESC,ESC_ESC), END->(ESC,ESC_END), any other octet to itself; the decoder map is the inverse; no escape sequence contains END')
    ck.rule('C12.b', 'cost: at most 2 octets emitted per consumed octet, open emits at most 1 (only with start-of-frame), close exactly 1; RFC1055_WORST_CASE(n,sof) = 2n+1 / 2n+2 (compiler-evaluated)')
    ck.rule('C12.c', 'on every decoder path the number of sink_put_octet calls is at most the number of successful source_get_octet calls of that iteration')
    ck.rule('C12.d', 'every negative endpoint result is returned unchanged (each call site has its error path); -EILSEQ arises exactly on an invalid escape / garbage before a start delimiter')
    ck.rule('C12.e', 'transition table (state x input event x mode -> next state, result, emitted octet) extracted from rfc1055_decode equals the oracle table (classic: resume after the next END; start-of-frame: SEARCH_FOR_START after END, SEARCH_FOR_END on garbage)')
    ck.not_decided += ['decode(encode(p)) = p for all payloads and concatenations as such (follows from C12.a, c, e)']
    u = cast.load(UNIT)
    ck.unit(UNIT)
    so = sym.unit_sizeofs(UNIT, u)
    eng = sym.Engine(u, sizeof=so, inline={'transition', 'rfc1055_decode_octet', 'rfc1055_open', 'rfc1055_close', 'rfc1055_encode_octet'})
    st_enum = {n: v for lst in u.enum_decls.values() for n, v in lst if n.startswith('RFC1055_')}
    S_START, S_END, S_NORMAL = (st_enum.get(x) for x in ('RFC1055_SEARCH_FOR_START', 'RFC1055_SEARCH_FOR_END', 'RFC1055_NORMAL'))
    if None in (S_START, S_END, S_NORMAL):
        return ck.broken('C12.e', 'state-enum', '', 'decoder state enumerators not found')
    SN = {S_START: 'START', S_END: 'SEARCH_END', S_NORMAL: 'NORMAL'}
    # the two ways to set up a context agree: the static initialiser macros give the state rfc1055_context_init()
    # establishes for the same flags (start-of-frame mode starts in SEARCH_FOR_START, classic mode in NORMAL)
    SOFBIT = u.enums.get('RFC1055_WITH_SOF')
    if SOFBIT is None:
        try:
            SOFBIT = front.probe_values(UNIT, ['RFC1055_WITH_SOF'])[0]
        except Exception:
            SOFBIT = None
    if SOFBIT is None:
        ck.broken('C12.e', 'context-init', 'include/ufw/rfc1055.h', 'RFC1055_WITH_SOF could not be evaluated')
    try:
        pu = cast.load(UNIT, source_text='#include <ufw/rfc1055.h>\nRFC1055Context vp_d = RFC1055_CONTEXT_INIT_DEFAULT;\n'
                                         'RFC1055Context vp_s = RFC1055_CONTEXT_INIT_WITH_SOF;\n')
        inits = {'RFC1055_CONTEXT_INIT_DEFAULT': cast.init_fields(pu, 'vp_d'), 'RFC1055_CONTEXT_INIT_WITH_SOF': cast.init_fields(pu, 'vp_s')}
    except Exception as e:
        inits = None
        ck.broken('C12.e', 'context-init:macros', 'include/ufw/rfc1055.h', 'probe failed: %s' % e)
    if inits and SOFBIT is not None:
        ctor = {}
        try:
            for p in eng.paths('rfc1055_context_init'):
                st_ = [e.args[0] for e in p.stores() if fmt(e.name).endswith('state')]
                sof = None
                for c in p.cond_terms():
                    if c[0] == 'cmp' and c[2][0] == '&b' and sym.is_c(c[3]):
                        sof = (c[1] == '==') == (c[3][1] != 0)
                if st_ and sym.is_c(st_[-1]) and sof is not None:
                    ctor[sof] = st_[-1][1]
        except (sym.Unsupported, sym.PathLimit) as e:
            ctor = {}
        if set(ctor) != {True, False}:
            ck.broken('C12.e', 'context-init', 'src/rfc1055.c', 'rfc1055_context_init not understood: %s' % ctor)
        else:
            okc = ctor == {True: S_START, False: S_NORMAL}
            ck.verdict(okc, 'C12.e', 'context-init', cast.where(u.fn('rfc1055_context_init')),
                       'start-of-frame mode starts in SEARCH_FOR_START, classic mode in NORMAL' if okc else
                       'initial states: with SOF %s, without %s' % (SN.get(ctor[True], ctor[True]), SN.get(ctor[False], ctor[False])))
            for mname, f in sorted(inits.items()):
                if not f or f.get('flags') is None or f.get('state') is None:
                    ck.broken('C12.e', 'context-init:' + mname, 'include/ufw/rfc1055.h', 'initialiser not understood: %s' % f)
                    continue
                sof = bool(f['flags'] & SOFBIT)
                okm = f['state'] == ctor[sof] and (mname.endswith('WITH_SOF') == sof)
                ck.verdict(okm, 'C12.e', 'context-init:' + mname, 'include/ufw/rfc1055.h',
                           '%s = (state %s, flags %#x), as rfc1055_context_init sets it' % (mname, SN.get(f['state'], f['state']), f['flags']) if okm else
                           '%s sets state %s with flags %#x; rfc1055_context_init starts that mode in %s: a context from the macro mis-reads the first frame'
                           % (mname, SN.get(f['state'], f['state']), f['flags'], SN.get(ctor[sof], ctor[sof])))
    distinct_enums(ck, u, 'C12.e', ('RFC1055_SEARCH', 'RFC1055_NORMAL'), 'include/ufw/rfc1055.h') if False else None
    if len({S_START, S_END, S_NORMAL}) != 3:
        ck.violation('C12.e', 'state-enum', 'include/ufw/rfc1055.h', 'decoder states share a value: %s' % {k: v for k, v in st_enum.items()})
    # ---------------- decoder -------------------------------------------------------
    ck.function('rfc1055_decode')
    try:
        dps = eng.paths('rfc1055_decode')
    except (sym.Unsupported, sym.PathLimit) as e:
        return ck.broken('C12.e', 'rfc1055_decode', '', 'path enumeration: %s' % e)
    ck.analysed['paths'] += len(dps)
    where = cast.where(u.fn('rfc1055_decode'))
    ctx = ('v', 'ctx')
    table = {}
    # the machine's state inside the call: the loop-carried location the iterations dispatch on (compared with the state
    # enumerators) - ctx->state itself, or a local copy of it that is written back where the call returns.  What the
    # NEXT call starts from is what ctx->state holds at the return.
    CTXSTATE = ('f', ctx, 'state')
    skey = None
    for p in dps:
        if not p.loops:
            continue
        for k_, (h_, pre_) in p.loops[-1][1].items():
            if any(c[0] == 'cmp' and c[1] in ('==', '!=') and strip_cast(c[2]) == h_ and sym.is_c(c[3]) and c[3][1] in (S_START, S_END, S_NORMAL) for c in p.cond_terms()):
                if skey is None or k_ == CTXSTATE:
                    skey = k_
    if skey is None:
        ck.broken('C12.e', 'rfc1055_decode:shape', where, 'no loop-carried location is compared with the decoder states (the state machine is not a dispatch on a state variable)')
        return
    for p in dps:
        if not p.loops:
            ck.broken('C12.e', 'rfc1055_decode:shape', where, 'path outside the decode loop')
            continue
        lmap = p.loops[-1][1]
        hs = lmap.get(skey)
        if hs is None:
            ck.broken('C12.e', 'rfc1055_decode:shape', where, 'the decoder state %s is not loop-carried' % fmt(skey))
            return
        hstate = hs[0]
        if skey != CTXSTATE and strip_cast(hs[1]) != CTXSTATE:
            ck.violation('C12.e', 'rfc1055_decode:start-state', where, 'the state machine starts from %s, not from the state the context holds' % fmt(hs[1]))
            return
        eqs = [c[3][1] for c in p.cond_terms() if c[0] == 'cmp' and c[1] == '==' and c[2] == hstate and sym.is_c(c[3])]
        nes = [c[3][1] for c in p.cond_terms() if c[0] == 'cmp' and c[1] == '!=' and c[2] == hstate and sym.is_c(c[3])]
        if eqs:
            state = SN.get(eqs[0], '?')
        elif S_START in nes and S_END in nes:
            state = 'NORMAL'
        else:
            state = '?'
        flag = ('f', ctx, 'flags')
        mode = 'both'
        for c in p.cond_terms():
            if c[0] == 'cmp' and c[2] == ('&b', flag, C(1)) and c[3] == C(1):
                mode = 'sof' if c[1] == '==' else 'classic'
        ev, atoms = events(p)
        puts = [e for e in p.calls('sink_put_octet')]
        sinkerr = any(is_neg(p, e.result) for e in puts)
        # next state: what the next iteration dispatches on (back edge) resp. what the context holds for the next call (return)
        if p.end == 'loopback' or skey == CTXSTATE:
            nxt = sym.mem_read(p.mem, skey, hstate)
            nxt = strip_cast(nxt)
        else:
            nxt = strip_cast(sym.mem_read(p.mem, CTXSTATE))
            if nxt == CTXSTATE:
                # the call returns without having stored the machine's state: the context still holds what it held when the
                # call began - the same as the machine's state only if no transition happened before in this call
                nxt = ('stale',)
        nxt = 'same' if nxt == hstate else SN.get(nxt[1], '?') if nxt[0] == 'c' else ('entry-state' if nxt == ('stale',) else '?')
        if p.end == 'loopback':
            res = 'continue'
        elif p.ret is not None and p.ret[0] == 'c':
            res = p.ret[1]
        else:
            r = strip_cast(p.ret)
            res = 'error' if r is not None and r[0] == 'call' and r[1] in ENDPOINT else '?%s' % fmt(p.ret)
        emitted = []
        for e in puts:
            v = strip_cast(e.args[1])
            if v[0] == 'c':
                emitted.append(NAMES.get(v[1], hex(v[1])))
            elif v in atoms:
                emitted.append('octet%d' % atoms.index(v))
            else:
                emitted.append(fmt(v))
        if sinkerr:
            ev = ev + ['SINKERR']
        # C12.c
        ngot = len([x for x in ev if x not in ('ERR', 'SINKERR')])
        ck.verdict(len(puts) <= ngot, 'C12.c', 'decode:%s:%s:%s' % (state, '+'.join(ev), mode), where,
                   '%d emitted <= %d consumed' % (len(puts), ngot) if len(puts) <= ngot else
                   'emits %d octets after consuming %d' % (len(puts), ngot))
        if any(x == 'ERR(EILSEQ)' for x in ev):
            # the SOURCE answered -EILSEQ (the decoder's own verdict for an invalid escape has the same number): it is a
            # source error like any other - returned unchanged, decoder state untouched, since nothing was consumed.  Taken
            # for an invalid escape, the decoder goes to skip-to-next-delimiter and the well-formed frame in progress /
            # the next one is discarded.
            ev2 = ['ERR' if x == 'ERR(EILSEQ)' else x for x in ev]
            for m in (['classic', 'sof'] if mode == 'both' else [mode]):
                row = find_row(oracle_table(), state, tuple(ev2), m)
                k = 'decode:%s:%s:%s' % (state, '+'.join(ev), m)
                if row is None:
                    ck.broken('C12.e', k, where, 'path class not in the oracle table')
                    continue
                want = oracle_table()[row]
                okv = (state if want[0] == 'same' and state != '?' else want[0]) == (state if nxt == 'same' and state != '?' else nxt) and (res == 'error' or res == EILSEQ)
                ck.verdict(okv, 'C12.e', k, where,
                           'a source answering -EILSEQ is a source error: returned unchanged, state untouched' if okv else
                           'state %s, the SOURCE answers -EILSEQ (%s), %s mode: the decoder takes it for its own invalid-escape verdict and goes to %s although nothing was consumed; the '
                           'property demands the error returned and the state unchanged - the frame in progress (or the next well-formed one) is silently discarded'
                           % (state, '+'.join(ev), m, nxt))
            continue
        key = (state, tuple(ev), mode)
        val = (nxt, res, tuple(emitted))
        if key in table and table[key] != val:
            ck.broken('C12.e', 'rfc1055_decode:ambiguous', where, 'two paths for %s: %s / %s' % (key, table[key], val))
        table[key] = val
    oracle = oracle_table()
    unread = False
    # every oracle row must be realised by the paths covering it, every path must match a row
    matched = set()
    for key, val in sorted(table.items(), key=str):
        state, ev, mode = key
        modes = ['classic', 'sof'] if mode == 'both' else [mode]
        for m in modes:
            row = find_row(oracle, state, ev, m)
            k = 'decode:%s:%s:%s' % (state, '+'.join(ev), m)
            if row is None:
                ck.broken('C12.e', k, where, 'path class not in the oracle table (next=%s result=%s emit=%s)' % val)
                continue
            matched.add(row)
            want = oracle[row]
            if val[0] == 'entry-state':
                ck.violation('C12.e', k, where,
                             'state %s, input %s, %s mode: the call returns (result %s) without writing the decoder state back to the context - the context keeps the '
                             'state it had when the call BEGAN, and a transition made earlier in the same call (a resynchronising END already consumed) is lost: '
                             'the next call skips or drops the following well-formed frame' % (state, '+'.join(ev), m, val[1]))
                continue
            if val[0] == '?':
                unread = True
                ck.broken('C12.e', k, where, 'the next state on this path is not a constant the rule can read (%s): computed through a table or a helper result'
                          % fmt(sym.mem_read(dps[0].mem, ('f', ctx, 'state'))) if False else
                          'the next state on this path is not a constant the rule can read (computed through a lookup table or a call result)')
                continue
            # 'same' and the name of the state the iteration started in are the same answer
            def _res(x):
                return state if (x == 'same' and state != '?') else x
            ok = (_res(want[0]),) + tuple(want[1:]) == (_res(val[0]),) + tuple(val[1:])
            ck.verdict(ok, 'C12.e', k, where,
                       'next=%s result=%s emit=%s' % val if ok else
                       'state %s, input %s, %s mode: code gives next=%s result=%s emit=%s; the property demands next=%s result=%s emit=%s'
                       % ((state, '+'.join(ev), m) + val + want))
    missing = [r for r in oracle if r not in matched and not (r[0] == 'START' and r[2] == 'classic')]
    for r in ([] if unread else missing):
        ck.violation('C12.e', 'decode:missing:%s:%s:%s' % (r[0], '+'.join(r[1]), r[2]), where,
                     'no path realises oracle row %s' % (r,))
    ck.floor('C12.e', 'decoder path classes', len(table), 14)
    # ---------------- encoder -------------------------------------------------------
    arrays = {}
    for name, g in u.globals.items():
        if '[' in cast.qual_type(g) and g.get('inner'):
            il = cast.strip(g['inner'][0])
            if cast.kind(il) == 'InitListExpr':
                vals = [u.const_value(x) for x in cast.inner(il)]
                if all(v is not None for v in vals):
                    arrays[name] = vals
    ck.function('rfc1055_encode')
    try:
        eps = eng.paths('rfc1055_encode')
    except (sym.Unsupported, sym.PathLimit) as e:
        return ck.broken('C12.a', 'rfc1055_encode', '', 'path enumeration: %s' % e)
    ck.analysed['paths'] += len(eps)
    ewhere = cast.where(u.fn('rfc1055_encode'))
    enc_map = {}
    for p in eps:
        gets = p.calls('source_get_octet')
        inl = [e for e in gets if e.inloop]
        if len(inl) != 1 or p.end != 'loopback':
            continue
        ev, atoms = events(p)
        outs = []
        for e in p.effects:
            if e.kind != 'call' or not e.inloop:
                continue
            if e.name == 'sink_put_octet':
                v = strip_cast(e.args[1])
                outs.append(NAMES.get(v[1], hex(v[1])) if v[0] == 'c' else ('octet' if v in atoms else fmt(v)))
            elif e.name == 'sink_put_chunk':
                arr = e.args[1]
                nm = arr[1][1] if arr[0] == '&' and arr[1][0] == 'v' else None
                ln = e.args[2][1] if sym.is_c(e.args[2]) else None
                if nm in arrays and ln is not None and ln <= len(arrays[nm]):
                    outs += [NAMES.get(v, hex(v)) for v in arrays[nm][:ln]]
                else:
                    outs.append('chunk?%s' % fmt(arr))
        enc_map[ev[0] if ev else '?'] = tuple(outs)
    want_enc = {'ESC': ('ESC', 'ESC_ESC'), 'END': ('ESC', 'ESC_END')}
    for k_, v_ in want_enc.items():
        got = enc_map.get(k_)
        ck.verdict(got == v_, 'C12.a', 'encode:' + k_, ewhere,
                   '%s -> %s' % (k_, '+'.join(v_)) if got == v_ else '%s is encoded as %s, expected %s' % (k_, got, v_))
    others = {k_: v_ for k_, v_ in enc_map.items() if k_ not in want_enc}
    ok_other = len(others) == 1 and list(others.values())[0] == ('octet',) and \
        set(list(others)[0].replace('not{', '').replace('}', '').split(',')) == {'END', 'ESC'}
    ck.verdict(ok_other, 'C12.a', 'encode:other', ewhere,
               'every octet other than END/ESC is passed through unchanged' if ok_other else 'pass-through class is %s' % others)
    noend = all('END' not in v_ for v_ in enc_map.values())
    ck.verdict(noend, 'C12.a', 'encode:no-END-inside', ewhere,
               'no encoding of a payload octet contains the delimiter' if noend else 'an escape sequence contains END: %s' % enc_map)
    # decoder inverse of encoder
    for src_, seq in want_enc.items():
        rows = [table[k_] for k_ in ((('NORMAL', seq, 'both'),) if ('NORMAL', seq, 'both') in table else
                                     (('NORMAL', seq, 'classic'), ('NORMAL', seq, 'sof'))) if k_ in table]
        row = rows[0] if rows and all(r_ == rows[0] for r_ in rows) and (len(rows) == 2 or ('NORMAL', seq, 'both') in table) else None
        ok = row is not None and row[2] == (src_,)
        ck.verdict(ok, 'C12.a', 'decode-inverse:' + src_, where,
                   'decoder maps %s back to %s' % ('+'.join(seq), src_) if ok else 'decoder maps %s to %s' % ('+'.join(seq), row))
    # cost
    maxper = max([len(v_) for v_ in enc_map.values()] or [0])
    ck.verdict(0 < maxper <= 2, 'C12.b', 'encode:per-octet', ewhere, 'at most %d octets per payload octet' % maxper)
    open_close_ok = True
    detail = ''
    # The opening step taken INSIDE the loop, in its first iteration only: a loop-carried flag that is c0 before the loop,
    # is tested `== c0` in front of the step, and is something else on every back edge - so the step runs exactly once,
    # at the first visit of the loop head (induction on the flag), and it runs before that iteration asks the source for
    # anything.  That is the opening step in front of the loop, written differently.
    first_iter = {}          # havoc atom of the flag -> c0
    for p in eps:
        for nd, lm in p.loops:
            for k_, (h_, pre_) in lm.items():
                if pre_ is not None and sym.is_c(strip_cast(pre_)) and isinstance(h_, tuple) and h_[0] == 'h':
                    first_iter.setdefault(h_, (k_, strip_cast(pre_)[1], nd))
    for h_, (k_, c0, nd) in list(first_iter.items()):
        backs = [p for p in eps if p.end == 'loopback' and any(n2 is nd and lm.get(k_, (None,))[0] == h_ for n2, lm in p.loops)]
        def not_c0(p):
            v = strip_cast(sym.mem_read(p.mem, k_, h_))
            if sym.is_c(v):
                return v[1] != c0
            # left as it was, on a path that knows it was not c0
            return v == h_ and any((c[0] == 'cmp' and c[1] == '!=' and c[2] == h_ and c[3] == C(c0)) or
                                   (c[0] == 'cmp' and c[1] == '==' and c[2] == h_ and sym.is_c(c[3]) and c[3][1] != c0) for c in p.cond_terms())
        ok_flag = bool(backs) and all(not_c0(p) for p in backs)
        if not ok_flag:
            del first_iter[h_]

    def opening_in_first_iteration(p, e):
        """is the in-loop emission e the opening step of the first iteration on path p?"""
        for h_, (k_, c0, nd) in first_iter.items():
            if any(c == ('cmp', '==', h_, C(c0)) for c in p.cond_terms()):
                gets = [x for x in p.effects if x.kind == 'call' and x.name == 'source_get_octet' and x.inloop]
                return not gets or p.effects.index(e) < p.effects.index(gets[0])
        return False

    def opened_earlier(p):
        """the path is in a later iteration: the flag is known not to be c0, so (induction) the opening step has run"""
        for h_, (k_, c0, nd) in first_iter.items():
            if any(c[0] == 'cmp' and c[1] == '!=' and c[2] == h_ and c[3] == C(c0) for c in p.cond_terms()) or \
                    any(c[0] == 'cmp' and c[1] == '==' and c[2] == h_ and sym.is_c(c[3]) and c[3][1] != c0 for c in p.cond_terms()):
                return True
        return False
    for p in eps:
        if p.end != 'return':
            continue
        if opened_earlier(p):
            # only the closing delimiter belongs to this path's own effects
            post = [e for e in p.effects if e.kind == 'call' and e.name in ('sink_put_octet', 'sink_put_chunk') and not e.inloop]
            if p.ret == C(0) and (len(post) != 1 or strip_cast(post[0].args[1]) != C(END)):
                open_close_ok = False
                detail = 'a frame opened in an earlier iteration is completed with %d delimiter(s) behind the loop, expected the one closing END' % len(post)
            continue
        pre = [e for e in p.effects if e.kind == 'call' and e.name in ('sink_put_octet', 'sink_put_chunk') and (not e.inloop or opening_in_first_iteration(p, e))]
        sof = any(c[0] == 'cmp' and c[1] == '==' and c[2][0] == '&b' and c[3] == C(1) for c in p.cond_terms())
        sof_decided = any(c[0] == 'cmp' and c[1] in ('==', '!=') and c[2][0] == '&b' and 'flags' in fmt(c[2]) for c in p.cond_terms())
        done = p.ret == C(0)
        if done and not sof_decided:
            open_close_ok = False
            detail = ('a frame is completed on a path that never consulted the start-of-frame flag: the opening step is not executed before the payload loop '
                      '(an empty payload is framed without its opening delimiter)')
            continue
        if done:
            want_n = 2 if sof else 1
            if len(pre) != want_n or any(strip_cast(e.args[1]) != C(END) for e in pre):
                open_close_ok = False
                detail = 'frame delimiters emitted outside the payload loop: %d (sof=%s)' % (len(pre), sof)
    for p in eps:
        raw_end_in_loop = [e for e in p.effects if e.kind == 'call' and e.inloop and e.name == 'sink_put_octet' and strip_cast(e.args[1]) == C(END)
                           and not opening_in_first_iteration(p, e)]
        if raw_end_in_loop:
            open_close_ok = False
            detail = 'a raw delimiter is emitted from inside the payload loop at %s: frame boundaries depend on the payload' % raw_end_in_loop[0].where()
    ck.verdict(open_close_ok, 'C12.b', 'encode:delimiters', ewhere,
               'open emits END only with start-of-frame, close emits exactly one END' if open_close_ok else detail)
    try:
        ns = [0, 1, 5, 1000]
        vals = front.probe_values(UNIT, ['RFC1055_WORST_CASE(%du, %d)' % (n, s) for n in ns for s in (0, 1)])
        exp = [2 * n + (2 if s else 1) for n in ns for s in (0, 1)]
        ck.verdict(vals == exp, 'C12.b', 'RFC1055_WORST_CASE', 'include/ufw/rfc1055.h',
                   'macro = 2n+1 / 2n+2 on samples %s' % ns if vals == exp else 'macro gives %s, expected %s' % (vals, exp))
    except front.FrontError as e:
        ck.broken('C12.b', 'RFC1055_WORST_CASE', '', str(e))
    # end of payload / errors in the encoder loop
    end_ok = False
    for p in eps:
        for e in p.calls('source_get_octet'):
            if any(c == ('cmp', '==', e.result, C(ENODATA)) or c == ('cmp', '==', e.result, C(0)) for c in p.cond_terms()) and p.ret == C(0):
                end_ok = True
    ck.verdict(end_ok, 'C12.d', 'encode:end-of-payload', ewhere, 'source end (-ENODATA / 0) closes the frame' if end_ok else 'no path closes the frame at the end of the payload')
    # ---------------- C12.d error propagation over both entry points ----------------------
    sites = {}
    for fn, ps in (('rfc1055_decode', dps), ('rfc1055_encode', eps)):
        for p in ps:
            for e in p.effects:
                if e.kind == 'call' and e.name in ENDPOINT:
                    sid = (fn, e.name, cast.where(e.node))
                    sites.setdefault(sid, False)
                    neg = is_neg(p, e.result)
                    if not neg:
                        continue
                    special = fn == 'rfc1055_encode' and e.name == 'source_get_octet' and \
                        any(c == ('cmp', '==', e.result, C(ENODATA)) for c in p.cond_terms())
                    if special:
                        continue
                    ok = p.end == 'return' and strip_cast(p.ret) == e.result
                    sites[sid] = True
                    if not ok:
                        ck.violation('C12.d', '%s:%s:%s' % sid, e.where(),
                                     'negative result of %s is not returned unchanged (path ends with %s %s)' % (e.name, p.end, fmt(p.ret) if p.ret else ''))
    for sid, checked in sorted(sites.items()):
        if checked:
            ck.holds('C12.d', '%s:%s:%s' % sid, sid[2], 'negative result returned unchanged')
        else:
            ck.violation('C12.d', '%s:%s:%s' % sid, sid[2], 'result of %s is never tested for an error' % sid[1])
    ck.floor('C12.d', 'endpoint call sites', len(sites), 8)
    # EILSEQ exactly on invalid escape / garbage before start
    bad = [k for k, v in table.items() if v[1] == EILSEQ and not (
        (k[0] == 'NORMAL' and len(k[1]) == 2 and k[1][0] == 'ESC' and k[1][1] not in ('ESC_END', 'ESC_ESC', 'ERR')) or
        (k[0] == 'START' and len(k[1]) == 1 and k[1][0].startswith('not{')))]
    ck.verdict(not bad, 'C12.d', 'decode:EILSEQ', where, '-EILSEQ only for invalid escapes and garbage before a start delimiter' if not bad else '-EILSEQ also on %s' % bad)
    from .common import reevaluate
    reevaluate(ck, 'C12.f', 'c17', lambda r, k: r in ('C17.a', 'C17.b', 'C17.c', 'C17.d') and k.startswith(('sink_put_chunk', 'sink_adapt')),
               'escape pairs are written with sink_put_chunk: it returns a driver error unchanged and writes both octets or fails')
    ck.rule('C12.h', '"source or sink errors are returned unchanged" rests on the one-shot octet calls the codec reads and writes with: one driver call per request, the answer handed on as it is (C17.j re-evaluated) - a -EAGAIN in mid-frame reaches the caller, the decoder does not spin inside the library')
    reevaluate(ck, 'C12.h', 'c17', lambda r, k: r == 'C17.j',
               'rfc1055_decode / rfc1055_encode take and put single octets with source_get_octet / sink_put_octet')
    reevaluate(ck, 'C12.g', 'c17', lambda r, k: r == 'C17.g',
               'the encoder is fed through the buffer / chunk-list sources and stops at an answer of 0 or -ENODATA: they answer so only when no unread octet is left')

def oracle_table():
    """DESIGN appendix A.4.  key (state, events, mode) -> (next, result, emitted)"""
    t = {}
    nE = 'not{END}'
    for m in ('classic', 'sof'):
        t[('START', ('END',), m)] = ('NORMAL', 'continue', ())
        t[('START', (nE,), m)] = ('SEARCH_END', EILSEQ, ())
        t[('START', ('ERR',), m)] = ('same', 'error', ())
        t[('SEARCH_END', ('END',), m)] = ('NORMAL' if m == 'classic' else 'START', 'continue', ())
        t[('SEARCH_END', (nE,), m)] = ('same', 'continue', ())
        t[('SEARCH_END', ('ERR',), m)] = ('same', 'error', ())
        t[('NORMAL', ('END',), m)] = ('same' if m == 'classic' else 'START', 1, ())
        t[('NORMAL', ('not{END,ESC}',), m)] = ('same', 'continue', ('octet0',))
        t[('NORMAL', ('not{END,ESC}', 'SINKERR'), m)] = ('same', 'error', ('octet0',))
        t[('NORMAL', ('ESC', 'ESC_END'), m)] = ('same', 'continue', ('END',))
        t[('NORMAL', ('ESC', 'ESC_END', 'SINKERR'), m)] = ('same', 'error', ('END',))
        t[('NORMAL', ('ESC', 'ESC_ESC'), m)] = ('same', 'continue', ('ESC',))
        t[('NORMAL', ('ESC', 'ESC_ESC', 'SINKERR'), m)] = ('same', 'error', ('ESC',))
        t[('NORMAL', ('ESC', 'END'), m)] = ('NORMAL' if m == 'classic' else 'START', EILSEQ, ())
        t[('NORMAL', ('ESC', 'not{END,ESC_END,ESC_ESC}'), m)] = ('SEARCH_END', EILSEQ, ())
        t[('NORMAL', ('ERR',), m)] = ('same', 'error', ())
        t[('NORMAL', ('ESC', 'ERR'), m)] = ('same', 'error', ())
    return t


def find_row(oracle, state, ev, mode):
    k = (state, tuple(ev), mode)
    return k if k in oracle else None
