"""C08 Every emitted frame is spec-conformant and round-trips through the receiver.

a DOC-TABLES  b LAYOUT (K8)  c OPTIONS  d FRAMING-PAIRS  e ACCEPT-OWN-CODES
f SEQUENCE  g CRC-ARGS  h PAYLOAD-CLASS.  Round-trip equality itself is the
composition of b, d, C07.b, C12, C13 and is not separately decided."""
import os, re
from .. import cast, sym, lin, bitdom, front
from ..sym import C, fmt, linearize as L
from ..lin import Lin
from ..bitdom import BV, ZERO
from .regp import Regp, P, MF, FRAME, hdr, strip_cast, backend_calls, reply_calls, UNIT

DOC = 'doc/regp.txt'
MSEM_AUTO, MSEM_8BIT, MSEM_16BIT = 0, 1, 2
# doc/regp.txt section 3.1: which response codes carry a 32-bit payload
PAYLOAD32 = {'RP_RESP_ERXOVERFLOW', 'RP_RESP_ETXOVERFLOW', 'RP_RESP_EUNMAPPED', 'RP_RESP_EACCESS', 'RP_RESP_ERANGE', 'RP_RESP_EINVALID'}
NOPAYLOAD = {'RP_RESP_EWORDSIZE', 'RP_RESP_EPAYLOADCRC', 'RP_RESP_EPAYLOADSIZE', 'RP_RESP_EBUSY', 'RP_RESP_EIO'}


def doc_tables():
    """the |--mnemonic--+--code--| tables of doc/regp.txt -> list of dicts"""
    path = os.path.join(front.REPO, DOC)
    tables, cur = [], None
    for line in open(path, encoding='utf8'):
        m = re.match(r'\s*\|\s+([A-Za-z][A-Za-z0-9-]*)\s+\|\s+([01]{4})\s+\|', line)
        if m:
            if cur is None:
                cur = {}
                tables.append(cur)
            cur[m.group(1)] = int(m.group(2), 2)
        elif not line.strip().startswith('|'):
            cur = None
    return tables


def rule_a(ck, R):
    E = R.E
    try:
        tabs = doc_tables()
    except OSError as e:
        return ck.broken('C08.a', 'doc', DOC, str(e))
    def find(key):
        for t in tabs:
            if key in t:
                return t
        return None
    groups = [
        ('types', 'READ-REQUEST', lambda m: 'RP_FRAME_' + m.replace('-', '_'), 5),
        ('options', 'WORD-SIZE-16', lambda m: 'RP_OPT_' + m.replace('-', '_'), 3),
        ('responses', 'EWORDSIZE', lambda m: 'RP_RESP_' + ('ACK' if m == 'ACKNOWLEDGE' else m), 12),
        ('meta', 'EHEADERENC', lambda m: 'RP_META_' + m, 2),
    ]
    for gname, probe, mk, floor in groups:
        t = find(probe)
        if t is None:
            ck.broken('C08.a', 'doc:' + gname, DOC, 'table not found in the document')
            continue
        rows = {k: v for k, v in t.items() if k != 'Reserved'}
        ck.floor('C08.a', 'document rows of the %s table' % gname, len(rows), floor)
        for mn, code in sorted(rows.items(), key=lambda kv: kv[1]):
            name = mk(mn)
            val = E.get(name)
            ck.verdict(val == code, 'C08.a', 'doc:%s:%s' % (gname, mn), DOC,
                       '%s = %d as in the document' % (name, code) if val == code else
                       '%s is %s in the code, the document says %d' % (name, val, code))
        # no enumerator outside the document
        if gname in ('types', 'responses', 'meta'):
            en = {'types': 'RPFrameType', 'responses': 'RPResponse', 'meta': 'RPMetaMeta'}[gname]
            extra = [n for n, v in R.u.enum_decls.get(en, []) if v >= 0 and v not in rows.values()]
            ck.verdict(not extra, 'C08.a', 'doc:%s:complete' % gname, DOC, 'every %s enumerator is in the document' % en if not extra else 'enumerators not in the document: %s' % extra)
    ck.verdict(E.get('RP_IMPLEMENTATION_VERSION') == 0, 'C08.a', 'doc:version', DOC, 'implementation version 0')


def rule_bc(ck, R):
    E = R.E
    eng = R.engine(set())
    ps = R.paths('make_motv', 'C08.b', eng)
    if ps is None:
        return
    where = R.where('make_motv')
    W16, HD, PL = E['RP_OPT_WORD_SIZE_16'], E['RP_OPT_WITH_HEADER_CRC'], E['RP_OPT_WITH_PAYLOAD_CRC']
    SERIAL = E['RP_EP_SERIAL']
    M16 = E['RP_MEMTYPE_16']
    READREQ = E['RP_FRAME_READ_REQUEST']
    atoms = {('v', 'type'): ('type', 32, True), ('v', 'meta'): ('meta', 8, False)}
    badlay = None
    badopt = None
    for p in ps:
        try:
            bv = bitdom.term_bits(p.ret, atoms, 32).convert(16, False)
        except bitdom.Unsupported as e:
            ck.broken('C08.b', 'make_motv:layout', where, str(e))
            return
        t = BV.sym('type', 32)
        m = BV.sym('meta', 8)
        ver = [x for x in bv.bits[0:4]]
        if ver != list(BV.const(E['RP_IMPLEMENTATION_VERSION'], 4).bits):
            badlay = 'bits 3..0 are not the version'
        if list(bv.bits[4:8]) != list(t.bits[0:4]):
            badlay = 'bits 7..4 are not the frame type'
        if list(bv.bits[12:16]) != list(m.bits[0:4]):
            badlay = 'bits 15..12 are not the meta field'
        ob = bv.bits[8:12]
        if not all(bitdom.is_const(b) for b in ob):
            badlay = 'option bits depend on type/meta bits'
            continue
        opts = sum(b[0] << i for i, b in enumerate(ob))
        conds = p.cond_terms()
        def has(c):
            return c in conds
        msem = None
        for c in conds:
            if c[0] == 'cmp' and c[1] == '==' and c[2] == ('v', 'msem') and sym.is_c(c[3]):
                msem = c[3][1]
        serial = has(('cmp', '==', ('f', ('&', ('f', P, 'ep')), 'type'), C(SERIAL)))
        mem16 = has(('cmp', '==', ('f', ('&', ('f', P, 'memory')), 'type'), C(M16)))
        npos = has(('cmp', '<', C(0), ('v', 'n')))
        # the frame types this path is taken for: every enumerator of RPFrameType its conditions on `type` admit
        def admits(tv):
            for c in conds:
                if c[0] == 'cmp' and c[2] == ('v', 'type') and sym.is_c(c[3]):
                    k = c[3][1]
                    if not {'==': tv == k, '!=': tv != k, '<': tv < k, '<=': tv <= k}.get(c[1], True):
                        return False
            return True
        ftypes = [(nm, v) for nm, v in R.u.enum_decls.get('RPFrameType', []) if admits(v)] or [('?', None)]
        want16 = (msem == MSEM_16BIT) or (msem == MSEM_AUTO and mem16)
        for tn, tv in ftypes:
            notread = tv is None and has(('cmp', '!=', ('v', 'type'), C(READREQ))) or (tv is not None and tv != READREQ)
            want = (W16 if want16 else 0) | (HD if serial else 0) | (PL if (serial and npos and notread) else 0)
            if opts != want:
                badopt = badopt or ('under {%s}, for frame type %s, the option bits are %#x, the document prescribes %#x (WORD-SIZE-16 per semantic, WITH-HEADER-CRC iff serial, '
                                    'WITH-PAYLOAD-CRC iff serial and payload and not a read request)' % ('; '.join(fmt(c) for c in conds), tn, opts, want))
    ck.verdict(badlay is None, 'C08.b', 'make_motv:layout', where, 'version[3:0] type[7:4] options[11:8] meta[15:12] for all type/meta values' if badlay is None else badlay)
    ck.verdict(badopt is None, 'C08.c', 'make_motv:options', where, 'option bits follow transport, payload presence, frame type and word semantic on all %d paths' % len(ps) if badopt is None else badopt)
    # populate_header / parse_header positions
    pp = R.paths('populate_header', 'C08.b', eng)
    if pp is not None:
        want = [('bf_set_u16b', 0, 'make_motv'), ('bf_set_u16b', 1, 'seqno'), ('bf_set_u32b', 2, 'address'), ('bf_set_u32b', 4, 'n'), ('bf_set_u16b', 7, 'plcrc')]
        bad = None
        for p in pp:
            got = []
            for e in p.calls():
                if e.name.startswith('bf_set_'):
                    d = L(e.args[0]) - L(('v', 'buf'))
                    got.append((e.name, int(d.c) if d.is_const() else None, fmt(strip_cast(e.args[1]))))
            if len(got) != len(want):
                bad = 'header fields written: %s' % got
                continue
            for (fn, off, val), (wfn, woff, wval) in zip(got, want):
                if fn != wfn or off != woff or wval not in val:
                    bad = 'field %s written with %s at word %s (expected %s at word %d)' % (wval, fn, off, wfn, woff)
        ck.verdict(bad is None, 'C08.b', 'populate_header', R.where('populate_header'),
                   'motv, sequence, address, block size, payload CRC big-endian at words 0, 1, 2-3, 4-5, 7' if bad is None else bad)
    eng2 = R.engine({'raw_with_hdcrc', 'raw_with_plcrc'})
    ph = R.paths('parse_header', 'C08.b', eng2)
    if ph is not None:
        bad = None
        wantf = {'sequence': ('bf_ref_u16b', 1), 'address': ('bf_ref_u32b', 2), 'blocksize': ('bf_ref_u32b', 4)}
        for p in ph:
            if p.ret is not None and p.ret[0] == 'c' and p.ret[1] < 0:
                continue
            for e in p.stores():
                nm = fmt(e.name).split('.')[-1]
                v = strip_cast(e.args[0])
                if nm in wantf:
                    if v[0] != 'call' or v[1] != wantf[nm][0]:
                        bad = 'header.%s read with %s' % (nm, fmt(v)[:40])
                        continue
                    d = L(v[2][0]) - L(('v', 'buf'))
                    if not (d.is_const() and d.c == wantf[nm][1]):
                        bad = 'header.%s read from word %s, written at word %d' % (nm, d, wantf[nm][1])
                if nm == 'plcrc' and v[0] == 'call':
                    both = any(c[0] == 'cmp' and c[1] == '==' and sym.is_c(c[3]) and c[3][1] == E['RP_OPT_WITH_HEADER_CRC'] << 8 for c in p.cond_terms())
                    d = L(v[2][0]) - L(('v', 'buf'))
                    if both and not (d.is_const() and d.c == 7):
                        bad = 'payload CRC read from word %s when both checksums are present (written at word 7)' % d
        ck.verdict(bad is None, 'C08.b', 'parse_header:positions', R.where('parse_header'),
                   'the receiver reads sequence, address, block size, payload CRC from the positions and with the widths the emitter writes' if bad is None else bad)
    # encode_header length
    eng3 = R.engine({'raw_with_hdcrc', 'raw_with_plcrc'})
    pe = R.paths('encode_header', 'C08.c', eng3)
    if pe is not None:
        bad = None
        for p in pe:
            hd = True in [_motv(c, E['RP_OPT_WITH_HEADER_CRC']) for c in p.cond_terms()]
            pl = True in [_motv(c, E['RP_OPT_WITH_PAYLOAD_CRC']) for c in p.cond_terms()]
            want = 6 + int(hd) + int(pl)
            if p.ret != C(want):
                bad = 'header length %s words with hdcrc=%s plcrc=%s, expected %d' % (fmt(p.ret), hd, pl, want)
        ck.verdict(bad is None, 'C08.c', 'encode_header:length', R.where('encode_header'), 'header length = 6 + [header CRC] + [payload CRC] words' if bad is None else bad)


def _motv(c, bit):
    if c[0] != 'cmp' or c[1] not in ('==', '!='):
        return None
    a, b = c[2], c[3]
    if a[0] == '&b' and sym.is_c(a[2]) and a[2][1] == bit << 8 and b == a[2]:
        return c[1] == '=='
    return None


def rule_d(ck, R):
    E = R.E
    eng = R.engine({'early_ebusy', 'early_erxoverflow'})
    sm = R.paths('send_memory', 'C08.d', eng)
    rv = R.paths('regp_recv', 'C08.d', eng)
    if sm is None or rv is None:
        return
    ept = ('f', ('&', ('f', P, 'ep')), 'type')
    TCP = E['RP_EP_TCP']

    def framing(paths, tcpname, slipname):
        out = {}
        for p in paths:
            tcp = any(c == ('cmp', '==', ept, C(TCP)) for c in p.cond_terms())
            nm = None
            for e in p.calls():
                if e.name in (tcpname, slipname):
                    nm = e.name
            if nm:
                out.setdefault('tcp' if tcp else 'serial', set()).add(nm)
        return out
    fs = framing(sm, 'lenp_chunks_to_sink', 'rfc1055_encode')
    fr = framing(rv, 'lenp_decode_source_to_sink', 'rfc1055_decode')
    ok = fs == {'tcp': {'lenp_chunks_to_sink'}, 'serial': {'rfc1055_encode'}} and fr == {'tcp': {'lenp_decode_source_to_sink'}, 'serial': {'rfc1055_decode'}}
    ck.verdict(ok, 'C08.d', 'framing-pairs', R.where('send_memory'),
               'TCP: varint length prefix both ways; serial: SLIP both ways' if ok else 'send uses %s, receive uses %s' % (fs, fr))
    # one frame = one run of the framing encoder: it is called once, outside any loop, and its verdict is what send_memory
    # returns.  A run that failed has consumed payload octets from its source and may have put a delimiter; running the
    # encoder again over the same source (a "retry" around it) emits a frame that lacks the octet the sink refused, or a
    # second opening - the retry of a single octet is the business of the put calls underneath (C17), not of the framer
    bad1 = None
    nenc = 0
    for p in sm:
        encs = [e for e in p.calls() if e.name in ('lenp_chunks_to_sink', 'rfc1055_encode')]
        if not encs:
            continue
        nenc += 1
        if any(e.inloop for e in encs) or p.end == 'loopback':
            bad1 = bad1 or ('send_memory runs %s inside a loop (%s): a second run over the same source emits a frame without the octets the failed run had already '
                            'taken from it (or a second frame opening)' % (encs[0].name, encs[0].where()))
        elif len(encs) != 1:
            bad1 = bad1 or 'send_memory calls the framing encoder %d times for one frame' % len(encs)
    if nenc == 0:
        ck.broken('C08.d', 'one-run', R.where('send_memory'), 'no framing call found in send_memory')
    else:
        ck.verdict(bad1 is None, 'C08.d', 'one-run', R.where('send_memory'),
                   'each frame is one run of its framing encoder, outside any loop (%d paths)' % nenc if bad1 is None else bad1)
    # classic SLIP context on both sides, sink/source of the endpoint
    bad = None
    for paths, fn in ((sm, 'rfc1055_encode'), (rv, 'rfc1055_decode')):
        for p in paths:
            for e in p.calls(fn):
                ctxk = e.args[0][1] if e.args[0][0] == '&' else None
                if ctxk is None:
                    bad = 'SLIP context is not a local'
                    continue
                st = [x for x in p.effects if x.kind == 'store' and sym.rooted_at(x.name, ('&', ctxk))]
                flags = sym.mem_read(p.mem, ('f', ('&', ctxk), 'flags'))
                state = sym.mem_read(p.mem, ('f', ('&', ctxk), 'state'))
                # initialised from RFC1055_CONTEXT_INIT_DEFAULT: flags 0 (no start-of-frame), state NORMAL
                if not (flags == C(0) or fmt(flags).endswith('flags')):
                    bad = 'SLIP context flags %s (document: classic form without start-of-frame)' % fmt(flags)
    ck.verdict(bad is None, 'C08.d', 'slip-classic', R.where('send_memory'), 'both directions use the classic SLIP context (no start-of-frame octet)' if bad is None else bad)
    # lenp wrappers are the varint kind
    ul = cast.load('src/length-prefix.c')
    for w in ('lenp_chunks_to_sink', 'lenp_decode_source_to_sink'):
        f = ul.fn(w) or R.u.fn(w)
        uu = ul if ul.fn(w) else R.u
        ok = False
        if f is not None:
            for x in cast.walk(f):
                if cast.kind(x) == 'CallExpr':
                    a0 = x['inner'][1]
                    ok = uu.const_value(a0) == uu.enums.get('LENP_VARIABLE')
        ck.verdict(ok, 'C08.d', 'varint:' + w, 'include/ufw/length-prefix.h', '%s selects the varint prefix kind' % w if ok else '%s does not select LENP_VARIABLE' % w)


def rule_e(ck, R):
    eng = R.engine({'raw_with_hdcrc', 'raw_with_plcrc'})
    ps = R.paths('parse_header', 'C08.e', eng)
    if ps is None:
        return
    maxresp = max(v for n, v in R.u.enum_decls.get('RPResponse', []))
    types = dict(R.u.enum_decls.get('RPFrameType', []))
    ok = {types['RP_FRAME_READ_RESPONSE']: False, types['RP_FRAME_WRITE_RESPONSE']: False}
    for p in ps:
        if p.ret is not None and p.ret[0] == 'c' and p.ret[1] < 0:
            continue
        tv = None
        for c in p.cond_terms():
            if c[0] == 'cmp' and c[1] == '==' and sym.is_c(c[3]) and '>> 4' in fmt(c[2]):
                tv = c[3][1]
        if tv not in ok:
            continue
        mterms = [x for c in p.cond_terms() for x in sym.subterms(c) if x[0] == '>>' and x[2] == C(12)]
        if mterms and eng.feasible(p.cond_terms(), lin.eq(L(mterms[0]), Lin.const(maxresp))):
            ok[tv] = True
    good = all(ok.values())
    ck.verdict(good, 'C08.e', 'parse_header:own-codes', R.where('parse_header'),
               'responses carrying the largest defined code (%d) are accepted by the library\'s own receiver' % maxresp if good else
               'a response carrying code %d, which the library itself emits (regp_resp_eio), is rejected by its own receiver as bad header encoding' % maxresp)


def rule_fg(ck, R):
    E = R.E
    eng = R.engine(set())
    seq = ('f', ('&', ('f', P, 'session')), 'sequence')
    n = 0
    for fn, msem, ftype, crcfn in (('regp_req_read8', MSEM_8BIT, 'RP_FRAME_READ_REQUEST', None),
                                   ('regp_req_read16', MSEM_16BIT, 'RP_FRAME_READ_REQUEST', None),
                                   ('regp_req_write8', MSEM_8BIT, 'RP_FRAME_WRITE_REQUEST', 'ufw_buffer_crc16_arc'),
                                   ('regp_req_write16', MSEM_16BIT, 'RP_FRAME_WRITE_REQUEST', 'ufw_buffer_crc16_arc_u16')):
        if R.u.fn(fn) is None:
            continue
        ps = R.paths(fn, 'C08.f', eng)
        if ps is None:
            continue
        n += 1
        bad = None
        for p in ps:
            eh = p.calls('encode_header')
            smc = p.calls('send_memory')
            if len(eh) != 1 or len(smc) != 1:
                bad = 'expected one encode_header and one send_memory'
                continue
            a = eh[0].args
            if a[2] != C(msem) or a[3] != C(E[ftype]) or a[4] != C(0):
                bad = 'header built with semantic %s type %s meta %s' % (fmt(a[2]), fmt(a[3]), fmt(a[4]))
            if strip_cast(a[5]) != seq:
                bad = 'sequence number passed is %s, expected the session counter' % fmt(a[5])
            if a[6] != ('v', 'address') or strip_cast(a[7]) != ('v', 'n'):
                bad = 'address/size passed are %s/%s' % (fmt(a[6]), fmt(a[7]))
            bad = bad or emitted_header(eh[0], smc[0])
            sts = [e for e in p.stores() if e.name == seq]
            if len(sts) != 1:
                bad = 'sequence counter stored %d times per request (expected exactly one increment)' % len(sts)
            else:
                nv = strip_cast(sts[0].args[0])
                # the field holds 16 bits: reductions modulo 2^16 of the stored value are the identity on what is kept
                while (nv[0] == '%' and nv[2] == C(65536)) or (nv[0] == '&b' and nv[2] == C(0xffff)):
                    nv = strip_cast(nv[1])
                d = L(nv) - L(seq)
                if not (d.is_const() and d.c == 1):
                    bad = 'session sequence counter changes by %s per request (expected +1)' % d
            if strip_cast(p.ret) != smc[0].result:
                bad = 'send result not returned'
            # g: crc over what is sent
            if crcfn:
                cc = p.calls(crcfn)
                if len(cc) != 1:
                    bad = 'payload checksum not computed with %s' % crcfn
                else:
                    if cc[0].args[0] != ('v', 'buf') or cc[0].args[1] != ('v', 'n'):
                        bad = 'payload checksum over (%s, %s), expected (buf, n)' % (fmt(cc[0].args[0]), fmt(cc[0].args[1]))
                    if strip_cast(a[8]) != cc[0].result:
                        bad = 'header payload CRC is %s, not the computed checksum' % fmt(a[8])
                    ws = 2 if crcfn.endswith('_u16') else 1
                    if strip_cast(smc[0].args[3]) != ('v', 'buf') or L(smc[0].args[4]) != L(('v', 'n')).scale(ws):
                        bad = 'payload sent is (%s, %s), checksummed (buf, n x %d octets)' % (fmt(smc[0].args[3]), fmt(smc[0].args[4]), ws)
            else:
                if smc[0].args[3] != C(0) or a[8] != C(0):
                    bad = 'read request carries payload / payload CRC'
        ck.verdict(bad is None, 'C08.f', fn, R.where(fn),
                   'uses the session counter and increments it exactly once; payload checksum over exactly the octets sent' if bad is None else bad)
    ck.floor('C08.f', 'request emitters', n, 4)
    # uint16 counter (wrap by type)
    rec = R.u.records.get('RPSession')
    t = None
    if rec:
        for f_ in cast.inner(rec):
            if f_.get('name') == 'sequence':
                t = cast.qual_type(f_)
    ck.verdict(t == 'unsigned short', 'C08.f', 'sequence:type', 'include/ufw/register-protocol.h', 'sequence counter is a 16-bit unsigned field (wraps modulo 2^16)' if t == 'unsigned short' else 'sequence counter type is %s' % t)
    # acknowledgements: crc over (pl, n) with the variant of the memory type, same pointer sent
    # (the document, 3.1: a response mirrors the request's header - so the word size of an acknowledgement is the
    # request's, and n counts words of that size; the instance's memory width is the same thing only where regp_process
    # has checked it, not for a handler that answers through the public function)
    enga = R.engine({'regp_is_16bitsem'})
    ps = R.paths('regp_resp_ack', 'C08.g', enga)
    if ps is not None:
        bad = None
        W16 = E['RP_OPT_WORD_SIZE_16']
        for p in ps:
            eh = p.calls('encode_header')
            smc = p.calls('send_memory')
            if not eh:
                continue
            a = eh[0].args
            req16 = [c[1] == '==' for c in p.cond_terms() if c[0] == 'cmp' and c[1] in ('==', '!=') and c[2][0] == '&b' and c[2][2] == C(W16)
                     and c[3] == C(W16) and 'header.options' in fmt(c[2][1])]
            if not req16:
                bad = bad or ('the acknowledgement\'s word size is %s without the request\'s WORD-SIZE-16 bit having been looked at: a handler answering an 8-bit request on an '
                              'instance with 16-bit memory sends WORD-SIZE-16, counts n in 16-bit words and reads 2n octets from the caller\'s n' % (
                                  'taken from the instance (MSEM_AUTO)' if a[2] == C(MSEM_AUTO) else fmt(a[2])))
            elif a[2] != C(MSEM_16BIT if req16[0] else MSEM_8BIT):
                bad = bad or 'acknowledgement of a %s request encoded with semantic %s' % ('16-bit' if req16[0] else '8-bit', fmt(a[2]))
            if 'header.sequence' not in fmt(a[5]) or 'header.address' not in fmt(a[6]):
                bad = 'acknowledgement does not echo the request\'s sequence number and address'
            if strip_cast(a[7]) != ('v', 'n'):
                bad = 'block size of the acknowledgement is %s' % fmt(a[7])
            m16 = bool(req16 and req16[0]) if req16 else any(c == ('cmp', '==', ('f', ('&', ('f', P, 'memory')), 'type'), C(E['RP_MEMTYPE_16'])) for c in p.cond_terms())
            cc = [e for e in p.calls() if 'crc16' in e.name]
            for c_ in cc:
                if c_.name.endswith('_u16') != m16:
                    bad = 'checksum variant %s for %s memory' % (c_.name, '16-bit' if m16 else '8-bit')
                if c_.args[0] != ('v', 'pl') or c_.args[1] != ('v', 'n'):
                    bad = 'checksum over (%s, %s)' % (fmt(c_.args[0]), fmt(c_.args[1]))
            haspl = any(c == ('cmp', '!=', ('v', 'pl'), C(0)) for c in p.cond_terms())
            nopl = any(c == ('cmp', '==', ('v', 'pl'), C(0)) for c in p.cond_terms())
            if haspl and (len(cc) != 1 or strip_cast(a[8]) != cc[0].result):
                bad = bad or ('with a payload the checksum announced in the header is %s, not one computed over the payload '
                              '(%d checksum calls on the path)' % (fmt(a[8]), len(cc)))
            if nopl and (cc or strip_cast(a[8]) != C(0)):
                bad = bad or 'without payload the payload checksum argument is %s' % fmt(a[8])
            if not haspl and not nopl:
                bad = bad or 'the acknowledgement does not distinguish payload from no payload'
            if smc:
                ws = 2 if m16 else 1
                if strip_cast(smc[0].args[3]) != ('v', 'pl') or L(smc[0].args[4]) != L(('v', 'n')).scale(ws):
                    bad = 'payload sent is (%s, %s)' % (fmt(smc[0].args[3]), fmt(smc[0].args[4]))
                bad = bad or emitted_header(eh[0], smc[0])
        ck.verdict(bad is None, 'C08.g', 'regp_resp_ack', R.where('regp_resp_ack'),
                   'acknowledgement echoes sequence/address and the request\'s word size, checksums exactly the payload it sends with the variant of that word size' if bad is None else bad)


def emitted_header(eh, smc):
    """send_memory must be handed the buffer encode_header filled and 2 * (its word count) octets"""
    if strip_cast(smc.args[1]) != strip_cast(eh.args[0]):
        return 'send_memory sends %s, the header was built in %s' % (fmt(smc.args[1]), fmt(eh.args[0]))
    hs = strip_cast(smc.args[2])
    if hs not in (('*', C(2), eh.result), ('*', eh.result, C(2))):
        d = L(hs) - L(eh.result).scale(2)
        if not (d.is_const() and d.c == 0):
            return 'header length handed to send_memory is %s, expected 2 * the word count encode_header returned' % fmt(smc.args[2])
    return None


def rule_h(ck, R):
    """payload class of every response emission site (doc 3.1)"""
    E = R.E
    names = {v: n for n, v in R.u.enum_decls.get('RPResponse', [])}
    eng = R.engine({'early_ebusy', 'early_erxoverflow', 'send_early_response', 'trxbufsize'} | {
        'regp_resp_ewordsize', 'regp_resp_epayloadcrc', 'regp_resp_epayloadsize', 'regp_resp_erxoverflow', 'regp_resp_etxoverflow',
        'regp_resp_ebusy', 'regp_resp_eunmapped', 'regp_resp_eaccess', 'regp_resp_erange', 'regp_resp_einvalid', 'regp_resp_eio'})
    sites = {}
    for fn in ('regp_recv', 'regp_process'):
        ps = R.paths(fn, 'C08.h', eng)
        if ps is None:
            continue
        for p in ps:
            for e in p.calls():
                codev = e.args[2] if e.name in ('send_resp_0', 'send_resp_32') else None
                if codev is not None and not sym.is_c(codev):
                    for c in p.cond_terms():          # a code passed as a variable that the path has pinned to one enumerator
                        if c[0] == 'cmp' and c[1] == '==' and strip_cast(c[2]) == strip_cast(codev) and sym.is_c(c[3]):
                            codev = c[3]
                if e.name in ('send_resp_0', 'send_resp_32') and sym.is_c(codev):
                    nm = names.get(codev[1], '?')
                    key = '%s:%s@%s' % (fn, nm, cast.node_line(e.node))
                    want32 = nm in PAYLOAD32
                    ok = (e.name == 'send_resp_32') == want32
                    msem = e.args[-1]
                    if msem != C(MSEM_8BIT):
                        ok = False
                    sites[key] = (ok, e, nm, want32)
    for key, (ok, e, nm, want32) in sorted(sites.items()):
        ck.verdict(ok, 'C08.h', key, e.where(),
                   '%s emitted %s, octet semantics' % (nm, 'with its 32-bit payload' if want32 else 'without payload') if ok else
                   '%s is emitted through %s with semantic %s; the document (3.1) prescribes %s in octet semantics' % (
                       nm, e.name, fmt(e.args[-1]), 'a 32-bit payload' if want32 else 'no payload'))
    ck.floor('C08.h', 'response emission sites', len(sites), 12)
    # the public wrappers
    eng2 = R.engine(set())
    for nm in sorted(PAYLOAD32 | NOPAYLOAD):
        fn = 'regp_resp_' + nm.replace('RP_RESP_', '').lower()
        ps = R.paths(fn, 'C08.h', eng2)
        if ps is None:
            continue
        ok = True
        for p in ps:
            cs = [e for e in p.calls() if e.name in ('send_resp_0', 'send_resp_32')]
            if len(cs) != 1 or cs[0].args[2] != C(E[nm]) or (cs[0].name == 'send_resp_32') != (nm in PAYLOAD32) or cs[0].args[-1] != C(MSEM_8BIT):
                ok = False
            if ok and cs[0].name == 'send_resp_32' and cs[0].args[3] != ('v', ps and R.u.params(fn)[2]['name']):
                ok = False
        ck.verdict(ok, 'C08.h', fn, R.where(fn), '%s: code, payload class and octet semantics as in the document' % fn if ok else '%s does not emit %s with the prescribed payload class' % (fn, nm))
    # send_resp_32: payload big-endian, block size 4 octets, payload CRC over the 4 octets
    ps = R.paths('send_resp_32', 'C08.h', R.engine({'msem_size', 'req2resp'}))
    if ps is not None:
        bad = None
        for p in ps:
            eh = p.calls('encode_header')
            smc = p.calls('send_memory')
            sets = p.calls('bf_set_u32b')
            if not eh or not smc:
                bad = 'no header/send'
                continue
            if not sets or any(s_.args[1] != ('v', 'pl') for s_ in sets):
                bad = 'payload value not serialised big-endian with bf_set_u32b'
            msem8 = any(c == ('cmp', '==', ('v', 'msem'), C(MSEM_8BIT)) for c in p.cond_terms())
            if msem8 and strip_cast(eh[0].args[7]) != C(4):
                bad = 'block size of a 32-bit payload in octet semantics is %s' % fmt(eh[0].args[7])
            if smc[0].args[4] != C(4):
                bad = 'payload of %s octets sent' % fmt(smc[0].args[4])
            if 'header.sequence' not in fmt(eh[0].args[5]) or 'header.address' not in fmt(eh[0].args[6]):
                bad = 'does not echo sequence/address'
            bad = bad or emitted_header(eh[0], smc[0])
            # the checksum announced in the header is computed over a separate image of the payload: both images must be
            # the same big-endian serialisation of pl, and the checksum must cover exactly the four payload octets
            crcs = [e for e in p.calls() if 'crc16' in e.name]
            if len(crcs) != 1 or not crcs[0].name.endswith('_u16') or crcs[0].args[1] != C(2):
                bad = bad or 'payload checksum is not taken over exactly two 16-bit words (%s)' % [(e.name, fmt(e.args[1])) for e in crcs]
            elif strip_cast(eh[0].args[8]) != crcs[0].result:
                bad = bad or 'the checksum passed to encode_header is %s, not the one just computed' % fmt(eh[0].args[8])
            else:
                dests = [strip_cast(s_.args[0]) for s_ in sets]
                before = [strip_cast(s_.args[0]) for s_ in sets if p.effects.index(s_) < p.effects.index(crcs[0])]
                if strip_cast(crcs[0].args[0]) not in before:
                    bad = bad or 'the image the payload checksum is computed over (%s) has not been filled from pl before' % fmt(crcs[0].args[0])
                sent_before = [strip_cast(s_.args[0]) for s_ in sets if p.effects.index(s_) < p.effects.index(smc[0])]
                if strip_cast(smc[0].args[3]) not in sent_before:
                    bad = bad or 'the payload handed to send_memory (%s) has not been filled from pl' % fmt(smc[0].args[3])
        ck.verdict(bad is None, 'C08.h', 'send_resp_32', R.where('send_resp_32'), 'four-octet big-endian payload, block size 4 in octet semantics, sequence/address echoed' if bad is None else bad)
    ps = R.paths('send_resp_0', 'C08.h', R.engine({'req2resp'}))
    if ps is not None:
        bad = None
        for p in ps:
            eh = p.calls('encode_header')
            smc = p.calls('send_memory')
            if not eh or not smc:
                bad = 'no header/send'
                continue
            if eh[0].args[7] != C(0) or smc[0].args[3] != C(0):
                bad = 'payload-free response carries block size %s / payload %s' % (fmt(eh[0].args[7]), fmt(smc[0].args[3]))
            if 'header.sequence' not in fmt(eh[0].args[5]) or 'header.address' not in fmt(eh[0].args[6]):
                bad = 'does not echo sequence/address'
            if eh[0].args[4] != ('v', 'code'):
                bad = 'meta field is %s, not the response code' % fmt(eh[0].args[4])
            bad = bad or emitted_header(eh[0], smc[0])
        ck.verdict(bad is None, 'C08.h', 'send_resp_0', R.where('send_resp_0'), 'no payload, block size 0, code in the meta field, sequence/address echoed' if bad is None else bad)
    # send_early_response: the request header is parsed from the fallback buffer; a response echoing it may only be
    # built when that parse succeeded, header faults are answered with the matching META frame
    engE = R.engine({'regp_is_read_request', 'regp_is_write_request', 'regp_is_request', 'regp_has_hdcrc'})
    ps = R.paths('send_early_response', 'C08.h', engE)
    if ps is not None:
        bad = None
        kinds = set()
        for p in ps:
            ph = p.calls('parse_header')
            if len(ph) != 1:
                bad = bad or 'expected one parse_header'
                continue
            r = ph[0].result
            rs = [e for e in p.calls() if e.name in ('send_resp_0', 'send_resp_32')]
            mt = p.calls('regp_resp_meta')
            if any(c[0] == 'cmp' and c[1] == '==' and c[2][0] == '&' and c[3] == C(0) for c in p.cond_terms()):
                continue                # the address of an object is never null: no such execution
            tconds = [c for c in p.cond_terms() if c[0] == 'cmp' and 'header.type' in fmt(c[2]) and sym.is_c(c[3])]
            is_req = any(c[1] == '==' and c[3][1] in (E['RP_FRAME_READ_REQUEST'], E['RP_FRAME_WRITE_REQUEST']) for c in tconds)
            not_req = {c[3][1] for c in tconds if c[1] == '!='} >= {E['RP_FRAME_READ_REQUEST'], E['RP_FRAME_WRITE_REQUEST']}
            if rs and not is_req:
                bad = bad or ('%s answers the parsed frame under {%s} without having established that it is a request: a response or meta message that '
                              'meets an early fault (no buffer, frame too large) is answered - the document forbids that ("shall not be met with another '
                              'response"), and req2resp turns the reply into a META frame with a response code no receiver accepts'
                              % (rs[0].name, '; '.join(fmt(c) for c in p.cond_terms())[:200]))
            if rs:
                istcp = any(c[0] == 'cmp' and c[1] == '==' and 'ep.type' in fmt(c[2]) and c[3] == C(E['RP_EP_TCP']) for c in p.cond_terms())
                hdseen = any(c[0] == 'cmp' and c[1] == '==' and c[2][0] == '&b' and c[2][2] == C(E['RP_OPT_WITH_HEADER_CRC']) and c[3] == C(E['RP_OPT_WITH_HEADER_CRC'])
                             for c in p.cond_terms())
                if not istcp and not hdseen:
                    bad = bad or ('%s mirrors sequence number and address of a header received on a serial channel without the WITH-HEADER-CRC bit having been seen set: '
                                  'such a header is not protected (document 5.1 mandates the checksum), the ordinary path answers it with META EHEADERENC' % rs[0].name)
            if rs:
                kinds.add(rs[0].name)
                if engE.feasible(p.cond_terms() + [('cmp', '<', r, C(0))]):
                    bad = bad or ('%s echoes the frame on a path where parse_header may have failed ({%s}): sequence number and address of the response come from an unparsed frame object'
                                  % (rs[0].name, '; '.join(fmt(c) for c in p.cond_terms() if sym.contains(c, r))))
                if rs[0].args[1] != ph[0].args[0] or rs[0].args[2] != ('v', 'code') or rs[0].args[-1] != C(MSEM_8BIT):
                    bad = bad or 'response built with (%s)' % ', '.join(fmt(a) for a in rs[0].args)
                is_rx = any(c == ('cmp', '==', ('v', 'code'), C(E['RP_RESP_ERXOVERFLOW'])) for c in p.cond_terms())
                if is_rx != (rs[0].name == 'send_resp_32'):
                    bad = bad or 'payload class of the early response does not follow the code'
                if rs[0].name == 'send_resp_32' and not (strip_cast(rs[0].args[3])[0] == 'call' and strip_cast(rs[0].args[3])[1] == 'trxbufsize'):
                    bad = bad or 'ERXOVERFLOW payload is %s, expected trxbufsize(p)' % fmt(rs[0].args[3])
            elif mt and not engE.feasible(p.cond_terms() + [('cmp', '<', r, C(0))]):
                # the header parsed: a META reply is right only for a header the channel cannot have delivered intact
                # (a non-TCP channel and no header checksum declared)
                notcp = not any(c[0] == 'cmp' and c[1] == '==' and 'ep.type' in fmt(c[2]) and c[3] == C(E['RP_EP_TCP']) for c in p.cond_terms())
                nohd = any(c[0] == 'cmp' and c[1] == '!=' and c[2][0] == '&b' and c[2][2] == C(E['RP_OPT_WITH_HEADER_CRC']) and c[3] == C(E['RP_OPT_WITH_HEADER_CRC'])
                           for c in p.cond_terms())
                if not (notcp and nohd and mt[0].args[1] == C(E['RP_META_EHEADERENC'])):
                    bad = bad or 'META code %s sent under {%s} although the header parsed' % (fmt(mt[0].args[1]), '; '.join(fmt(c) for c in p.cond_terms())[:160])
            elif mt:
                kinds.add('meta')
                want = None
                for c in p.cond_terms():
                    if c[0] == 'cmp' and c[1] == '==' and strip_cast(c[2]) == r and sym.is_c(c[3]):
                        want = {-74: E['RP_META_EHEADERENC'], -84: E['RP_META_EHEADERCRC']}.get(c[3][1])
                if want is None or mt[0].args[1] != C(want):
                    bad = bad or 'META code %s sent under {%s}' % (fmt(mt[0].args[1]), '; '.join(fmt(c) for c in p.cond_terms() if sym.contains(c, r)))
            elif not_req and not engE.feasible(p.cond_terms() + [('cmp', '<', r, C(0))]):
                if p.ret != C(0):
                    bad = bad or 'a frame that is no request is left unanswered but the result is %s, expected 0' % fmt(p.ret)
            elif strip_cast(p.ret) != r:
                bad = bad or 'a path sends nothing and does not return the parse result'
        if kinds != {'send_resp_0', 'send_resp_32', 'meta'}:
            bad = bad or 'reply kinds found: %s' % sorted(kinds)
        ck.verdict(bad is None, 'C08.h', 'send_early_response', R.where('send_early_response'),
                   'responses echo the parsed header only after parse_header succeeded; ERXOVERFLOW carries trxbufsize; header faults get the matching META frame' if bad is None else bad)
    # req2resp
    ps = R.paths('req2resp', 'C08.h', R.engine(set()))
    if ps is not None:
        got = {}
        for p in ps:
            for c in p.cond_terms():
                if c[0] == 'cmp' and c[1] == '==' and c[2] == ('v', 'type') and sym.is_c(c[3]) and p.ret is not None and p.ret[0] == 'c':
                    got[c[3][1]] = p.ret[1]
        want = {E['RP_FRAME_READ_REQUEST']: E['RP_FRAME_READ_RESPONSE'], E['RP_FRAME_WRITE_REQUEST']: E['RP_FRAME_WRITE_RESPONSE']}
        ck.verdict(got == want, 'C08.h', 'req2resp', R.where('req2resp'), 'READ->READ-RESPONSE, WRITE->WRITE-RESPONSE' if got == want else 'request->response map is %s' % got)
    ps = R.paths('regp_resp_meta', 'C08.h', R.engine(set()))
    if ps is not None:
        ok = True
        for p in ps:
            eh = p.calls('encode_header')
            if not eh or eh[0].args[3] != C(E['RP_FRAME_META']) or eh[0].args[4] != ('v', 'meta') or eh[0].args[7] != C(0):
                ok = False
            smc = p.calls('send_memory')
            if eh and (len(smc) != 1 or emitted_header(eh[0], smc[0])):
                ok = False
        ck.verdict(ok, 'C08.h', 'regp_resp_meta', R.where('regp_resp_meta'), 'META frame with the code in the meta field and no payload' if ok else 'META emitter malformed')


def run(ck):
    ck.rule('C08.j', 'the receive sink (continuable sink) stores min(n, free space), reports an overflow exactly when octets were dropped, and always consumes what it is given (C09.a re-evaluated)')
    ck.rule('C08.i', 'own frames are received as they were sent for every history on the channel: regp_recv does not override the SLIP decoder\'s state after an invalid escape sequence (the decoder knows whether the offending octet ended the frame), so no intact frame behind a damaged one is skipped (C06.f re-evaluated)')
    ck.rule('C08.a', 'the code tables of doc/regp.txt (types, option bits, response codes, meta codes, version) equal the enumerators/macros')
    ck.rule('C08.b', 'layout: exact bit summary of make_motv = version[3:0] type[7:4] options[11:8] meta[15:12]; header fields written and read big-endian at words 0,1,2-3,4-5,6,7 (C15 codecs)')
    ck.rule('C08.c', 'options: WORD-SIZE-16 per semantic, WITH-HEADER-CRC iff serial, WITH-PAYLOAD-CRC iff serial and payload and not a read request; header length 6+[hdcrc]+[plcrc]')
    ck.rule('C08.d', 'framing pairs per transport: varint length prefix (TCP) / classic SLIP (serial) on both directions; the SLIP encoder\'s escape table and delimiters (C12.a/b re-evaluated)')
    ck.rule('C08.e', 'the receiver accepts every response code the library emits, and its payload plausibility table (C07.b re-evaluated) admits every payload class the emitters produce')
    ck.rule('C08.f', 'each request emitter uses the session sequence counter and increments it exactly once; 16-bit field')
    ck.rule('C08.g', 'payload checksums are computed over exactly the pointer/length handed to the transport, with the variant matching the word semantic')
    ck.rule('C08.h', 'payload class per response code as prescribed by the document, octet semantics for errors, 32-bit payload big-endian with block size 4, request header echoed')
    ck.not_decided += ['round-trip equality as a whole (composition of C08.b/d with C07.b, C12, C13)', 'octets produced by user payloads']
    R = Regp(ck)
    rule_a(ck, R)
    rule_bc(ck, R)
    rule_d(ck, R)
    rule_e(ck, R)
    rule_fg(ck, R)
    rule_h(ck, R)
    from . import c06 as _c06
    _c06.rule_decoder_state(ck, R, rule='C08.i')
    # ... and on a length-prefixed channel the out-of-step mark means "a frame was dropped in mid-stream" and nothing else:
    # an own frame behind an EBUSY / overflow / empty-frame call is received
    _c06.rule_tcp_desync(ck, R, rule='C08.i')
    # own frames pass the own receiver: the payload plausibility table of the receiver (C07.b) admits every payload
    # class the emitters produce (write error responses with their 32-bit payload included)
    from . import c07
    keep0 = (ck.rule, ck.verdict, ck.violation, ck.broken, ck.floor, ck.holds)
    ck.rule = lambda *a, **k: None
    ck.floor = lambda *a, **k: True
    only = lambda key: key in ('payload_plausible', 'payload_plausible:octets:reject')
    ck.verdict = lambda ok, rule, key, where='', detail='', **kw: (keep0[5] if ok else keep0[2])('C08.e', 'receiver:' + key, where, detail, **kw) if only(key) else None
    ck.violation = lambda rule, key, where='', detail='', **kw: keep0[2]('C08.e', 'receiver:' + key, where, detail, **kw) if only(key) else None
    ck.broken = lambda rule, key, where='', detail='', **kw: keep0[3]('C08.e', 'receiver:' + key, where, detail, **kw) if only(key) else None
    ck.holds = lambda rule, key, where='', detail='', **kw: keep0[5]('C08.e', 'receiver:' + key, where, detail, **kw) if only(key) else None
    try:
        c07.rule_b(ck, R)
    finally:
        ck.rule, ck.verdict, ck.violation, ck.broken, ck.floor, ck.holds = keep0
    engw = R.engine({'raw_with_hdcrc', 'raw_with_plcrc'})
    psw = R.paths('parse_header', 'C08.b', engw)
    if psw is not None:
        ns = engw.narrowing_stores(psw)
        ck.verdict(not ns, 'C08.b', 'parse_header:field-widths', R.where('parse_header'),
                   'the receiver keeps every header field at its wire width (round trip of the 16/32-bit fields)' if not ns else
                   '%s <- %s: %s' % (fmt(ns[0][0].name), ns[0][1], ns[0][2]))
    # serial frames leave through rfc1055_encode: its escape table and delimiters (decided as C12.a/b) are an obligation
    # of "every emitted frame is well-formed on the wire" too; they are re-evaluated here under C08.d
    from . import c12
    keep = (ck.rule, ck.verdict, ck.violation, ck.broken, ck.floor, ck.holds)
    nd = list(ck.not_decided)
    enc_key = lambda key: key.startswith('encode:') or key.startswith('rfc1055_encode')
    ck.rule = lambda *a, **k: None
    ck.floor = lambda *a, **k: True
    ck.verdict = lambda ok, rule, key, where='', detail='', **kw: (keep[5] if ok else keep[2])('C08.d', 'slip:' + key, where, detail, **kw) if enc_key(key) else None
    ck.violation = lambda rule, key, where='', detail='', **kw: keep[2]('C08.d', 'slip:' + key, where, detail, **kw) if enc_key(key) else None
    ck.broken = lambda rule, key, where='', detail='', **kw: keep[3]('C08.d', 'slip:' + key, where, detail, **kw) if enc_key(key) else None
    ck.holds = lambda rule, key, where='', detail='', **kw: keep[5]('C08.d', 'slip:' + key, where, detail, **kw) if enc_key(key) else None
    try:
        c12.run(ck)
    finally:
        ck.rule, ck.verdict, ck.violation, ck.broken, ck.floor, ck.holds = keep
        ck.not_decided[:] = nd
    from .common import reevaluate
    reevaluate(ck, 'C08.j', 'c09', lambda r, k: r == 'C09.a',
               'an own frame that fits the receive block exactly is stored completely and not reported as an overflow')
    ck.rule('C08.k', 'what the emitters hand to the transport reaches the wire: frames leave through sink_put_chunk (escape pairs, prefix, header, payload chunks), which offers every octet until it is taken, each once and in order, whatever count the driver answers (C17.a-d re-evaluated)')
    reevaluate(ck, 'C08.k', 'c17', lambda r, k: r in ('C17.a', 'C17.b', 'C17.c', 'C17.d') and k.startswith(('sink_put_chunk', 'sink_adapt')),
               'emitted frames are written with the exact put call: a short transfer continues behind the octets already taken')
