"""C18 Byte buffers keep offset <= used <= size and behave as a FIFO of octets.

Decided: per-function inductive step (invariant preservation, memory bounds,
window bookkeeping) for every path of every byte_buffer_* function.  Not
decided: FIFO order over whole histories (it is the induction over C18.d)."""
from .. import cast, sym, lin
from ..sym import C, fmt, linearize
from ..lin import Lin

UNIT = 'src/byte-buffer.c'
MEMFUNCS = {'memcpy': (0, 1, 2), 'memmove': (0, 1, 2), 'memset': (0, None, 2)}
B = ('v', 'b')


def F(name):
    return ('f', B, name)


def L(t):
    return linearize(t)


def invariant():
    """0 <= offset <= used <= size at entry"""
    return [lin.le(L(F('offset')), L(F('used'))), lin.le(L(F('used')), L(F('size')))]


def ret_negative(p):
    return p.ret is not None and p.ret[0] == 'c' and p.ret[1] < 0


def final(p, field):
    return p.mem.get(F(field), F(field))


def run(ck):
    ck.rule('C18.a', 'byte_buffer_set refuses exactly NULL data, size 0, used > size, offset > used and stores the four fields otherwise')
    ck.rule('C18.b', 'every memcpy/memmove/memset region on b->data lies inside [data, data+size) given the entry invariant and path guards (linear entailment)')
    ck.rule('C18.c', 'every path of every mutator re-establishes offset <= used <= size; refusing paths (negative result) store nothing and touch no memory')
    ck.rule('C18.d', 'window bookkeeping per operation: add appends at data+used and advances used; consume reads at data+offset and advances offset (at-most: by min(n, unread)); rewind relocates [offset,used) to the front with offset=0, used=used-offset; clear/reset/repeat per statement; refusal conditions exact')
    ck.rule('C18.e', 'capacity guards cannot be defeated by unsigned wrap-around of caller-controlled lengths')
    ck.not_decided += ['FIFO order over arbitrary operation histories (follows by induction from C18.c/d, not separately explored)',
                       'contents of the octets moved by memcpy/memmove (library functions trusted)']
    ck.assumptions += ['entry invariant offset <= used <= size (established by byte_buffer_set, C18.a, preserved by C18.c)',
                       'unsigned arithmetic is modelled over the integers; wrap-around is covered only by rule C18.e']
    u = cast.load(UNIT)
    ck.unit(UNIT)
    # static initialisers: the buffers most of the library is handed are never passed through byte_buffer_set; the macros
    # must establish the same state (full buffer: used = size; empty buffer: used = 0; offset 0; explicit form as given)
    try:
        pu = cast.load(UNIT, source_text='#include <ufw/byte-buffer.h>\nstatic unsigned char vp_m[7];\nstatic ByteBuffer vp_arr[3];\n'
                                         'ByteBuffer vp_full = BYTE_BUFFER(vp_m, 7u);\nByteBuffer vp_empty = BYTE_BUFFER_EMPTY(vp_m, 7u);\n'
                                         'ByteBuffer vp_init = BYTE_BUFFER_INIT(vp_m, 7u, 5u, 2u);\nByteChunks vp_chunks = BYTE_CHUNKS(vp_arr);\n')
        want = {'vp_full': ('BYTE_BUFFER', {'data': ('ref', 'vp_m'), 'size': 7, 'used': 7, 'offset': 0}),
                'vp_empty': ('BYTE_BUFFER_EMPTY', {'data': ('ref', 'vp_m'), 'size': 7, 'used': 0, 'offset': 0}),
                'vp_init': ('BYTE_BUFFER_INIT', {'data': ('ref', 'vp_m'), 'size': 7, 'used': 5, 'offset': 2}),
                'vp_chunks': ('BYTE_CHUNKS', {'chunks': 3, 'active': 0, 'chunk': ('ref', 'vp_arr')})}
        for var, (macro, w) in sorted(want.items()):
            f = cast.init_fields(pu, var)
            # (the element count of BYTE_CHUNKS is a sizeof quotient the AST walker does not fold: presence is all that is checked)
            ok = f is not None and all(f.get(k) == v or (k == 'chunks' and k in f and f[k] is None) for k, v in w.items())
            ck.verdict(ok, 'C18.a', 'macro:' + macro, 'include/ufw/byte-buffer.h',
                       '%s(...) yields %s' % (macro, ', '.join('%s=%s' % (k, v if not isinstance(v, tuple) else v[1]) for k, v in w.items())) if ok else
                       '%s(mem[7]%s) yields %s, expected %s' % (macro, ', 7' if macro != 'BYTE_CHUNKS' else '', f, w))
    except Exception as e:
        ck.broken('C18.a', 'macros', 'include/ufw/byte-buffer.h', 'probe failed: %s' % str(e)[:200])
    # the operations are analysed one by one; where one is written in terms of another small one of this unit (avail, rest,
    # reset, repeat, ... - no calls, no loops of their own), that one is looked into
    small = set()
    for nm in u.functions_in_file('byte-buffer.c'):
        kinds = {cast.kind(x) for x in cast.walk(u.body(nm))}
        if not (kinds & {'CallExpr', 'WhileStmt', 'ForStmt', 'DoStmt', 'GotoStmt'}):
            small.add(nm)
    for _ in range(3):                      # ... and those that only call such ones
        for nm in u.functions_in_file('byte-buffer.c'):
            b_ = u.body(nm)
            if nm in small or {cast.kind(x) for x in cast.walk(b_)} & {'WhileStmt', 'ForStmt', 'DoStmt', 'GotoStmt'}:
                continue
            callees = [cast.callee_name(c) for c in cast.calls_in(b_)]
            if callees and all(c in small and c != nm for c in callees):
                small.add(nm)
    small.discard('byte_buffer_set')        # C18.a is about who calls it with what
    eng = sym.Engine(u, sizeof=sym.unit_sizeofs(UNIT, u), inline=small)
    names = [n for n in u.functions_in_file('byte-buffer.c') if n.startswith('byte_buffer_')]
    ck.floor('C18.c', 'byte_buffer_* functions', len(names), 13)
    allpaths = {}
    for n in names:
        ck.function(n)
        try:
            allpaths[n] = eng.paths(n)
        except (sym.Unsupported, sym.PathLimit) as e:
            ck.broken('C18.c', n, cast.where(u.fn(n)), 'path enumeration: %s' % e)
    ck.analysed['paths'] += sum(len(v) for v in allpaths.values())
    rule_a(ck, u, eng, allpaths)
    rule_bc(ck, u, eng, allpaths)
    rule_d(ck, u, eng, allpaths)
    rule_e(ck, u, eng, allpaths)


def rule_a(ck, u, eng, allpaths):
    ps = allpaths.get('byte_buffer_set')
    if ps is None:
        return ck.broken('C18.a', 'byte_buffer_set', '', 'function missing')
    where = cast.where(u.fn('byte_buffer_set'))
    prm = [p['name'] for p in u.params('byte_buffer_set')]
    b, data, size, used, offset = [('v', x) for x in prm]
    ok_spec = [Lin.const(1) - L(data), Lin.const(1) - L(size), lin.le(L(used), L(size)), lin.le(L(offset), L(used))]
    bad_alts = {'data == NULL': lin.le(L(data), 0), 'size == 0': lin.le(L(size), 0),
                'used > size': lin.lt(L(size), L(used)), 'offset > used': lin.lt(L(used), L(offset))}
    for i, p in enumerate(ps):
        facts = eng.path_facts(p)
        if p.ret is None or p.ret[0] != 'c':
            ck.broken('C18.a', 'byte_buffer_set:path%d' % i, where, 'non-constant result')
            continue
        key = 'byte_buffer_set:' + '&'.join(fmt(c) for c in p.cond_terms())
        if p.ret[1] == 0:
            # success: all four spec conditions entailed, fields stored from the arguments
            miss = [str(g) for g in ok_spec if not eng.entails(facts, g)]
            want = {'data': data, 'size': size, 'used': used, 'offset': offset}
            st = {e.name[2]: e.args[0] for e in p.stores() if e.name[0] == 'f' and e.name[1] == b}
            wrong = [f for f in want if st.get(f) != want[f]]
            ck.verdict(not miss and not wrong, 'C18.a', key, where,
                       'accepting path entails data!=NULL, size>=1, used<=size, offset<=used and stores all four fields'
                       if not miss and not wrong else
                       'accepting path does not establish %s / fields not stored: %s' % (miss, wrong))
        else:
            # refusal: must be impossible for a well-formed argument tuple, and store nothing
            wf = not eng.feasible(p.cond_terms(), ok_spec)
            ck.verdict(bool(wf) and not p.stores() and p.ret[1] < 0, 'C18.a', key, where,
                       'refusing path is reachable only with a malformed argument tuple, stores nothing' if wf and not p.stores()
                       else 'refusing path %s also rejects well-formed arguments or has side effects' % p.describe())
    # completeness: each malformed class must not reach the accepting path (covered above by entailment)
    ck.floor('C18.a', 'paths of byte_buffer_set', len(ps), 2)
    # wrappers
    for name, want in (('byte_buffer_use', ('size', 'size', 0)), ('byte_buffer_space', ('size', 0, 0))):
        ps2 = allpaths.get(name)
        if not ps2:
            ck.broken('C18.a', name, '', 'function missing')
            continue
        prm = [('v', x['name']) for x in u.params(name)]
        okw = True
        for p in ps2:
            calls = p.calls('byte_buffer_set')
            if len(calls) != 1 or p.ret != calls[0].result:
                okw = False
                continue
            a = calls[0].args
            exp = (prm[0], prm[1], prm[2],
                   prm[2] if want[1] == 'size' else C(0), C(0))
            if tuple(a) != exp:
                okw = False
        ck.verdict(okw, 'C18.a', name, cast.where(u.fn(name)),
                   'forwards (b, data, size, %s, 0) to byte_buffer_set and returns its verdict' % ('size' if want[1] == 'size' else '0')
                   if okw else 'does not forward the expected argument tuple to byte_buffer_set')


def region_of(eng, facts, ptr, length):
    """if ptr = b->data + off (initial data field) return (off Lin, len Lin)"""
    lp = L(ptr)
    d = F('data')
    if lp.t.get(d) != 1:
        return None
    off = lp - Lin.atom(d)
    return off, L(length)


def rule_bc(ck, u, eng, allpaths):
    nsites = 0
    for name, ps in sorted(allpaths.items()):
        params = u.params(name)
        if not params or 'ByteBuffer' not in params[0].get('type', {}).get('qualType', ''):
            continue
        mutator = 'const' not in params[0]['type']['qualType']
        where = cast.where(u.fn(name))
        for i, p in enumerate(ps):
            pkey = '%s:%s' % (name, '&'.join(fmt(c) for c in p.cond_terms()) or 'always')
            inv = invariant() if name not in ('byte_buffer_set', 'byte_buffer_null') else []
            facts = eng.path_facts(p) + inv
            # C18.b bounds of memory operations
            for e in p.calls():
                if e.name not in MEMFUNCS:
                    continue
                dsti, srci, leni = MEMFUNCS[e.name]
                for role, ai in (('dst', dsti), ('src', srci)):
                    if ai is None:
                        continue
                    reg = region_of(eng, facts, e.args[ai], e.args[leni])
                    if reg is None:
                        continue
                    nsites += 1
                    off, ln = reg
                    size = L(F('size'))
                    g1 = -off                         # off >= 0
                    g2 = off + ln - size              # off + len <= size
                    ok1 = eng.entails(facts, g1)
                    ok2 = eng.entails(facts, g2)
                    ck.verdict(ok1 and ok2, 'C18.b', '%s:%s.%s' % (pkey, e.name, role), e.where(),
                               '%s %s region [data+%s, +%s) proved inside [data, data+size)' % (e.name, role, off, ln)
                               if ok1 and ok2 else
                               '%s %s region [data+(%s), +(%s)) not provably inside the buffer: cannot entail %s from {%s}'
                               % (e.name, role, off, ln, 'offset >= 0' if not ok1 else '%s <= 0' % g2,
                                  '; '.join(fmt(c) for c in p.cond_terms())))
            if not mutator or name in ('byte_buffer_set', 'byte_buffer_null'):
                continue
            # C18.c invariant after the path
            o2, u2, s2 = L(final(p, 'offset')), L(final(p, 'used')), L(final(p, 'size'))
            g_a = lin.le(o2, u2)
            g_b = lin.le(u2, s2)
            g_c = -o2
            if ret_negative(p):
                touched = [e for e in p.effects if e.kind == 'store' and sym.rooted_at(e.name, B)] + \
                          [e for e in p.calls() if e.name in MEMFUNCS]
                ck.verdict(not touched, 'C18.c', pkey + ':refuse', where,
                           'refusing path returns %d without storing to the buffer or touching memory' % p.ret[1]
                           if not touched else 'refusing path (result %d) still performs %s' % (p.ret[1], touched[0]))
                continue
            ok = eng.entails(facts, g_a) and eng.entails(facts, g_b) and eng.entails(facts, g_c)
            ck.verdict(ok, 'C18.c', pkey + ':inv', where,
                       "post-state offset'=%s used'=%s size'=%s satisfies 0 <= offset' <= used' <= size'" % (o2, u2, s2)
                       if ok else "post-state offset'=%s used'=%s size'=%s: invariant not entailed" % (o2, u2, s2))
    ck.floor('C18.b', 'memory operations on b->data', nsites, 6)


def one_memcall(p, name):
    cs = [e for e in p.calls() if e.name in MEMFUNCS]
    if len(cs) != 1 or cs[0].name not in name:
        return None
    return cs[0]


def eq(eng, facts, a, b):
    return eng.entails(facts, L(a) - L(b)) and eng.entails(facts, L(b) - L(a))


def rule_d(ck, u, eng, allpaths):
    o0, u0, s0, d0 = F('offset'), F('used'), F('size'), F('data')

    def unchanged(p, *fields):
        return all(final(p, f) == F(f) for f in fields)

    def check(name, fn):
        ps = allpaths.get(name)
        where = cast.where(u.fn(name)) if u.fn(name) else ''
        if not ps:
            return ck.broken('C18.d', name, where, 'function missing')
        prm = [('v', x['name']) for x in u.params(name)]
        problems = []
        for p in ps:
            facts = eng.path_facts(p) + invariant()
            r = fn(p, facts, prm)
            if r:
                problems.append('%s: %s' % (p.describe(), r))
        ck.verdict(not problems, 'C18.d', name, where,
                   '%d paths match the window specification' % len(ps) if not problems else problems[0])

    def spec_add(p, facts, prm):
        b, data, n = prm
        space_ok = lin.le(L(u0) + L(n), L(s0))
        if ret_negative(p):
            if eng.feasible(p.cond_terms(), invariant() + [space_ok]):
                return 'refuses although the octets fit (used + n <= size)'
            return None
        if not eng.entails(facts, space_ok):
            return 'accepts without establishing used + n <= size'
        m = one_memcall(p, ('memcpy', 'memmove'))
        if m is None:
            return 'expected exactly one copy into the buffer'
        if not (eq(eng, facts, m.args[0], sym.add(d0, u0)) and m.args[1] == data and eq(eng, facts, m.args[2], n)):
            return 'copy is (%s, %s, %s), expected (data+used, src, n)' % tuple(fmt(a) for a in m.args)
        if not eq(eng, facts, final(p, 'used'), sym.add(u0, n)):
            return "used' = %s, expected used + n" % fmt(final(p, 'used'))
        if not unchanged(p, 'offset', 'size', 'data'):
            return 'offset/size/data modified'
        if p.ret != C(0):
            return 'success result is %s' % fmt(p.ret)
        return None

    def spec_consume(p, facts, prm):
        b, data, n = prm
        have = lin.le(L(n), L(u0) - L(o0))
        if ret_negative(p):
            if eng.feasible(p.cond_terms(), invariant() + [have]):
                return 'refuses although n unread octets are present'
            return None
        if not eng.entails(facts, have):
            return 'accepts without establishing n <= used - offset'
        m = one_memcall(p, ('memcpy', 'memmove'))
        if m is None:
            return 'expected exactly one copy out of the buffer'
        if not (m.args[0] == data and eq(eng, facts, m.args[1], sym.add(d0, o0)) and eq(eng, facts, m.args[2], n)):
            return 'copy is (%s, %s, %s), expected (dst, data+offset, n)' % tuple(fmt(a) for a in m.args)
        if not eq(eng, facts, final(p, 'offset'), sym.add(o0, n)):
            return "offset' = %s, expected offset + n" % fmt(final(p, 'offset'))
        if not unchanged(p, 'used', 'size', 'data'):
            return 'used/size/data modified'
        if p.ret != C(0):
            return 'success result is %s' % fmt(p.ret)
        return None

    def spec_atmost(p, facts, prm):
        b, data, n = prm
        rest = L(u0) - L(o0)
        if ret_negative(p):
            if eng.feasible(p.cond_terms(), invariant() + [Lin.const(1) - rest]):
                return 'refuses although unread octets are present'
            return None
        if not eng.entails(facts, Lin.const(1) - rest):
            return 'accepts an empty buffer'
        m = one_memcall(p, ('memcpy', 'memmove'))
        if m is None:
            return 'expected exactly one copy out of the buffer'
        ln = L(m.args[2])
        if not (m.args[0] == data and eq(eng, facts, m.args[1], sym.add(d0, o0))):
            return 'copy is not (dst, data+offset, ..)'
        if not (eng.entails(facts, ln - L(n)) and eng.entails(facts, ln - rest)):
            return 'moved count %s not bounded by both n and the unread count' % ln
        if not (eng.entails(facts, L(n) - ln) or eng.entails(facts, rest - ln)):
            return 'moved count %s is neither n nor the unread count (not the minimum)' % ln
        if not eq(eng, facts, final(p, 'offset'), sym.add(o0, m.args[2])):
            return "offset' = %s, expected offset + moved" % fmt(final(p, 'offset'))
        if p.ret is None or not eq(eng, facts, p.ret, m.args[2]):
            return 'returns %s, expected the moved count' % (fmt(p.ret) if p.ret else None)
        if not unchanged(p, 'used', 'size', 'data'):
            return 'used/size/data modified'
        return None

    def spec_rewind(p, facts, prm):
        if ret_negative(p):
            # only a buffer without memory may be refused
            if eng.feasible(p.cond_terms(), [Lin.const(1) - L(d0)]):
                return 'refuses a buffer that has memory'
            return None
        if not eq(eng, facts, final(p, 'offset'), C(0)):
            return "offset' = %s, expected 0 (unread octets now start at the front)" % fmt(final(p, 'offset'))
        if not eq(eng, facts, final(p, 'used'), sym.sub(u0, o0)):
            return "used' = %s, expected used - offset (space behind the unread octets is free again)" % fmt(final(p, 'used'))
        if not unchanged(p, 'size', 'data'):
            return 'size/data modified'
        moved = eng.feasible(p.cond_terms(), invariant() + [Lin.const(1) - L(o0), lin.lt(L(o0), L(u0))])
        if moved:
            m = one_memcall(p, ('memmove',))
            if m is None:
                return 'unread octets are not relocated with memmove (regions may overlap)'
            if not (eq(eng, facts, m.args[0], d0) and eq(eng, facts, m.args[1], sym.add(d0, o0))
                    and eq(eng, facts, m.args[2], sym.sub(u0, o0))):
                return 'memmove(%s, %s, %s), expected (data, data+offset, used-offset)' % tuple(fmt(a) for a in m.args)
        return None

    def spec_reset(p, facts, prm):
        if final(p, 'offset') != C(0) or final(p, 'used') != C(0):
            return "offset'/used' = %s/%s, expected 0/0" % (fmt(final(p, 'offset')), fmt(final(p, 'used')))
        if not unchanged(p, 'size', 'data') or [e for e in p.calls() if e.name in MEMFUNCS]:
            return 'size/data modified or memory touched'
        return None

    def spec_clear(p, facts, prm):
        if final(p, 'offset') != C(0) or final(p, 'used') != C(0):
            return "offset'/used' = %s/%s, expected 0/0" % (fmt(final(p, 'offset')), fmt(final(p, 'used')))
        m = one_memcall(p, ('memset',))
        if m is None or not (m.args[0] == d0 and m.args[1] == C(0) and eq(eng, facts, m.args[2], s0)):
            return 'expected memset(data, 0, size)'
        if not unchanged(p, 'size', 'data'):
            return 'size/data modified'
        return None

    def spec_repeat(p, facts, prm):
        if final(p, 'offset') != C(0):
            return "offset' = %s, expected 0" % fmt(final(p, 'offset'))
        if not unchanged(p, 'used', 'size', 'data') or [e for e in p.calls() if e.name in MEMFUNCS]:
            return 'used/size/data modified or memory touched'
        return None

    def spec_avail(p, facts, prm):
        return None if p.ret is not None and eq(eng, facts, p.ret, sym.sub(s0, u0)) and not p.stores() else 'does not return size - used'

    def spec_rest(p, facts, prm):
        return None if p.ret is not None and eq(eng, facts, p.ret, sym.sub(u0, o0)) and not p.stores() else 'does not return used - offset'

    def spec_null(p, facts, prm):
        ok = all(final(p, f) == C(0) for f in ('data', 'size', 'used', 'offset'))
        return None if ok else 'does not zero all four fields'

    check('byte_buffer_add', spec_add)
    check('byte_buffer_consume', spec_consume)
    check('byte_buffer_consume_at_most', spec_atmost)
    check('byte_buffer_rewind', spec_rewind)
    check('byte_buffer_reset', spec_reset)
    check('byte_buffer_clear', spec_clear)
    check('byte_buffer_repeat', spec_repeat)
    check('byte_buffer_avail', spec_avail)
    check('byte_buffer_rest', spec_rest)
    check('byte_buffer_null', spec_null)


def rule_e(ck, u, eng, allpaths):
    """K4o: a capacity guard of the form  used + n <op> size  where n is a caller
    supplied length can wrap; the safe form compares n with size - used."""
    from .. import k4o
    for name in ('byte_buffer_add', 'byte_buffer_consume', 'byte_buffer_consume_at_most'):
        f = u.fn(name)
        if f is None:
            continue
        params = {p['name'] for p in u.params(name)}
        hits = k4o.overflowable_guards(u, name, params)
        ck.verdict(not hits, 'C18.e', name, cast.where(f),
                   'no capacity comparison adds a caller-controlled length before comparing' if not hits else
                   'guard `%s` at %s adds the caller-controlled length `%s` before comparing: wraps for lengths near SIZE_MAX and then admits the operation'
                   % (hits[0][1], hits[0][0], hits[0][2]))
