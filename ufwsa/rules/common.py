"""Small rules shared by several properties."""


def distinct_enums(ck, u, rule, prefixes, where):
    """the enumerators the code dispatches on are pairwise distinct (duplicate values are legal C and compile silently;
    two enumerators with one value make every test for one of them a test for the other)"""
    for pre in prefixes:
        vals = {n: v for n, v in u.enums.items() if n.startswith(pre)}
        dup = {}
        for n, v in vals.items():
            dup.setdefault(v, []).append(n)
        bad = [sorted(ns) for v, ns in sorted(dup.items()) if len(ns) > 1]
        if len(vals) < 2:
            ck.broken(rule, 'enum:' + pre, where, 'enumerators %s* not found' % pre)
            continue
        ck.verdict(not bad, rule, 'enum:' + pre, where,
                   '%d enumerators %s*, pairwise distinct' % (len(vals), pre) if not bad else
                   '%s have the same value: code that tests for one of them also fires for the other' % ' and '.join(bad[0]))
