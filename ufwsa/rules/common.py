"""Small rules shared by several properties."""


def distinct_enums(ck, u, rule, prefixes, where):
    """the enumerators the code dispatches on are pairwise distinct (duplicate values are legal C and compile silently;
    two enumerators with one value make every test for one of them a test for the other)"""
    for pre in prefixes:
        vals = {n: v for n, v in u.enums.items() if n.startswith(pre)}
        dup = {}
        for n, v in vals.items():
            dup.setdefault(v, []).append(n)
        bad = [sorted(ns) for v, ns in sorted(dup.items()) if len(ns) > 1]
        if len(vals) < 2:
            ck.broken(rule, 'enum:' + pre, where, 'enumerators %s* not found' % pre)
            continue
        ck.verdict(not bad, rule, 'enum:' + pre, where,
                   '%d enumerators %s*, pairwise distinct' % (len(vals), pre) if not bad else
                   '%s have the same value: code that tests for one of them also fires for the other' % ' and '.join(bad[0]))


class _Reeval:
    """proxy Check: runs another property's rules and keeps, under a rule id of the calling property, only the instances
    the caller depends on.  Holds are counted, violations and analysis failures are forwarded with their original text."""
    def __init__(self, ck, new_rule, accept, origin=''):
        self._ck, self._new, self._accept = ck, new_rule, accept
        # a recorded known finding is reported once, under the property it belongs to - not again under every property
        # that re-evaluates the rule (the dependent property says so in a note)
        self._known = set()
        try:
            import json
            from .. import report
            self._known = {k['key'] for k in json.load(open(report.KNOWN)).get('findings', [])
                           if k.get('status') == 'known' and k.get('property') == origin}
        except Exception:      # noqa: BLE001
            pass
        self._origin = origin
        self.pid, self.tier, self.level = ck.pid, ck.tier, ck.level
        self.analysed = ck.analysed
        self.rules, self.notes, self.assumptions, self.not_decided, self.trusted_base = {}, [], [], [], []
        self.nhold = 0
        self.per = {}

    def rule(self, rid, text):
        pass

    def unit(self, rel):
        self._ck.unit(rel)

    def function(self, name):
        self._ck.function(name)

    def floor(self, rule, what, count, minimum):
        return True

    def _nid(self, rule, key):
        return self._new(rule, key) if callable(self._new) else self._new

    def holds(self, rule, key, where='', detail='', **extra):
        if self._accept(rule, key):
            self.nhold += 1
            n = self._nid(rule, key)
            self.per[n] = self.per.get(n, 0) + 1

    def violation(self, rule, key, where='', detail='', **extra):
        if self._accept(rule, key) and key in self._known:
            self._ck.notes.append('%s re-evaluates %s %s: that instance is the recorded known finding of %s (reported there, not here)' % (
                self._nid(rule, key), rule, key, self._origin))
            return None
        if self._accept(rule, key):
            return self._ck.violation(self._nid(rule, key), '%s:%s' % (rule, key), where, detail, **extra)

    def broken(self, rule, key, where='', detail='', **extra):
        if self._accept(rule, key):
            return self._ck.broken(self._nid(rule, key), '%s:%s' % (rule, key), where, detail, **extra)

    def verdict(self, ok, rule, key, where='', detail='', **extra):
        return (self.holds if ok else self.violation)(rule, key, where, detail, **extra)


def reevaluate(ck, new_rule, module_name, accept, what):
    """decide under `new_rule` of the calling property the rule instances of another property's module that `accept`
    selects (the functions / tables the caller's behaviour rests on); `what` says why, for the evidence"""
    import importlib
    if isinstance(ck, _Reeval):
        return          # one level only: the caller's dependencies, not the dependencies of those (they are decided under their own property)
    mod = importlib.import_module('ufwsa.rules.' + module_name)
    px = _Reeval(ck, new_rule, accept, module_name.upper())
    try:
        mod.run(px)
    except Exception as e:                                   # noqa: BLE001
        ck.broken(new_rule, 'reeval:' + module_name, '', '%s: %s' % (type(e).__name__, e))
        return
    if callable(new_rule):
        # several rules of the caller decided by one run of the other module: `what` maps each to its reason; every one of
        # them must have selected something
        for n, w in what.items():
            if px.per.get(n, 0) == 0:
                ck.broken(n, 'reeval:' + module_name, '', 'no instance of %s selected (anchor vanished)' % module_name)
            else:
                ck.holds(n, 'reeval:' + module_name, '', '%s: %d rule instances of %s re-evaluated and hold' % (w, px.per[n], module_name.upper()))
        return
    if px.nhold == 0:
        ck.broken(new_rule, 'reeval:' + module_name, '', 'no instance of %s selected (anchor vanished)' % module_name)
    else:
        ck.holds(new_rule, 'reeval:' + module_name, '', '%s: %d rule instances of %s re-evaluated and hold' % (what, px.nhold, module_name.upper()))


# ---- loop variables by role, not by name ---------------------------------------------------------------------------------
def _strip_cast(t):
    while t is not None and t[0] == 'cast':
        t = t[2]
    return t


def base_name(k):
    """declared name of a variable key without the engine's decoration: no frame prefix of a looked-through helper
    ('helper@17:i'), no shadowing suffix ('i~14')"""
    import re
    from ..sym import fmt
    x = fmt(k)
    x = re.sub(r'^(\w+@\d+:)+', '', x)
    return re.sub(r'~\d+$', '', x)


def loop_steps(ps, loop_node):
    """{key: step} for the variables of the loop `loop_node` that every path running back to its head advances by the
    same constant (ps: all paths of the function).  Renaming a variable or moving the loop into a helper changes nothing
    here; changing the step does."""
    from ..sym import mem_read, linearize as L
    steps = None
    for p in ps:
        if p.end != 'loopback' or not p.loops or p.loops[-1][0] is not loop_node:
            continue
        cur = {}
        for k, (h, pre) in p.loops[-1][1].items():
            v = mem_read(p.mem, k, None)
            if v is None:
                continue
            try:
                d = L(_strip_cast(v)) - L(h)
            except Exception:      # noqa: BLE001 - non-linear value: no constant step
                continue
            if d.is_const():
                cur[k] = int(d.c)
        steps = cur if steps is None else {k: s for k, s in steps.items() if cur.get(k) == s}
    return steps or {}


def loop_counter(ps, p, step=1):
    """[(key, havoc atom, value before the loop)] of the variables of p's innermost loop that every iteration advances
    by `step`"""
    if not p.loops:
        return []
    node, lmap = p.loops[-1]
    st = loop_steps(ps, node)
    # a variable the engine has expressed through another one (a walking pointer = base + position) is not a counter of its own
    return [(k, lmap[k][0], lmap[k][1]) for k in lmap if st.get(k) == step and isinstance(lmap[k][0], tuple) and lmap[k][0][0] == 'h']


def pointer_walk(eng, ps):
    """the loop variable (its text) if a loop of these paths steps a pointer instead of an index: a form the index-based
    table rules do not read (they say so - analysis-broken - instead of judging it)"""
    from ..sym import fmt
    seen = set()
    for p in ps:
        for node, lmap in p.loops:
            if id(node) in seen:
                continue
            seen.add(id(node))
            st = loop_steps(ps, node)
            for k, step in st.items():
                if k in lmap and isinstance(lmap[k][0], tuple) and lmap[k][0][0] != 'h':
                    continue           # the engine has expressed this pointer as base + index (Engine._index_pointer_walks)
                if step and ('*' in (eng.types.get(k) or '') or '*' in (eng.types.get(lmap[k][0]) or '')):
                    return fmt(k)
    return None


def unify_progress(ps, p, eng=None, want_k=False):
    """{havoc value: term} that expresses every loop variable of p's innermost loop which each iteration moves by +1 or
    -1 through ONE of them: they all count the iterations (value = start +- K, by induction), so a walking pointer, a
    remaining count and an index are the same quantity to whoever reads the path afterwards"""
    if not p.loops:
        return {} if not want_k else ({}, None)
    node, lmap = p.loops[-1]
    st = loop_steps(ps, node)
    cand = [(k, st[k]) for k in sorted(lmap, key=lambda k_: repr(k_)) if st.get(k) in (1, -1) and lmap[k][1] is not None and lmap[k][0][0] == 'h']
    if len(cand) < 2:
        return {} if not want_k else ({}, None)
    # prefer an index that starts at a constant as the one everything is expressed in
    def is_ptr(k_):
        return eng is not None and '*' in (eng.types.get(lmap[k_][0]) or eng.types.get(k_) or '')
    cand.sort(key=lambda ks: (0 if _strip_cast(lmap[ks[0]][1])[0] == 'c' and ks[1] == 1 else (2 if is_ptr(ks[0]) else 1), repr(ks[0])))
    k0, s0 = cand[0]
    h0, pre0 = lmap[k0]
    K = ('-', h0, pre0) if s0 == 1 else ('-', pre0, h0)
    sub = {}
    for k, s_ in cand[1:]:
        h, pre = lmap[k]
        sub[h] = ('+', pre, K) if s_ == 1 else ('-', pre, K)
    return (sub, K) if want_k else sub


def bracket_rule(ck, rule, u, eng_factory, files, key='brackets', skip=()):
    """Set / clear pairing of instance flags.  A function that puts a constant into a field of an object it was handed (a
    guard, a busy mark, an in-progress state) and, further down the same path, puts a different constant there has
    bracketed a piece of work with that field.  The closing store belongs to EVERY way out of the bracket: a return taken
    between the two stores (the failure path) leaves the field in its opening value for all later calls - which then
    refuse, skip or mis-handle work although nothing is in progress.  Decided on all paths of every function of `files`:
    open/close values are learnt from the paths that have both; a return path whose last store to the field is an
    opening value is reported.  No names, no list of flags: any field bracketed anywhere is held to it."""
    from .. import sym as _sym, cast as _cast
    nfun = nbr = 0
    bad = []
    for fn, fd in sorted(u.functions.items()):
        if fn in skip or not (_cast.node_file(fd) or '').endswith(tuple(files)):
            continue
        params = [('v', p_['name']) for p_ in u.params(fn) if '*' in _cast.qual_type(p_)]
        if not params:
            continue
        try:
            ps = eng_factory().paths(fn)
        except (_sym.Unsupported, _sym.PathLimit):
            continue                                # the property's own rules say so where it matters
        nfun += 1
        seqs = []
        for p_ in ps:
            if p_.end != 'return':
                continue
            seq = {}
            for e in p_.stores():
                if isinstance(e.name, tuple) and e.name[0] == 'f' and any(_sym.rooted_at(e.name, r) for r in params):
                    v_ = _strip_cast(e.args[0])
                    # a constant, the value the field had when the call began (saved and written back), or something else
                    seq.setdefault(e.name, []).append((v_[1] if _sym.is_c(v_) else ('INIT' if v_ == e.name else ('other', _sym.fmt(v_))), e))
            seqs.append((p_, seq))
        # a bracket: the path found the field in state b (its guard says so: `if (busy) return ..;`), stored a != b, and
        # - on at least one way out - stored b again.  Then b is what every way out has to leave.
        def entry_value(p_, k):
            vs_ = seq_of.get(id(p_), {}).get(k)
            if vs_ and vs_[-1][0] == 'INIT' or any(sq.get(k) and sq[k][-1][0] == 'INIT' and sq[k][0][0] != 'INIT' for _, sq in seqs):
                return 'INIT'               # save / modify / restore: the closing value is what the call found
            for c in p_.cond_terms():
                if c[0] == 'cmp' and c[1] == '==' and _strip_cast(c[2]) == k and _sym.is_c(c[3]):
                    return c[3][1]
            return None
        seq_of = {id(p_): sq for p_, sq in seqs}
        closed = {}
        for p_, seq in seqs:
            for k, vs in seq.items():
                b = entry_value(p_, k)
                vals = [v for v, e in vs]
                if b is not None and len(vals) >= 2 and vals[0] != b and vals[-1] == b:
                    closed.setdefault(k, set()).add(b)
        for k, bs in closed.items():
            nbr += 1
            for p_, seq in seqs:
                vs = seq.get(k)
                b = entry_value(p_, k)
                if not vs or b is None or b not in bs:
                    continue
                last, e = vs[-1]
                if last != b:
                    bad.append((fn, k, '%s finds %s == %s, sets it to %s at %s and returns %s under {%s} without putting it back, as its other paths do: the change outlives '
                                'the operation it brackets, and every later call works on it' % (
                                    fn, _sym.fmt(k), 'what the caller set up' if b == 'INIT' else b, last[1] if isinstance(last, tuple) else last, e.where(),
                                    _sym.fmt(p_.ret) if p_.ret is not None else 'void',
                                    '; '.join(_sym.fmt(c) for c in p_.cond_terms()[-3:])[:160])))
                    break
    seen = set()
    for fn, k, msg in bad:
        if (fn, k) in seen:
            continue
        seen.add((fn, k))
        ck.violation(rule, '%s:%s:%s' % (key, fn, _sym.fmt(k)), _cast.where(u.fn(fn)), msg)
    if not bad:
        ck.holds(rule, key, ', '.join(files), 'every field a function brackets a piece of work with (%d such fields in %d functions looked at) is closed on every way out' % (nbr, nfun))
    return nfun
