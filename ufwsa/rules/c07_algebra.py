"""C07.e  error-detection algebra of the receive chain.

What the structural rules C07.a-d establish is WHICH equalities a frame has to satisfy to be accepted on a serial
channel: header checksum over a stated coverage == header checksum field, block size == payload extent for the
payload-carrying types, payload checksum == payload checksum field.  Whether those equalities catch the error
patterns the property lists is arithmetic over GF(2): the table-driven CRC is affine in the message, so a corrupted
frame f ^ e passes a check exactly when the zero-initialised checksum of the error pattern over the covered octets
equals the error pattern inside the checksum field - independent of f.  That is decided here by enumeration, with
every parameter read from the source on each run:

  table            crc16_table in src/crc-16-arc.c (C16 proves the step function around it)
  coverage, field positions, checksum field positions and byte order
                   from the accepting paths of parse_header, per combination of the two checksum bits
  which types tie the block size to the payload
                   the document's table, which C07.b holds payload_plausible to

Classes (the property's quantifier): every single-bit error, every two-bit error and every burst that flips all bits
of a window of 2..16 bits, at every bit offset behind the first header word, in both bit numberings of an octet, for
a read request (nothing but the header checksum protects it) and for write requests with short payloads.  Patterns
confined to the payload are position independent (multiplication by x is invertible modulo the generator), so short
payloads stand for all lengths; for two-bit errors the distance has to stay below the multiplicative order of x,
which is computed and reported as the payload bound.
"""
import itertools
from .. import cast, sym, front
from ..sym import C, fmt
from . import c16


def crc0(table, octs):
    c = 0
    for b in octs:
        c = (c >> 8) ^ table[(c ^ b) & 0xff]
    return c


def order_of_x(table):
    """smallest k > 0 such that feeding k zero bits after a single one returns the register to its start: the distance
    at which two single-bit errors cancel"""
    # state after the octet 0x01 (reflected: bit 0 first) followed by zero octets; the pattern x^i * (1 + x^d) is a code
    # word iff x^d == 1.  Work bitwise on the reflected generator derived from the table.
    poly = table[0x80]                  # reflected generator: table[0x80] is the register after the top bit alone
    start = None
    reg = 1 << 15                       # a single one entering the (reflected) register
    for k in range(1, 1 << 17):
        lsb = reg & 1
        reg >>= 1
        if lsb:
            reg ^= poly
        if start is None:
            start = None
        if reg == 1 << 15:
            return k
    return None


def layouts(R, motv_test, HD, PL):
    """(hd, pl) -> dict(words, fields {name: (word offset, words)}, cover [(word offset, words)], hdcrc, plcrc)"""
    eng = R.engine({'raw_with_hdcrc', 'raw_with_plcrc'})
    ps = R.paths('parse_header', 'C07.e', eng)
    if ps is None:
        return None
    out = {}
    buf = ('v', 'buf')
    from ..sym import linearize as L
    for p in ps:
        if p.ret is None or not sym.is_c(p.ret) or p.ret[1] < 0:
            continue
        hd = True in [motv_test(c, HD) for c in p.cond_terms()]
        pl = True in [motv_test(c, PL) for c in p.cond_terms()]
        lay = {'words': p.ret[1], 'fields': {}, 'cover': [], 'hdcrc': None, 'plcrc': None}
        for e in p.stores():
            nm = fmt(e.name)
            v = e.args[0]
            while v[0] == 'cast':
                v = v[2]
            if v[0] != 'call' or not v[1].startswith('bf_ref_u'):
                continue
            width = {'bf_ref_u16b': 1, 'bf_ref_u32b': 2}.get(v[1])
            if width is None:
                return 'field %s is decoded by %s (expected a big-endian 16/32-bit load)' % (nm, v[1])
            d = L(v[2][0]) - L(buf)
            if not d.is_const():
                return 'field %s is loaded from %s' % (nm, fmt(v[2][0]))
            off = int(d.c)
            key = nm.split('.')[-1]
            if key == 'hdcrc':
                lay['hdcrc'] = off
            elif key == 'plcrc':
                lay['plcrc'] = off
            else:
                lay['fields'][key] = (off, width)
        for e in p.calls():
            if e.name == 'ufw_buffer_crc16_arc_u16':
                d = L(e.args[0]) - L(buf)
                n = e.args[1]
                if not (d.is_const() and sym.is_c(n)):
                    return 'header checksum coverage %s not constant' % fmt(e.args[0])
                lay['cover'].append((int(d.c), n[1]))
            elif e.name == 'ufw_crc16_arc_u16':
                d = L(e.args[1]) - L(buf)
                n = e.args[2]
                if not (d.is_const() and sym.is_c(n)):
                    return 'header checksum continuation %s not constant' % fmt(e.args[1])
                lay['cover'].append((int(d.c), n[1]))
            elif 'crc' in e.name:
                return 'unknown checksum call %s in parse_header' % e.name
        prev = out.get((hd, pl))
        if prev is not None and prev != lay:
            return 'accepting paths for the same checksum bits disagree on the layout'
        out[(hd, pl)] = lay
    return out


def rule_e(ck, R, motv_test):
    E = R.E
    HD, PL = E['RP_OPT_WITH_HEADER_CRC'], E['RP_OPT_WITH_PAYLOAD_CRC']
    where = R.where('parse_header')
    try:
        ucrc = cast.load('src/crc-16-arc.c')
        table = c16.table_values(ucrc, 'crc16_table')
        init = front.probe_values('src/register-protocol.c', ['CRC16_ARC_INITIAL'])[0]
    except Exception as e:                                                   # noqa: BLE001 - any front-end failure
        return ck.broken('C07.e', 'parameters', where, 'checksum parameters not available: %s' % e)
    if not table or len(table) != 256:
        return ck.broken('C07.e', 'parameters', 'src/crc-16-arc.c', 'crc16_table not readable')
    lay = layouts(R, motv_test, HD, PL)
    if lay is None:
        return
    if isinstance(lay, str):
        return ck.broken('C07.e', 'layout', where, lay)
    need = [(True, False), (True, True)]
    for k in need:
        if k not in lay or lay[k]['hdcrc'] is None or not lay[k]['cover']:
            return ck.broken('C07.e', 'layout', where, 'no accepting path with a verified header checksum for checksum bits %s' % (k,))
    if lay[(True, True)]['plcrc'] is None:
        return ck.broken('C07.e', 'layout', where, 'payload checksum field not found')
    order = order_of_x(table)

    def frame_model(hd_pl, paylen, tied):
        l = lay[hd_pl]
        hlen = 2 * l['words']
        total = hlen + paylen
        cov = []
        for off, n in l['cover']:
            cov += list(range(2 * off, 2 * (off + n)))
        bs = l['fields'].get('blocksize')
        bs_octs = list(range(2 * bs[0], 2 * (bs[0] + bs[1]))) if bs else []

        def accepted(e):
            hdv = (e[2 * l['hdcrc']] << 8) | e[2 * l['hdcrc'] + 1]
            if crc0(table, [e[i] for i in cov]) != hdv:
                return False
            if tied and any(e[i] for i in bs_octs):
                return False
            if hd_pl[1]:
                plv = (e[2 * l['plcrc']] << 8) | e[2 * l['plcrc'] + 1]
                if crc0(table, e[hlen:]) != plv:
                    return False
            return True
        return total, accepted

    def patterns(nbits, first_bit):
        for a in range(first_bit, nbits):
            yield 'single bit', (a,)
        for a, b in itertools.combinations(range(first_bit, nbits), 2):
            yield 'two bits', (a, b)
        for ln in range(2, 17):
            for s in range(first_bit, nbits - ln + 1):
                yield 'burst of %d bits' % ln, tuple(range(s, s + ln))

    cases = [('read request (header checksum only)', (True, False), 0, False)]
    for pl_ in (1, 2, 3, 5, 8):
        cases.append(('write request with %d payload octet(s)' % pl_, (True, True), pl_, True))
    nchecked = 0
    bad = None
    for title, key, paylen, tied in cases:
        total, accepted = frame_model(key, paylen, tied)
        for msb_first in (True, False):
            for cls, bits in patterns(total * 8, 16):
                e = bytearray(total)
                for b in bits:
                    o, i = divmod(b, 8)
                    e[o] ^= (0x80 >> i) if msb_first else (1 << i)
                nchecked += 1
                if accepted(e):
                    bad = bad or ('%s: the %s at bit offset %d (%s first; error pattern %s) satisfies every equality the receiver verifies - '
                                  'the damaged frame is executed and acknowledged' % (title, cls, bits[0], 'most significant bit' if msb_first else 'least significant bit', e.hex()))
        if init != 0:
            pass        # affine: the difference of two checksums with the same initial value is the zero-initialised one
    ck.verdict(bad is None, 'C07.e', 'detection', where,
               ('no single-bit error, two-bit error or burst flipping a whole window of 2..16 bits behind the first header word leaves all verified '
                'equalities intact (%d error patterns over %d frame shapes, both bit numberings; coverage %s, header checksum word %d, payload checksum '
                'word %d; patterns confined to the payload are position independent, two-bit errors there are caught up to %s bits apart)'
                % (nchecked, len(cases), lay[(True, True)]['cover'], lay[(True, True)]['hdcrc'], lay[(True, True)]['plcrc'], order))
               if bad is None else bad)
    if order is not None:
        ck.verdict(order >= 8 * 4095, 'C07.e', 'two-bit-distance', 'src/crc-16-arc.c',
                   'two single-bit errors cancel only at a distance of %d bits: payloads of up to %d octets are covered' % (order, order // 8)
                   if order >= 8 * 4095 else 'two single-bit errors %d bits apart cancel: payloads longer than %d octets are not protected against two-bit errors' % (order, order // 8))
