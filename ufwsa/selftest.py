"""setup_cmd: nothing to build; verify the tool chain the checks need is there
and the kit's own unit checks pass."""
import subprocess, sys
from . import front, bitdom


def main():
    for tool in (['clang', '--version'], ['python3', '--version']):
        p = subprocess.run(tool, capture_output=True, text=True)
        if p.returncode != 0:
            print('missing tool', tool[0]); return 1
    # bit domain sanity
    a = bitdom.BV.sym('a', 8)
    assert bitdom.BV.const(5, 8).const_value() == 5
    assert bitdom.bmux(a.bits[0], bitdom.ONE, bitdom.ZERO) == a.bits[0]
    from . import lin
    lin.selftest()
    from . import engine_tests
    n = engine_tests.run()
    print('ufwsa engine cases ok: %d' % n)
    print('ufwsa selftest ok')
    return 0


if __name__ == '__main__':
    sys.exit(main())
