"""ufwsa - repository-specific static analysis for ft/ufw (see /verif/DESIGN.md)."""
