"""Result records, known findings, evidence files, exit codes (DESIGN section 8)."""
import json, os, sys, time

VERIF = os.path.dirname(os.path.dirname(os.path.abspath(__file__)))
EVID = os.environ.get('UFWSA_EVID') or os.path.join(VERIF, 'evidence')
KNOWN = os.path.join(VERIF, 'known_findings.json')

HOLDS, VIOLATION, BROKEN = 'HOLDS', 'VIOLATION', 'BROKEN'


class Check:
    def __init__(self, pid, tier, level='other'):
        self.pid = pid
        self.tier = tier
        self.level = level
        self.t0 = time.time()
        self.results = []
        self.analysed = {'units': set(), 'functions': set(), 'paths': 0, 'call_sites': 0}
        self.rules = {}          # rule id -> description
        self.notes = []
        self.assumptions = []
        self.not_decided = []
        self.trusted_base = []
        self.quiet = False

    # -- recording ---------------------------------------------------------
    def rule(self, rid, text):
        self.rules[rid] = text

    def _rec(self, verdict, rule, key, where, detail, extra):
        r = {'property': self.pid, 'rule': rule, 'key': key, 'verdict': verdict,
             'where': where, 'detail': detail}
        r.update(extra)
        self.results.append(r)
        return r

    def holds(self, rule, key, where='', detail='', **extra):
        return self._rec(HOLDS, rule, key, where, detail, extra)

    def violation(self, rule, key, where='', detail='', **extra):
        return self._rec(VIOLATION, rule, key, where, detail, extra)

    def broken(self, rule, key, where='', detail='', **extra):
        return self._rec(BROKEN, rule, key, where, detail, extra)

    def verdict(self, ok, rule, key, where='', detail='', **extra):
        return (self.holds if ok else self.violation)(rule, key, where, detail, **extra)

    def floor(self, rule, what, count, minimum):
        """Non-vacuity: fewer instances than confirmed by hand -> BROKEN."""
        if count < minimum:
            self.broken(rule, 'floor:' + what, '', '%s: %d instances found, floor is %d'
                        % (what, count, minimum))
            return False
        return True

    def unit(self, rel):
        self.analysed['units'].add(rel)

    def function(self, name):
        self.analysed['functions'].add(name)

    def _reshaped_anchors(self):
        """A rule that reads a confirmed function by its parameters (argument positions, names) says nothing reliable about a
        function whose parameter list is no longer the confirmed one (a parameter added, removed or retyped: an adaptor
        that got a mode flag, a helper that lost an argument).  A violation keyed at such a function is not a verdict on
        the behaviour: it becomes ANALYSIS-BROKEN, naming the changed signature.  (Functions the table does not know are
        new helpers and are looked through anyway.)"""
        try:
            from . import cast as _cast
            table = json.load(open(os.path.join(os.path.dirname(os.path.abspath(__file__)), 'known_functions.json'))).get('names', {})
        except Exception:      # noqa: BLE001
            return
        import re as _re
        current = {}
        for u in list(_cast._cache.values()):
            for fn in u.functions:
                if fn in table and fn not in current:
                    try:
                        current[fn] = [_cast.qual_type(q).replace('const ', '').strip() for q in u.params(fn)]
                    except Exception:      # noqa: BLE001
                        pass
        reshaped = {}
        for fn, cur in current.items():
            alts = [[t.replace('const ', '').strip() for _n, t in a.get('params', [])] for a in table.get(fn, [])]
            if alts and cur not in alts and all(len(a) != len(cur) for a in alts):
                reshaped[fn] = (alts[0], cur)
        if not reshaped:
            return
        for r in self.results:
            if r['verdict'] != VIOLATION or str(r.get('rule', '')).endswith('.s'):      # (the hidden-state rule reads bodies, not argument lists)
                continue
            words = set(_re.findall(r'[A-Za-z_][A-Za-z0-9_]*', str(r.get('key', '')) + ' ' + str(r.get('detail', ''))))
            hit = sorted(words & set(reshaped))
            if hit:
                fn = hit[0]
                r['verdict'] = BROKEN
                r['detail'] = ('the parameter list of %s is no longer the one the rule was confirmed on (%d parameters then, %d now): the rule reads the function by its '
                               'arguments and does not judge the new form.  [what it would have said: %s]' % (fn, len(reshaped[fn][0]), len(reshaped[fn][1]), str(r.get('detail', ''))[:300]))

    # -- finishing -----------------------------------------------------------
    def finish(self):
        known = []
        if os.path.exists(KNOWN):
            known = json.load(open(KNOWN)).get('findings', [])
        knownkeys = {(k['property'], k['key']): k for k in known if k.get('status') == 'known'}
        self._reshaped_anchors()
        viol = [r for r in self.results if r['verdict'] == VIOLATION]
        brok = [r for r in self.results if r['verdict'] == BROKEN]
        held = [r for r in self.results if r['verdict'] == HOLDS]
        new_viol, kn_viol = [], []
        for r in viol:
            (kn_viol if (self.pid, r['key']) in knownkeys else new_viol).append(r)
        os.makedirs(os.path.join(EVID, 'violations'), exist_ok=True)
        # clean previous replay files of this property
        vdir = os.path.join(EVID, 'violations')
        for f in os.listdir(vdir):
            if f.startswith(self.pid + '-'):
                os.unlink(os.path.join(vdir, f))
        out = []
        out.append('== %s tier=%s: %d rule instances: %d hold, %d violate (%d known), %d broken; '
                   'units=%d functions=%d paths=%d'
                   % (self.pid, self.tier, len(self.results), len(held), len(viol), len(kn_viol),
                      len(brok), len(self.analysed['units']), len(self.analysed['functions']),
                      self.analysed['paths']))
        byrule = {}
        for r in self.results:
            d = byrule.setdefault(r['rule'], {HOLDS: 0, VIOLATION: 0, BROKEN: 0})
            d[r['verdict']] += 1
        for rid in sorted(byrule):
            d = byrule[rid]
            out.append('   rule %-8s hold=%-3d viol=%-2d broken=%-2d  %s'
                       % (rid, d[HOLDS], d[VIOLATION], d[BROKEN], self.rules.get(rid, '')[:100]))
        for r in kn_viol:
            out.append('KNOWN-FINDING: property=%s rule=%s key=%s %s %s'
                       % (self.pid, r['rule'], r['key'], r['where'], r['detail']))
        for i, r in enumerate(new_viol):
            p = os.path.join(vdir, '%s-%d.json' % (self.pid, i))
            json.dump(r, open(p, 'w'), indent=1, default=str)
            out.append('VIOLATION property=%s replay=%s' % (self.pid, p))
            out.append('   rule=%s key=%s at %s: %s' % (r['rule'], r['key'], r['where'], r['detail']))
        for r in brok:
            out.append('ANALYSIS-BROKEN property=%s rule=%s key=%s %s reason=%s'
                       % (self.pid, r['rule'], r['key'], r['where'], r['detail']))
        wall = time.time() - self.t0
        nontrivial = len({r['key'] for r in self.results if r['verdict'] != BROKEN})
        samples = []
        seenrules = set()
        for r in self.results:
            if r['rule'] not in seenrules or r['verdict'] != HOLDS:
                seenrules.add(r['rule'])
                samples.append({k: r[k] for k in ('rule', 'key', 'verdict', 'where', 'detail')})
        samples = samples[:60]
        cov = {
            'evaluations': max(1, len(self.results)),
            'distinct_nontrivial': nontrivial,
            'rule': 'one evaluation = one rule instance (a function, call site, path set, table row or '
                    'linear obligation named by key) decided on /repo\'s current source; distinct = '
                    'distinct instance keys; non-trivial = the instance was actually matched in the AST '
                    'and decided (HOLDS/VIOLATION), instances whose anchor is missing are BROKEN and not counted',
            'samples': samples,
            'obligations': len(self.results),
            'discharged': len(held),
            'explanation': self.explanation(),
            'rules': self.rules,
            'per_rule': byrule,
            'units_analysed': sorted(self.analysed['units']),
            'functions_analysed': sorted(self.analysed['functions']),
            'paths_enumerated': self.analysed['paths'],
            'call_sites_examined': self.analysed['call_sites'],
            'not_decided': self.not_decided,
            'notes': list(self.notes),
            'known_findings_reported': [r['key'] for r in kn_viol],
            'broken': [{k: r[k] for k in ('rule', 'key', 'detail')} for r in brok],
            'checker_cmd': './check %s --tier %s' % (self.pid, self.tier),
            'trusted_base': self.trusted_base or [
                'clang 14 front end and JSON AST dumper', 'ufwsa path enumerator / linear entailment',
                'oracle tables frozen in the rule (DESIGN appendix A)'],
            'exhaustive': False,
        }
        ev = {
            'property_id': self.pid, 'tier': self.tier,
            'seed': int(os.environ.get('VERIF_SEED', '0') or 0),
            'level': self.level, 'coverage': cov,
            'assumptions': self.assumptions, 'wall_s': round(wall, 3),
            'violations': len(new_viol),
        }
        os.makedirs(EVID, exist_ok=True)
        tmp = os.path.join(EVID, self.pid + '.json.tmp')
        json.dump(ev, open(tmp, 'w'), indent=1, default=str)
        os.rename(tmp, os.path.join(EVID, self.pid + '.json'))
        print('\n'.join(out))
        sys.stdout.flush()
        if new_viol:
            return 1
        if brok:
            return 2
        return 0

    def explanation(self):
        s = ['Static analysis of /repo\'s current source (no execution). Rules decided:']
        for rid in sorted(self.rules):
            s.append(' %s: %s' % (rid, self.rules[rid]))
        if self.not_decided:
            s.append('Not decided by this check: ' + '; '.join(self.not_decided))
        return '\n'.join(s)
